// Planner-level harness (C01 and the planner halves of C03 / C04 / C20).
//
//   planners list                                   registry as JSON
//   planners c01 <cases.ndjson> <out.ndjson> <shard> <nshards> [planner-filter]
//       for every enumerated configuration (from specs/base/GridWorldEnum.tla) run every
//       registered planner that supports the requested space and record one Solve report
//       (facts from the independent oracle) per run.
//
// The harness never judges: it records facts; specs/base/PlannerContract.tla decides.
#include "planlab.h"
#include <ompl/base/PlannerData.h>
#include <ompl/util/Exception.h>
#include <chrono>
#include <set>
#include <map>
#include <functional>
#include <cstring>
#include <thread>
#include <mutex>
#include <time.h>
using vt::json;

#include <sys/wait.h>
#include <sys/resource.h>
// ---- process isolation: every run executes in a forked child (the parent stays single-threaded and
// never creates an RNG, so the child is equivalent to a fresh process that calls RNG::setSeed first).
// A planner that corrupts memory, crashes or hangs cannot influence any other run; the parent turns an
// abnormal end into a Crash / Hang event that names the run.
static void runIsolated(const json &what, vt::Trace &tr, const std::function<void()> &body, long cpuLimitS, long wallLimitS)
{
    tr.flush();
    fflush(stdout);
    if (getenv("VERIF_NOFORK"))
    {
        // debugging aid (gdb / sanitizers on one run): no isolation
        body();
        return;
    }
    pid_t pid = fork();
    if (pid == 0)
    {
        rlimit rl{(rlim_t)cpuLimitS, (rlim_t)cpuLimitS + 5};
        setrlimit(RLIMIT_CPU, &rl);
        // the parent reports an abnormal end (one event, naming the run)
        for (int sig : {SIGSEGV, SIGABRT, SIGFPE, SIGBUS})
            signal(sig, SIG_DFL);
        std::set_terminate([] { abort(); });
        body();
        tr.flush();
        fflush(stdout);
        _exit(0);
    }
    int status = 0;
    long waited = 0;
    bool killedByUs = false;
    for (;;)
    {
        pid_t r = waitpid(pid, &status, WNOHANG);
        if (r == pid)
            break;
        usleep(20000);
        waited += 20;
        if (waited > wallLimitS * 1000L && !killedByUs)
        {
            kill(pid, SIGKILL);
            killedByUs = true;
        }
    }
    if (WIFEXITED(status) && WEXITSTATUS(status) == 0)
        return;
    json ev = what;
    bool hang = killedByUs || (WIFSIGNALED(status) && (WTERMSIG(status) == SIGXCPU || WTERMSIG(status) == SIGKILL));
    ev["e"] = hang ? "Hang" : "Crash";
    if (!hang)
        ev["what"] = WIFSIGNALED(status) ? (WTERMSIG(status) == SIGSEGV ? "SIGSEGV" : WTERMSIG(status) == SIGABRT ? "SIGABRT" :
                                                                                  "signal " + std::to_string(WTERMSIG(status))) :
                                           "exit " + std::to_string(WEXITSTATUS(status));
    tr.emit(ev);
    tr.flush();
    std::cout << (hang ? "HANG " : "CRASH ") << ev.dump() << std::endl;
}

// ---- watchdog: a run that burns more than the CPU limit (or sleeps past the wall limit) is a
// hang; it becomes a {"e":"Hang"} event (which the contract never accepts) and the process exits
// with 75 so that the driver can resume behind it.
static std::atomic<long long> g_runCpuStart{-1};
static std::atomic<long long> g_runWallStart{-1};
static json g_current;
static long long cpuMs()
{
    timespec ts;
    clock_gettime(CLOCK_PROCESS_CPUTIME_ID, &ts);
    return ts.tv_sec * 1000LL + ts.tv_nsec / 1000000;
}
static long long wallMs()
{
    return std::chrono::duration_cast<std::chrono::milliseconds>(std::chrono::steady_clock::now().time_since_epoch()).count();
}
static void startWatchdog(long cpuLimitMs, long wallLimitMs)
{
    std::thread([=] {
        for (;;)
        {
            std::this_thread::sleep_for(std::chrono::milliseconds(250));
            long long c0 = g_runCpuStart.load(), w0 = g_runWallStart.load();
            if (c0 < 0)
                continue;
            if (cpuMs() - c0 > cpuLimitMs || wallMs() - w0 > wallLimitMs)
            {
                json ev = g_current;
                ev["e"] = "Hang";
                if (vt::Trace::current())
                {
                    vt::Trace::current()->emit(ev);
                    vt::Trace::current()->flush();
                }
                std::cout << "HANG " << ev.dump() << std::endl;
                _exit(75);
            }
        }
    }).detach();
}
static void onCrashSignal(int sig)
{
    json ev = g_current.is_object() ? g_current : json::object();
    ev["e"] = "Crash";
    ev["what"] = sig == SIGSEGV ? "SIGSEGV" : sig == SIGABRT ? "SIGABRT" : sig == SIGFPE ? "SIGFPE" : "signal";
    if (vt::Trace::current())
    {
        vt::Trace::current()->emit(ev);
        vt::Trace::current()->flush();
    }
    std::cout << "CRASH " << ev.dump() << std::endl;
    _exit(70);
}
static void installRunCrashHandlers()
{
    vt::installCrashHandlers();
    signal(SIGSEGV, onCrashSignal);
    signal(SIGABRT, onCrashSignal);
    signal(SIGFPE, onCrashSignal);
    signal(SIGBUS, onCrashSignal);
}
struct RunGuard
{
    RunGuard(const json &what)
    {
        g_current = what;
        g_runWallStart = wallMs();
        g_runCpuStart = cpuMs();
    }
    ~RunGuard()
    {
        g_runCpuStart = -1;
    }
};

using namespace lab;

static double rangeFor(const std::string &cls)
{
    if (cls == "tiny")
        return 0.15;
    if (cls == "huge")
        return 100.0;
    return 0.0;  // default: planner decides
}
static double thresholdFor(const std::string &cls)
{
    if (cls == "cell")
        return 0.5;
    if (cls == "huge")
        return 100.0;
    return 0.0;  // GoalState default (machine epsilon)
}

static json solutionFacts(const Problem &pr, const ob::ProblemDefinition &pd, const ob::PlannerSolution &s)
{
    json j;
    auto *pg = dynamic_cast<og::PathGeometric *>(s.path_.get());
    j["approx"] = s.approximate_;
    j["diff"] = fx(s.difference_);
    j["optimized"] = s.optimized_;
    if (!pg)
    {
        j["n"] = 0;
        j["startOk"] = false;
        j["inBounds"] = false;
        j["vertsValid"] = false;
        j["endInGoal"] = false;
        j["endDist"] = 0;
        j["endDistMax"] = 0;
        j["run"] = 0;
        j["pairsOk"] = false;
        j["cells"] = json::array();
        j["cellsTruncated"] = true;
        return j;
    }
    PathFacts f = examine(pr, pd, *pg);
    j["n"] = f.nStates;
    j["startOk"] = f.startIsAStart;
    j["inBounds"] = f.allInBounds;
    j["vertsValid"] = f.verticesValid;
    j["endInGoal"] = f.endInGoal;
    j["endDist"] = fx(f.endDist);
    j["endDistMax"] = fx(f.endDistMax);
    j["run"] = fx(f.maxInvalidRun);
    j["pairsOk"] = f.pairsRecheckOk;
    // abstract cell walk: free cells visited along the densely sampled path, deduplicated
    json cells = json::array();
    bool truncated = false;
    {
        const auto &sp = pr.space;
        ob::State *tmp = sp->allocState();
        int lastCell = -1;
        auto visit = [&](const ob::State *st) {
            double x, y;
            xy(sp, st, x, y);
            if (!pr.world.pointValid(x, y))
                return;
            int cx = std::min((int)x, pr.world.W - 1), cy = std::min((int)y, pr.world.H - 1);
            int c = cy * pr.world.W + cx;
            if (c != lastCell)
            {
                if (cells.size() < 400)
                    cells.push_back(c);
                else
                    truncated = true;
                lastCell = c;
            }
        };
        if (f.nStates >= 1)
            visit(pg->getState(0));
        for (int i = 0; i + 1 < f.nStates; ++i)
        {
            const ob::State *a = pg->getState(i), *b = pg->getState(i + 1);
            double d = sp->distance(a, b);
            int n = std::min(200000, std::max(1, (int)std::ceil(d / (pr.resolutionLength / 10.0))));
            for (int k = 1; k <= n; ++k)
            {
                sp->interpolate(a, b, (double)k / n, tmp);
                visit(tmp);
            }
        }
        sp->freeState(tmp);
    }
    j["cells"] = cells;
    j["cellsTruncated"] = truncated;
    return j;
}

// ------------------------------------------------------------------ G03: the exported planner graph
// Facts about what Planner::getPlannerData() hands out after a solve, measured by the harness's own oracle
// (validity predicate, dense re-validation along interpolate, bitwise state comparison).
static json graphFacts(const Problem &pr, const ob::ProblemDefinition &pd, const ob::PlannerPtr &planner)
{
    json g;
    ob::PlannerData data(pr.si);
    planner->getPlannerData(data);
    const auto &sp = pr.space;
    const unsigned nV = data.numVertices();
    long nullStates = 0, invalidVerts = 0, outOfBounds = 0, nStart = 0, nGoal = 0, startNotAStart = 0, goalNotInGoal = 0;
    for (unsigned i = 0; i < nV; ++i)
    {
        const ob::State *st = data.getVertex(i).getState();
        if (!st)
        {
            ++nullStates;
            continue;
        }
        double x, y;
        xy(sp, st, x, y);
        if (!sp->satisfiesBounds(st))
            ++outOfBounds;
        else if (!pr.world.pointValid(x, y))
            ++invalidVerts;
        if (data.isStartVertex(i))
        {
            ++nStart;
            bool is = false;
            for (unsigned k = 0; k < pd.getStartStateCount(); ++k)
                if (sp->equalStates(st, pd.getStartState(k)))
                    is = true;
            if (!is)
                ++startNotAStart;
        }
        if (data.isGoalVertex(i))
        {
            ++nGoal;
            if (!pd.getGoal()->isSatisfied(st))
                ++goalNotInGoal;
        }
    }
    // edges: undirected view for connectivity, dense re-validation of each directed edge
    std::vector<int> parent(nV);
    for (unsigned i = 0; i < nV; ++i)
        parent[i] = (int)i;
    std::function<int(int)> find = [&](int a) { return parent[a] == a ? a : parent[a] = find(parent[a]); };
    long nE = 0, selfLoops = 0, badEdges = 0, antiParallel = 0, cycleEdges = 0, checkedEdges = 0, edgesRecheckBad = 0;
    double maxLen = 0, worstRun = 0;
    ob::State *tmp = sp->allocState();
    const double step = pr.resolutionLength / 10.0;
    const long edgeCap = 4000;  // dense re-validation is the expensive part: cap it (first edges in index order)
    std::vector<unsigned> out;
    for (unsigned i = 0; i < nV; ++i)
    {
        out.clear();
        data.getEdges(i, out);
        for (unsigned j : out)
        {
            ++nE;
            if (i == j)
            {
                ++selfLoops;
                continue;
            }
            bool anti = data.edgeExists(j, i);
            if (anti && j < i)
            {
                ++antiParallel;  // the same undirected edge, already seen from the other side
                continue;
            }
            int a = find((int)i), b = find((int)j);
            if (a == b)
                ++cycleEdges;
            else
                parent[a] = b;
            const ob::State *s1 = data.getVertex(i).getState(), *s2 = data.getVertex(j).getState();
            if (!s1 || !s2)
                continue;
            double d = sp->distance(s1, s2);
            maxLen = std::max(maxLen, d);
            if (checkedEdges >= edgeCap)
                continue;
            ++checkedEdges;
            int n = std::min(200000, std::max(1, (int)std::ceil(d / step)));
            double run = 0, worst = 0;
            for (int k = 0; k <= n; ++k)
            {
                sp->interpolate(s1, s2, (double)k / n, tmp);
                double x, y;
                xy(sp, tmp, x, y);
                if (!pr.world.pointValid(x, y))
                {
                    run += d / n;
                    worst = std::max(worst, run);
                }
                else
                    run = 0;
            }
            // a directed edge i -> j may be travelled j -> i in a goal tree: judge the better direction
            if (worst > 2 * pr.resolutionLength && !sp->hasSymmetricInterpolate())
            {
                double run2 = 0, worst2 = 0;
                double d2 = sp->distance(s2, s1);
                int n2 = std::min(200000, std::max(1, (int)std::ceil(d2 / step)));
                for (int k = 0; k <= n2; ++k)
                {
                    sp->interpolate(s2, s1, (double)k / n2, tmp);
                    double x, y;
                    xy(sp, tmp, x, y);
                    if (!pr.world.pointValid(x, y))
                    {
                        run2 += d2 / n2;
                        worst2 = std::max(worst2, run2);
                    }
                    else
                        run2 = 0;
                }
                worst = std::min(worst, worst2);
            }
            worstRun = std::max(worstRun, worst);
            if (worst > 2 * pr.resolutionLength)
                ++badEdges;
            if (!pr.si->checkMotion(s1, s2) && !pr.si->checkMotion(s2, s1))
                ++edgesRecheckBad;
        }
    }
    sp->freeState(tmp);
    // components, and how many of them hold a start or goal vertex
    std::set<int> comps, rooted;
    std::map<int, int> compSize;
    for (unsigned i = 0; i < nV; ++i)
    {
        comps.insert(find((int)i));
        ++compSize[find((int)i)];
        if (data.isStartVertex(i) || data.isGoalVertex(i))
            rooted.insert(find((int)i));
    }
    long unrootedEdgeComps = 0;  // components that hold an edge but no start / goal vertex
    for (auto &kv : compSize)
        if (kv.second >= 2 && !rooted.count(kv.first))
            ++unrootedEdgeComps;
    // the best solution path against the exported graph: states that are vertices (bitwise), consecutive
    // states joined by an exported edge
    long pathStates = 0, pathStatesInGraph = 0, pathHops = 0, pathHopsInGraph = 0;
    if (pd.hasSolution())
        if (auto *pg = dynamic_cast<og::PathGeometric *>(pd.getSolutionPath().get()))
        {
            std::vector<double> ra, rb;
            std::vector<long> idx;
            for (std::size_t k = 0; k < pg->getStateCount(); ++k)
            {
                ++pathStates;
                sp->copyToReals(ra, pg->getState(k));
                long found = -1;
                for (unsigned i = 0; i < nV && found < 0; ++i)
                {
                    const ob::State *st = data.getVertex(i).getState();
                    if (!st)
                        continue;
                    sp->copyToReals(rb, st);
                    if (ra.size() == rb.size() && memcmp(ra.data(), rb.data(), ra.size() * sizeof(double)) == 0)
                        found = i;
                }
                if (found >= 0)
                    ++pathStatesInGraph;
                idx.push_back(found);
            }
            for (std::size_t k = 0; k + 1 < idx.size(); ++k)
            {
                ++pathHops;
                if (idx[k] >= 0 && idx[k + 1] >= 0 &&
                    (idx[k] == idx[k + 1] || data.edgeExists(idx[k], idx[k + 1]) || data.edgeExists(idx[k + 1], idx[k])))
                    ++pathHopsInGraph;
            }
        }
    g["nV"] = (long)nV;
    g["nE"] = nE;
    g["nullStates"] = nullStates;
    g["invalidVerts"] = invalidVerts;
    g["outOfBounds"] = outOfBounds;
    g["nStart"] = nStart;
    g["nGoal"] = nGoal;
    g["startNotAStart"] = startNotAStart;
    g["goalNotInGoal"] = goalNotInGoal;
    g["selfLoops"] = selfLoops;
    g["antiParallel"] = antiParallel;
    g["cycleEdges"] = cycleEdges;
    g["comps"] = (long)comps.size();
    g["rootedComps"] = (long)rooted.size();
    g["unrootedEdgeComps"] = unrootedEdgeComps;
    g["checkedEdges"] = checkedEdges;
    g["badEdges"] = badEdges;
    g["edgesRecheckBad"] = edgesRecheckBad;
    g["worstRun"] = fx(worstRun);
    g["maxLen"] = fx(maxLen);
    g["pathStates"] = pathStates;
    g["pathStatesInGraph"] = pathStatesInGraph;
    g["pathHops"] = pathHops;
    g["pathHopsInGraph"] = pathHopsInGraph;
    return g;
}

static void setRange(const ob::PlannerPtr &p, double range)
{
    if (range > 0 && p->params().hasParam("range"))
        p->params().setParam("range", std::to_string(range));
}

struct RunSpec
{
    std::string planner, space, thr, range;
    long budget;
    unsigned seed;
    double res;
    std::string query{"single"};  // single | multistart | goalstates | region
    json params = json::object();  // planner parameters set through the ParamSet (name -> value as string)
    bool apart{false};             // additional starts / goals placed so that no start / goal pair can be joined
};

// declared planner parameters of a job ("params": {name: value-as-string}), set the way a user does (ParamSet)
static void applyParams(const ob::PlannerPtr &p, const json &job)
{
    if (!job.contains("params"))
        return;
    for (auto it = job["params"].begin(); it != job["params"].end(); ++it)
    {
        try
        {
            if (p->params().hasParam(it.key()))
                p->params().setParam(it.key(), it.value().get<std::string>());
        }
        catch (const std::exception &)
        {
        }
    }
}

static json runOne(const std::vector<Entry> &reg, const json &cs, const RunSpec &rs)
{
    const Entry *e = findPlanner(reg, rs.planner);
    World w(cs["W"], cs["H"], cs["obst"].get<std::vector<int>>());
    Problem pr(w, rs.space, rs.res);
    ompl::RNG::setSeed(rs.seed);
    vt::Rng jit(rs.seed);
    std::vector<int> xstarts, xgoals;
    auto pd = makeQueryVariant(pr, rs.query, cs["start"], cs["goal"], thresholdFor(rs.thr), jit, xstarts, xgoals, rs.apart);
    ob::PlannerPtr p = e->make(pr.si);
    p->setProblemDefinition(pd);
    setRange(p, rangeFor(rs.range));
    Budget b;
    b.k = rs.budget;
    b.pdef = pd.get();
    // non-optimizing planners stop by themselves; optimizing ones get the exact-solution stop
    // in half of the runs so that both "interrupted while improving" and "ran to budget" occur
    b.stopOnExact = (rs.seed % 2) == 0;
    std::size_t nBefore = pd->getSolutionCount();
    ob::PlannerStatus st;
    std::string thrown;
    json rejected = json::array();
    try
    {
        // declared parameters, set the way a user does (ParamSet); a value the planner refuses is recorded
        for (auto it = rs.params.begin(); it != rs.params.end(); ++it)
            if (!p->params().hasParam(it.key()) || !p->params().setParam(it.key(), it.value().get<std::string>()))
                rejected.push_back(it.key());
        if (e->flags & F_MULTILEVEL)
            p->setup();  // the multilevel planners do not set themselves up in solve() (documented: setup() first)
        st = p->solve(b.ptc());
    }
    catch (const ompl::Exception &ex)
    {
        thrown = ex.what();  // e.g. a planner rejecting a state space it does not support
    }
    json ev;
    ev["e"] = "Solve";
    ev["planner"] = rs.planner;
    ev["space"] = rs.space;
    ev["W"] = w.W;
    ev["H"] = w.H;
    ev["obst"] = cs["obst"];
    ev["start"] = cs["start"];
    ev["goal"] = cs["goal"];
    ev["query"] = rs.query;
    ev["apart"] = rs.apart;
    ev["params"] = rs.params;
    ev["paramsRejected"] = rejected;
    ev["xstarts"] = xstarts;
    ev["xgoals"] = xgoals;
    // a region goal has a real extent: the "tiny threshold" model clauses do not apply to it
    ev["thr"] = rs.query == "region" && rs.thr == "tiny" ? "cell" : rs.thr;
    ev["thrMicro"] = fx(pr.threshold);
    ev["range"] = rs.range;
    ev["budget"] = rs.budget;
    ev["seed"] = rs.seed;
    ev["res"] = fx(pr.resolutionLength);
    ev["resFrac"] = fx(rs.res);
    ev["pairs"] = (e->flags & F_PAIRS) != 0;
    ev["status"] = thrown.empty() ? statusName(st) : "EXCEPTION";
    if (!thrown.empty())
        ev["what"] = thrown.substr(0, 160);
    ev["nBefore"] = (int)nBefore;
    ev["nAfter"] = (int)pd->getSolutionCount();
    ev["evals"] = (long)b.evals.load();
    json sols = json::array();
    for (auto &s : pd->getSolutions())
        sols.push_back(solutionFacts(pr, *pd, s));
    ev["sols"] = sols;
    if (getenv("VERIF_GRAPH") && thrown.empty())
    {
        ev["graph"] = graphFacts(pr, *pd, p);
        ev["rangeMicro"] = fx(rangeFor(rs.range));
        ev["hasSolution"] = pd->hasSolution();
        ev["hasExact"] = pd->hasExactSolution();
    }
    return ev;
}

// ------------------------------------------------------------------ C03: life cycle
// R^2 with allocation accounting: leaks and double frees become observable facts.
class CountingR2 : public ob::RealVectorStateSpace
{
public:
    CountingR2() : ob::RealVectorStateSpace(2)
    {
    }
    ob::State *allocState() const override
    {
        ob::State *s = ob::RealVectorStateSpace::allocState();
        std::lock_guard<std::mutex> g(m_);
        live_.insert(s);
        ++allocs_;
        return s;
    }
    void freeState(ob::State *s) const override
    {
        {
            std::lock_guard<std::mutex> g(m_);
            auto it = live_.find(s);
            if (it == live_.end())
            {
                ++badFrees_;  // double free or a pointer this space never handed out
                return;       // do not hand it to the real allocator
            }
            live_.erase(it);
        }
        ob::RealVectorStateSpace::freeState(s);
    }
    long live() const
    {
        std::lock_guard<std::mutex> g(m_);
        return (long)live_.size();
    }
    long badFrees() const
    {
        std::lock_guard<std::mutex> g(m_);
        return badFrees_;
    }
    long allocs() const
    {
        std::lock_guard<std::mutex> g(m_);
        return allocs_;
    }

private:
    mutable std::mutex m_;
    mutable std::set<ob::State *> live_;
    mutable long badFrees_{0}, allocs_{0};
};

struct Query
{
    int start, goal;
    double sx, sy, gx, gy;  // exact coordinates (recognizable: no sampler reproduces them)
    // additional start / goal states (cell, x, y): several starts, a GoalStates goal
    std::vector<std::tuple<int, double, double>> xs, xg;
};

static long budgetValue(const std::string &k)
{
    if (k == "inf")
        return 4000;
    return atol(k.c_str() + 1);  // "k13" -> 13
}

// one history on one planner; emits events into tr
static void runLifecycle(const std::vector<Entry> &reg, const json &job, vt::Trace &tr)
{
    const Entry *e = findPlanner(reg, job["planner"]);
    World w(job["W"], job["H"], job["obst"].get<std::vector<int>>());
    unsigned seed = job["seed"];
    ompl::RNG::setSeed(seed);
    vt::Rng jit(seed * 2654435761u + 7);
    auto space = std::make_shared<CountingR2>();
    {
        ob::RealVectorBounds b(2);
        b.setLow(0, 0);
        b.setHigh(0, w.W);
        b.setLow(1, 0);
        b.setHigh(1, w.H);
        space->setBounds(b);
    }
    const double resFrac = 0.01;
    space->setLongestValidSegmentFraction(resFrac);
    auto si = std::make_shared<ob::SpaceInformation>(space);
    auto validity = std::make_shared<WorldValidity>(si, w);
    si->setStateValidityChecker(validity);
    si->setup();
    // a Problem shell for the oracle (shares space / si / world)
    Problem pr(w, "R2", resFrac);
    pr.space = space;
    pr.si = si;
    pr.validity = validity;
    pr.resolutionLength = space->getLongestValidSegmentLength();

    std::vector<int> freeCells;
    for (int c = 0; c < w.W * w.H; ++c)
        if (w.cellFree(c))
            freeCells.push_back(c);
    // optional forced queries ("queries": [{start, goal, xs: [cells], xg: [cells]}, ...]) are used, in order, before
    // random ones: targeted histories (e.g. "the new start lies where an old goal was") need them
    std::size_t forcedUsed = 0;
    auto pickQuery = [&]() {
        Query q;
        if (job.contains("queries") && forcedUsed < job["queries"].size())
        {
            const json &f = job["queries"][forcedUsed++];
            auto jx = [&](int c) { return w.cx(c) + (jit.unit() - 0.5) * 0.6; };
            auto jy = [&](int c) { return w.cy(c) + (jit.unit() - 0.5) * 0.6; };
            q.start = f["start"];
            q.goal = f["goal"];
            q.sx = jx(q.start);
            q.sy = jy(q.start);
            q.gx = jx(q.goal);
            q.gy = jy(q.goal);
            if (f.contains("xs") && !(e->flags & F_SINGLESTART))
                for (int c : f["xs"])
                {
                    double x = jx(c), y = jy(c);
                    q.xs.emplace_back(c, x, y);
                }
            if (f.contains("xg"))
                for (int c : f["xg"])
                {
                    double x = jx(c), y = jy(c);
                    q.xg.emplace_back(c, x, y);
                }
            return q;
        }
        // mostly valid queries; the model-determined classes (invalid start/goal, unreachable) occur too
        auto cell = [&]() {
            if (jit.below(12) == 0 || freeCells.empty())
                return jit.below(w.W * w.H);
            return freeCells[jit.below((int)freeCells.size())];
        };
        q.start = cell();
        q.goal = cell();
        q.sx = w.cx(q.start) + (jit.unit() - 0.5) * 0.6;
        q.sy = w.cy(q.start) + (jit.unit() - 0.5) * 0.6;
        q.gx = w.cx(q.goal) + (jit.unit() - 0.5) * 0.6;
        q.gy = w.cy(q.goal) + (jit.unit() - 0.5) * 0.6;
        // now and then several start states (some possibly invalid) or several goal states
        int variant = jit.below(7);
        if (variant == 0 && !(e->flags & F_SINGLESTART))
            for (int k = 0; k < 2; ++k)
            {
                int c = jit.below(w.W * w.H);
                q.xs.emplace_back(c, w.cx(c) + (jit.unit() - 0.5) * 0.6, w.cy(c) + (jit.unit() - 0.5) * 0.6);
            }
        else if (variant == 1)
            for (int k = 0; k < 2; ++k)
            {
                int c = jit.below(w.W * w.H);
                q.xg.emplace_back(c, w.cx(c) + (jit.unit() - 0.5) * 0.6, w.cy(c) + (jit.unit() - 0.5) * 0.6);
            }
        return q;
    };
    std::map<std::string, ob::ProblemDefinitionPtr> pdefs;
    std::map<std::string, Query> cur;
    std::vector<Query> past;  // every query ever used (for staleness)
    const double thr = job.value("thr", 0.0);
    auto applyQuery = [&](const std::string &p, const Query &q) {
        auto &pd = pdefs[p];
        if (!pd)
            pd = std::make_shared<ob::ProblemDefinition>(si);
        pd->clearSolutionPaths();
        pd->clearStartStates();
        ob::ScopedState<> s(space), g(space);
        s[0] = q.sx;
        s[1] = q.sy;
        g[0] = q.gx;
        g[1] = q.gy;
        // extra starts go in front (the first ones may be invalid: the planner has to skip them)
        for (auto &x : q.xs)
        {
            ob::ScopedState<> xsd(space);
            xsd[0] = std::get<1>(x);
            xsd[1] = std::get<2>(x);
            pd->addStartState(xsd);
        }
        pd->addStartState(s);
        if (q.xg.empty())
        {
            auto gs = std::make_shared<ob::GoalState>(si);
            gs->setState(g);
            if (thr > 0)
                gs->setThreshold(thr);
            pd->setGoal(gs);
        }
        else
        {
            auto gs = std::make_shared<ob::GoalStates>(si);
            for (auto &x : q.xg)
            {
                ob::ScopedState<> xgd(space);
                xgd[0] = std::get<1>(x);
                xgd[1] = std::get<2>(x);
                gs->addState(xgd);
            }
            gs->addState(g);
            if (thr > 0)
                gs->setThreshold(thr);
            pd->setGoal(gs);
        }
        cur[p] = q;
        past.push_back(q);
    };
    auto cellsOf = [](const std::vector<std::tuple<int, double, double>> &v) {
        json a = json::array();
        for (auto &x : v)
            a.push_back(std::get<0>(x));
        return a;
    };
    // is (x,y) the exact start or goal of a query other than `now`?
    auto staleCount = [&](const std::vector<std::pair<double, double>> &pts, const Query &now) {
        int n = 0;
        for (auto &pt : pts)
            for (auto &q : past)
            {
                bool isNow = (q.sx == now.sx && q.sy == now.sy && q.gx == now.gx && q.gy == now.gy);
                if (isNow)
                    continue;
                bool hit = (pt.first == q.sx && pt.second == q.sy && !(pt.first == now.sx && pt.second == now.sy)) ||
                           (pt.first == q.gx && pt.second == q.gy && !(pt.first == now.gx && pt.second == now.gy));
                for (auto &x : q.xs)
                    hit = hit || (pt.first == std::get<1>(x) && pt.second == std::get<2>(x));
                for (auto &x : q.xg)
                    hit = hit || (pt.first == std::get<1>(x) && pt.second == std::get<2>(x));
                if (hit)
                {
                    ++n;
                    break;
                }
            }
        return n;
    };

    Query qa = pickQuery(), qb = pickQuery();
    applyQuery("A", qa);
    applyQuery("B", qb);
    json reset{{"e", "Reset"}, {"planner", e->name}, {"W", w.W}, {"H", w.H}, {"obst", job["obst"]},
               {"seed", seed}, {"B", (e->flags & F_MT) ? 400 : 24}, {"job", job.value("id", 0)},
               {"qA", json{{"start", qa.start}, {"goal", qa.goal}}}, {"qB", json{{"start", qb.start}, {"goal", qb.goal}}}};
    tr.emit(reset);
    ob::PlannerPtr planner = e->make(si);
    applyParams(planner, job);
    std::string bound;
    auto rankOf = [&](const ob::PlannerSolution &s) {
        return json{{"approx", s.approximate_}, {"diff", fx(s.difference_)}, {"len", fx(s.length_)}};
    };
    for (auto &op : job["ops"])
    {
        std::string a = op["a"];
        json ev{{"e", a}};
        if (a == "SetPdef")
        {
            bound = op["p"];
            planner->setProblemDefinition(pdefs[bound]);
            ev["p"] = bound;
        }
        else if (a == "NewQuery")
        {
            std::string p = op["p"];
            Query q = pickQuery();
            applyQuery(p, q);
            ev["p"] = p;
            ev["start"] = q.start;
            ev["goal"] = q.goal;
            ev["xstarts"] = cellsOf(q.xs);
            ev["xgoals"] = cellsOf(q.xg);
        }
        else if (a == "Clear")
            planner->clear();
        else if (a == "ClearQuery")
        {
            // the roadmap planners (PRM, LazyPRM, SPARS families) also clear the query when a definition is bound:
            // "via": "rebind" spells ClearQuery as setProblemDefinition(the definition that is bound already)
            if (op.value("via", std::string()) == "rebind" && !bound.empty() && pdefs.count(bound))
            {
                planner->setProblemDefinition(pdefs[bound]);
                ev["via"] = "rebind";
            }
            else
                planner->clearQuery();
        }
        else if (a == "Setup")
            planner->setup();
        else if (a == "Solve")
        {
            auto pd = pdefs[bound];
            const Query &q = cur[bound];
            Budget b;
            std::string kname = op["k"];
            b.k = budgetValue(kname);
            b.pdef = pd.get();
            b.stopOnExact = kname == "inf";
            std::size_t nBefore = pd->getSolutionCount();
            // "inf" stops on an exact solution: if the definition already holds one the condition is true from its
            // first evaluation on (the planner is interrupted before its first iteration)
            const bool firedAtEntry = b.stopOnExact && pd->hasExactSolution();
            ob::PlannerSolution topB(nullptr);
            bool hadTop = pd->getSolutions().size() > 0;
            if (hadTop)
                topB = pd->getSolutions()[0];
            std::set<const ob::Path *> before;
            for (auto &s : pd->getSolutions())
                before.insert(s.path_.get());
            if ((e->flags & F_MULTILEVEL) && !planner->isSetup())
                planner->setup();  // documented usage: the multilevel planners do not set themselves up in solve()
            ob::PlannerStatus st = planner->solve(b.ptc());
            pr.pdef = pd;
            ev["k"] = kname;
            ev["kval"] = b.stopOnExact ? -1 : b.k;
            ev["firedAtEntry"] = firedAtEntry;
            ev["evals"] = (long)b.evals.load();
            ev["planner"] = e->name;
            ev["W"] = w.W;
            ev["H"] = w.H;
            ev["obst"] = job["obst"];
            ev["start"] = q.start;
            ev["goal"] = q.goal;
            ev["xstarts"] = cellsOf(q.xs);
            ev["xgoals"] = cellsOf(q.xg);
            ev["thr"] = thr > 0 ? "cell" : "tiny";
            ev["thrMicro"] = fx(dynamic_cast<ob::GoalRegion *>(pd->getGoal().get())->getThreshold());
            ev["res"] = fx(pr.resolutionLength);
            ev["pairs"] = (e->flags & F_PAIRS) != 0;
            ev["status"] = statusName(st);
            ev["nBefore"] = (int)nBefore;
            ev["nAfter"] = (int)pd->getSolutionCount();
            ev["hasExact"] = pd->hasExactSolution();
            json sols = json::array();
            auto all = pd->getSolutions();
            for (auto &s : all)
            {
                json f = solutionFacts(pr, *pd, s);
                f["added"] = before.count(s.path_.get()) == 0;
                std::vector<std::pair<double, double>> pts;
                if (auto *pg = dynamic_cast<og::PathGeometric *>(s.path_.get()))
                    for (std::size_t i = 0; i < pg->getStateCount(); ++i)
                    {
                        double x, y;
                        xy(space, pg->getState(i), x, y);
                        pts.emplace_back(x, y);
                    }
                f["stale"] = staleCount(pts, q);
                sols.push_back(f);
            }
            ev["sols"] = sols;
            ev["hadTop"] = hadTop;
            ev["topBefore"] = hadTop ? rankOf(topB) : json{{"approx", false}, {"diff", 0}, {"len", 0}};
            ev["topAfter"] = all.empty() ? json{{"approx", false}, {"diff", 0}, {"len", 0}} : rankOf(all[0]);
        }
        else if (a == "GetPlannerData")
        {
            ob::PlannerData data(si);
            planner->getPlannerData(data);
            std::vector<std::pair<double, double>> pts;
            for (unsigned i = 0; i < data.numVertices(); ++i)
            {
                const ob::State *st = data.getVertex(i).getState();
                if (!st)
                    continue;
                double x, y;
                xy(space, st, x, y);
                pts.emplace_back(x, y);
            }
            ev["nVerts"] = (int)data.numVertices();
            ev["nEdges"] = (int)data.numEdges();
            ev["stale"] = bound.empty() ? 0 : staleCount(pts, cur[bound]);
        }
        else if (a == "Destroy")
        {
            planner.reset();
            pdefs.clear();
            pr.pdef.reset();
            ev["live"] = space->live();
            ev["badFrees"] = space->badFrees();
            ev["allocs"] = space->allocs();
            tr.emit(ev);
            break;
        }
        tr.emit(ev);
    }
}

// ------------------------------------------------------------------ C04: cost truthfulness
class ClearanceIntegral : public ob::StateCostIntegralObjective
{
public:
    ClearanceIntegral(const ob::SpaceInformationPtr &si) : ob::StateCostIntegralObjective(si, true)
    {
    }
    ob::Cost stateCost(const ob::State *s) const override
    {
        return ob::Cost(1.0 / (si_->getStateValidityChecker()->clearance(s) + 0.1));
    }
};
class HillWork : public ob::MechanicalWorkOptimizationObjective
{
public:
    HillWork(const ob::SpaceInformationPtr &si) : ob::MechanicalWorkOptimizationObjective(si)
    {
    }
    ob::Cost stateCost(const ob::State *s) const override
    {
        const double *v = s->as<ob::RealVectorStateSpace::StateType>()->values;
        return ob::Cost(v[0] + 0.5 * v[1]);
    }
};

static ob::OptimizationObjectivePtr makeObjective(const std::string &name, const ob::SpaceInformationPtr &si, double straight,
                                                  int &sense)
{
    sense = 1;
    if (name == "length")
        return std::make_shared<ob::PathLengthOptimizationObjective>(si);
    if (name == "length-thr")
    {
        auto o = std::make_shared<ob::PathLengthOptimizationObjective>(si);
        o->setCostThreshold(ob::Cost(1.25 * straight + 0.3));
        return o;
    }
    if (name == "clearint")
        return std::make_shared<ClearanceIntegral>(si);
    if (name == "combo")
    {
        auto m = std::make_shared<ob::MultiOptimizationObjective>(si);
        m->addObjective(std::make_shared<ob::PathLengthOptimizationObjective>(si), 1.0);
        m->addObjective(std::make_shared<ClearanceIntegral>(si), 0.5);
        m->lock();
        return m;
    }
    if (name == "maxminclear")
    {
        sense = -1;
        return std::make_shared<ob::MaximizeMinClearanceObjective>(si);
    }
    if (name == "mechwork")
        return std::make_shared<HillWork>(si);
    fprintf(stderr, "unknown objective %s\n", name.c_str());
    exit(3);
}

// a sequence of continued solves on one query under one objective; one event per solve
static void runCost(const std::vector<Entry> &reg, const json &job, vt::Trace &tr)
{
    const Entry *e = findPlanner(reg, job["planner"]);
    World w(job["W"], job["H"], job["obst"].get<std::vector<int>>());
    unsigned seed = job["seed"];
    ompl::RNG::setSeed(seed);
    Problem pr(w, "R2", 0.01);
    vt::Rng jit(seed);
    auto off = [&]() { return (jit.unit() - 0.5) * 0.6; };
    double sdx = off(), sdy = off(), gdx = off(), gdy = off();
    double thr = job.value("thr", 0.0);
    auto pd = pr.makeQuery(job["start"], job["goal"], thr, sdx, sdy, gdx, gdy);
    const ob::State *startState = pd->getStartState(0);
    const ob::State *goalState = pr.goal->getState();
    double straight = pr.space->distance(startState, goalState);
    double lb = 0;
    int sense = 1;
    std::string oname = job["objective"];
    ob::OptimizationObjectivePtr obj = makeObjective(oname, pr.si, straight, sense);
    pd->setOptimizationObjective(obj);
    ob::PlannerPtr p = e->make(pr.si);
    applyParams(p, job);
    p->setProblemDefinition(pd);
    tr.emit(json{{"e", "Reset"}, {"planner", e->name}, {"objective", oname}, {"sense", sense}, {"job", job.value("id", 0)},
                 {"W", w.W}, {"H", w.H}, {"obst", job["obst"]}, {"start", job["start"]}, {"goal", job["goal"]},
                 {"seed", seed}, {"exactCost", job.value("exactCost", false)}});
    // admissible lower bound for the query
    if (oname == "length" || oname == "length-thr")
        lb = std::max(0.0, straight - pr.threshold);
    else
        lb = obj->motionCostHeuristic(startState, goalState).value();
    json budgets = job["budgets"];
    // optional second phase on the SAME planner instance: clearQuery(), then a different (usually more
    // expensive) query on the same definition - what a planner kept from the first query must not leak
    // into the costs it reports for the second
    if (job.contains("requery"))
        budgets.push_back("requery");
    for (std::size_t bi = 0; bi < budgets.size(); ++bi)  // the list grows when the requery marker is reached
    {
        const json kk = budgets[bi];
        if (kk.is_string())
        {
            p->clearQuery();
            pd->clearSolutionPaths();
            pd->clearStartStates();
            ob::ScopedState<> s2(pr.space), g2(pr.space);
            setCell(pr.space, s2.get(), w, job["requery"]["start"], gdx, gdy);
            setCell(pr.space, g2.get(), w, job["requery"]["goal"], sdx, sdy);
            pd->addStartState(s2);
            auto gs = std::make_shared<ob::GoalState>(pr.si);
            gs->setState(g2);
            if (thr > 0)
                gs->setThreshold(thr);
            pd->setGoal(gs);
            pr.goal = gs;
            pr.threshold = gs->getThreshold();
            p->setProblemDefinition(pd);
            startState = pd->getStartState(0);
            goalState = gs->getState();
            straight = pr.space->distance(startState, goalState);
            if (oname == "length" || oname == "length-thr")
                lb = std::max(0.0, straight - pr.threshold);
            else
                lb = obj->motionCostHeuristic(startState, goalState).value();
            tr.emit(json{{"e", "Requery"}, {"planner", e->name}, {"objective", oname}, {"start", job["requery"]["start"]},
                         {"goal", job["requery"]["goal"]}});
            for (auto &k2 : job["requery"]["budgets"])
                budgets.push_back(k2);
            continue;
        }
        Budget b;
        b.k = kk.get<long>();
        b.pdef = pd.get();
        std::set<const ob::Path *> before;
        for (auto &s : pd->getSolutions())
            before.insert(s.path_.get());
        ob::PlannerStatus st;
        std::string thrown;
        try
        {
            st = p->solve(b.ptc());
        }
        catch (const ompl::Exception &ex)
        {
            thrown = ex.what();
        }
        json ev{{"e", "CostSolve"}, {"planner", e->name}, {"objective", oname}, {"k", b.k}, {"evals", (long)b.evals.load()},
                {"status", thrown.empty() ? statusName(st) : "EXCEPTION"}, {"lb", fx(lb)}, {"sense", sense}};
        json sols = json::array();
        for (auto &s : pd->getSolutions())
        {
            json f;
            auto *pg = dynamic_cast<og::PathGeometric *>(s.path_.get());
            f["approx"] = s.approximate_;
            f["added"] = before.count(s.path_.get()) == 0;
            f["hasObj"] = (bool)s.opt_;
            f["sameObj"] = s.opt_.get() == obj.get();
            f["optimized"] = s.optimized_;
            f["stored"] = fx(s.cost_.value());
            double truec = pg ? pg->cost(obj).value() : 0.0;
            f["true"] = fx(truec);
            f["satisfies"] = obj->isSatisfied(s.cost_);
            f["n"] = pg ? (int)pg->getStateCount() : 0;
            f["len"] = fx(s.length_);
            f["reallen"] = fx(pg ? pg->length() : 0.0);
            sols.push_back(f);
        }
        ev["sols"] = sols;
        // the planner's own progress property "best cost" (the incumbent it steers by), where it publishes one
        ev["hasBestProp"] = false;
        ev["bestProp"] = 0;
        if (!(e->flags & F_MT))   // (the multi-threaded planners update their incumbent from callbacks of their
        {                         //  instances while those report on their own: no single moment to compare at)
            const auto &pp = p->getPlannerProgressProperties();
            auto it = pp.find("best cost REAL");
            if (it != pp.end() && thrown.empty())
            {
                try
                {
                    double v = std::stod(it->second());
                    if (std::isfinite(v))
                    {
                        ev["hasBestProp"] = true;
                        ev["bestProp"] = fx(v);
                    }
                }
                catch (const std::exception &)
                {
                }
            }
        }
        tr.emit(ev);
    }
}

int main(int argc, char **argv)
{
    installRunCrashHandlers();
    quietLogs();
    std::string mode = argc > 1 ? argv[1] : "";
    auto reg = registry();
    if (mode == "list")
    {
        json a = json::array();
        // with the parameters each planner declares (name, default, range suggestion), read from an instance
        World w(3, 3, {});
        for (auto &e : reg)
        {
            json params = json::array();
            try
            {
                Problem pr(w, (e.flags & F_MULTILEVEL) ? "SE2" : "R2", 0.01);
                ob::PlannerPtr p = e.make(pr.si);
                std::map<std::string, std::string> vals;
                p->params().getParams(vals);
                for (auto &kv : vals)
                    params.push_back(json{{"name", kv.first}, {"default", kv.second},
                                          {"range", p->params().getParam(kv.first)->getRangeSuggestion()}});
            }
            catch (const std::exception &)
            {
            }
            a.push_back(json{{"name", e.name}, {"flags", e.flags}, {"params", params}});
        }
        std::cout << a.dump() << std::endl;
        return 0;
    }
    if (mode == "c01" && argc >= 6)
    {
        // cases file: one JSON per line: {"case": {...GridWorld config...}, "runs": [RunSpec...]}
        auto jobs = vt::readNdjson(argv[2]);
        int shard = atoi(argv[4]), nshards = atoi(argv[5]);
        long skip = argc > 6 ? atol(argv[6]) : 0;  // resume: number of runs of this shard already done
        vt::Trace tr(argv[3], skip > 0);
        long n = 0;
        for (std::size_t i = 0; i < jobs.size(); ++i)
        {
            if ((int)(i % nshards) != shard)
                continue;
            const json &cs = jobs[i]["case"];
            for (auto &r : jobs[i]["runs"])
            {
                RunSpec rs{r["planner"], r["space"], r["thr"], r["range"], r["budget"], r["seed"], r["res"]};
                rs.query = r.value("query", "single");
                rs.params = r.value("params", json::object());
                rs.apart = r.value("apart", false);
                const Entry *e = findPlanner(reg, rs.planner);
                if (!e || (!supports(*e, rs.space) && !getenv("VERIF_FORCE_SPACE")))
                    continue;
                if (rs.query == "region" && (e->flags & (F_BIDIR | F_MULTILEVEL)))
                    rs.query = "single";  // these planners need a sampleable goal
                if (rs.query == "multistart" && (e->flags & F_SINGLESTART))
                    rs.query = "single";  // documented: several start states are not supported
                if (n++ < skip)
                    continue;
                // make the run identifiable if the process dies in it
                json what{{"planner", rs.planner}, {"space", rs.space}, {"W", cs["W"]}, {"H", cs["H"]},
                          {"obst", cs["obst"]}, {"start", cs["start"]}, {"goal", cs["goal"]}, {"thr", rs.thr},
                          {"range", rs.range}, {"budget", rs.budget}, {"seed", rs.seed}, {"idx", n - 1},
                          {"query", rs.query}, {"resFrac", (long)std::lround(rs.res * 1e6)}, {"params", rs.params}};
                std::cout << "RUN " << (n - 1) << std::endl;
                runIsolated(what, tr, [&] { tr.emit(runOne(reg, cs, rs)); }, 240, 1800);
            }
        }
        std::cout << "RECORDED " << n << std::endl;
        return 0;
    }
    if (mode == "c03" && argc >= 6)
    {
        auto jobs = vt::readNdjson(argv[2]);
        int shard = atoi(argv[4]), nshards = atoi(argv[5]);
        long skip = argc > 6 ? atol(argv[6]) : 0;
        vt::Trace tr(argv[3], skip > 0);
        long n = 0;
        for (std::size_t i = 0; i < jobs.size(); ++i)
        {
            if ((int)(i % nshards) != shard)
                continue;
            if (n++ < skip)
                continue;
            const json &job = jobs[i];
            json what{{"planner", job["planner"]}, {"job", job.value("id", 0)}, {"idx", n - 1}};
            std::cout << "RUN " << (n - 1) << std::endl;
            runIsolated(what, tr, [&] { runLifecycle(reg, job, tr); }, 180, 1800);
        }
        std::cout << "RECORDED " << n << std::endl;
        return 0;
    }
    if (mode == "c04" && argc >= 6)
    {
        auto jobs = vt::readNdjson(argv[2]);
        int shard = atoi(argv[4]), nshards = atoi(argv[5]);
        long skip = argc > 6 ? atol(argv[6]) : 0;
        vt::Trace tr(argv[3], skip > 0);
        
        long n = 0;
        for (std::size_t i = 0; i < jobs.size(); ++i)
        {
            if ((int)(i % nshards) != shard)
                continue;
            if (n++ < skip)
                continue;
            const json &job = jobs[i];
            json what{{"planner", job["planner"]}, {"objective", job["objective"]}, {"job", job.value("id", 0)}, {"idx", n - 1}};
            std::cout << "RUN " << (n - 1) << std::endl;
            runIsolated(what, tr, [&] { runCost(reg, job, tr); }, 240, 1800);
        }
        std::cout << "RECORDED " << n << std::endl;
        return 0;
    }
    if (mode == "c20one" && argc >= 3)
    {
        // ONE run in THIS fresh process: seed first, then build everything, solve under an
        // evaluation-count condition, print the complete outcome as bit patterns.
        json job = json::parse(argv[2]);
        unsigned seed = job["seed"];
        ompl::RNG::setSeed(seed);
        bool seedTookEffect = ompl::RNG::getSeed() == seed;
        const Entry *e = findPlanner(reg, job["planner"]);
        World w(job["W"], job["H"], job["obst"].get<std::vector<int>>());
        Problem pr(w, job.value("space", "R2"), 0.01);
        pr.validity->hashing = true;
        auto pd = pr.makeQuery(job["start"], job["goal"], job.value("thr", 0.0), 0.13, -0.21, -0.17, 0.09);
        if (job.value("objective", "") == "length")
            pd->setOptimizationObjective(std::make_shared<ob::PathLengthOptimizationObjective>(pr.si));
        ob::PlannerPtr p = e->make(pr.si);
        applyParams(p, job);
        p->setProblemDefinition(pd);
        if (e->flags & F_MULTILEVEL)
            p->setup();
        startWatchdog(60000, 900000);
        std::string fp;
        char buf[64];
        {
            RunGuard g(job);
            int nsolves = job.value("solves", 1);
            for (int i = 0; i < nsolves; ++i)
            {
                Budget b;
                b.k = job["budget"];
                b.pdef = pd.get();
                ob::PlannerStatus st = p->solve(b.ptc());
                snprintf(buf, sizeof buf, "%s/%ld/", statusName(st), (long)b.evals.load());
                fp += buf;
            }
        }
        snprintf(buf, sizeof buf, "q%llu/h%016llx/n%zu", (unsigned long long)pr.validity->queries.load(),
                 (unsigned long long)pr.validity->hash.load(), pd->getSolutionCount());
        fp += buf;
        unsigned long long ph = 1469598103934665603ULL;
        for (auto &s : pd->getSolutions())
        {
            auto *pg = dynamic_cast<og::PathGeometric *>(s.path_.get());
            std::vector<double> reals;
            for (std::size_t i = 0; pg && i < pg->getStateCount(); ++i)
            {
                pr.space->copyToReals(reals, pg->getState(i));
                for (double v : reals)
                {
                    unsigned long long u;
                    memcpy(&u, &v, 8);
                    ph = (ph ^ u) * 1099511628211ULL;
                }
            }
            unsigned long long u;
            double c = s.cost_.value();
            memcpy(&u, &c, 8);
            ph = (ph ^ u) * 1099511628211ULL;
            ph = (ph ^ (s.approximate_ ? 3 : 5)) * 1099511628211ULL;
        }
        snprintf(buf, sizeof buf, "/p%016llx", ph);
        fp += buf;
        std::cout << "OBS " << json{{"val", fp}, {"seedTookEffect", seedTookEffect}}.dump() << std::endl;
        return 0;
    }
    fprintf(stderr, "usage: planners list | c01|c03|c04 <jobs> <out> <shard> <nshards> [skip] | c20one <job>\n");
    return 2;
}
