// C17: worlds (obstacle layouts), the validity predicate handed to the library, and the
// harness's own oracle (distance, cost, validity) that the reports are computed with.
#pragma once
#include "vtrace.h"
#include "ompl/base/SpaceInformation.h"
#include "ompl/base/spaces/RealVectorStateSpace.h"
#include "ompl/base/OptimizationObjective.h"
#include "ompl/base/objectives/PathLengthOptimizationObjective.h"
#include "ompl/geometric/PathGeometric.h"
#include "ompl/util/Console.h"
#include <sys/personality.h>
#include <algorithm>
#include <cmath>
#include <fstream>
#include <memory>

namespace c17
{
    namespace ob = ompl::base;
    namespace og = ompl::geometric;
    using vt::json;

    // ------------------------------------------------------------------ process set-up
    // Heap addresses decide iteration order in std::set<PathInfo> (PathHybridization): switch
    // address-space randomization off once so that a chain is reproducible bit for bit.
    inline void fixAddressSpace(char **argv)
    {
        if (getenv("C17_NOASLR"))
            return;
        int cur = personality(0xffffffff);
        if (cur == -1 || (cur & ADDR_NO_RANDOMIZE))
            return;
        if (personality(cur | ADDR_NO_RANDOMIZE) == -1)
            return;
        setenv("C17_NOASLR", "1", 1);
        execv("/proc/self/exe", argv);
    }

    // what the process is doing right now: the crash handlers turn it into the Crash event
    inline json &crashEvent()
    {
        static json ev = json{{"e", "Crash"}, {"routine", "startup"}};
        return ev;
    }
    inline void setContext(long chain, int step, const std::string &routine, const json &params, std::size_t n)
    {
        crashEvent() = json{{"e", "Crash"}, {"chain", chain}, {"step", step}, {"routine", routine}, {"p", params}, {"nBefore", n}};
    }
    inline void setContext(const std::string &what)
    {
        crashEvent() = json{{"e", "Crash"}, {"routine", what}};
    }
    inline void die(const char *what)
    {
        crashEvent()["what"] = what;
        if (vt::Trace::current())
        {
            vt::Trace::current()->emit(crashEvent());
            vt::Trace::current()->flush();
        }
        fprintf(stdout, "CRASH %s\n", crashEvent().dump().c_str());
        fflush(stdout);
        _exit(70);
    }
    inline void onSignalCtx(int sig)
    {
        die(sig == SIGSEGV ? "SIGSEGV" : sig == SIGABRT ? "SIGABRT" : sig == SIGFPE ? "SIGFPE" : sig == SIGBUS ? "SIGBUS" : "signal");
    }
    inline void onTerminateCtx()
    {
        static char buf[300] = "terminate";
        try
        {
            if (auto e = std::current_exception())
                std::rethrow_exception(e);
        }
        catch (const std::exception &ex)
        {
            snprintf(buf, sizeof buf, "uncaught: %s", ex.what());
        }
        catch (...)
        {
        }
        die(buf);
    }
    inline void installContextHandlers()
    {
        std::set_terminate(onTerminateCtx);
        signal(SIGSEGV, onSignalCtx);
        signal(SIGFPE, onSignalCtx);
        signal(SIGABRT, onSignalCtx);
        signal(SIGBUS, onSignalCtx);
    }

    // ------------------------------------------------------------------ worlds
    struct P2
    {
        double x, y;
    };
    inline double dist(const P2 &a, const P2 &b)
    {
        double dx = a.x - b.x, dy = a.y - b.y;
        return std::sqrt(dx * dx + dy * dy);
    }

    // An obstacle layout in the plane.  obstacleDistance is the Euclidean distance to the
    // obstacle set (1-Lipschitz; <= 0 inside), capped at `cap`.
    struct World
    {
        std::string name;
        double lo[2], hi[2];
        double fraction{0.002};  // validity checking resolution handed to the library
        virtual ~World() = default;
        virtual double obstacleDistance(double x, double y) const = 0;
        double clearance(double x, double y) const
        {
            double c = obstacleDistance(x, y);
            c = std::min(c, x - lo[0]);
            c = std::min(c, hi[0] - x);
            c = std::min(c, y - lo[1]);
            c = std::min(c, hi[1] - y);
            return c;
        }
        double extent() const
        {
            double w = hi[0] - lo[0], h = hi[1] - lo[1];
            return std::sqrt(w * w + h * h);
        }
        // r: longest distance between two states the library's motion validator looks at
        double step() const
        {
            return fraction * extent();
        }
        // The validity predicate handed to the library: clearance >= 2 r.  Two consecutive
        // checked states are <= r apart, so a motion the library validated keeps clearance
        // >= r everywhere, also on any sub-segment and when its (unchecked) first state is any
        // point of such a motion; the oracle below therefore never sees a "grazing" artefact.
        double margin() const
        {
            return 2.0 * step();
        }
        bool strictValid(double x, double y) const
        {
            return clearance(x, y) >= margin();
        }
        // linear cost field in [0.05, 2]: steep enough, relative to its own value near the cheap
        // corner, for detours to pay off (cost-aware routines must then refuse straight shortcuts
        // and perturbPath finds improvements)
        double field(double x, double y) const
        {
            double u = 0.5 * ((x - lo[0]) / (hi[0] - lo[0]) + (y - lo[1]) / (hi[1] - lo[1]));
            return 0.05 + 1.95 * u;
        }
    };

    struct CircleWorld : World
    {
        struct C
        {
            double x, y, r;
        };
        std::vector<C> cs;
        explicit CircleWorld(const std::string &file)
        {
            name = "circles";
            std::ifstream in(file);
            if (!in)
            {
                fprintf(stderr, "FRAMEWORK: cannot read %s\n", file.c_str());
                exit(3);
            }
            std::string line;
            std::getline(in, line);
            std::getline(in, line);
            int id;
            C c;
            double minx = 1e9, miny = 1e9, maxx = -1e9, maxy = -1e9;
            while (in >> id >> c.x >> c.y >> c.r)
            {
                cs.push_back(c);
                minx = std::min(minx, c.x - c.r);
                miny = std::min(miny, c.y - c.r);
                maxx = std::max(maxx, c.x + c.r);
                maxy = std::max(maxy, c.y + c.r);
            }
            if (cs.size() < 10)
            {
                fprintf(stderr, "FRAMEWORK: %s holds %zu circles\n", file.c_str(), cs.size());
                exit(3);
            }
            // bounding box of the circles (as the test-suite does) widened by 6 so that the stored
            // paths of circle_paths_to_simplify.txt, which end at x = 67, are inside
            lo[0] = std::floor(minx) - 6;
            lo[1] = std::floor(miny) - 6;
            hi[0] = std::ceil(maxx) + 6;
            hi[1] = std::ceil(maxy) + 6;
            fraction = 0.001;
        }
        double obstacleDistance(double x, double y) const override
        {
            double m = 1e9;
            for (auto &c : cs)
            {
                double dx = c.x - x, dy = c.y - y;
                m = std::min(m, std::sqrt(dx * dx + dy * dy) - c.r);
            }
            return m;
        }
    };

    // occupancy grid with unit cells; cell (i,j) covers [i,i+1] x [j,j+1]
    struct GridWorld : World
    {
        int W{0}, H{0};
        std::vector<std::vector<int>> g;
        // env file of tests/resources, cropped to [0,cw) x [0,ch) (0 = whole file)
        GridWorld(const std::string &file, const std::string &nm, int cw, int ch, double frac)
        {
            name = nm;
            std::ifstream in(file);
            if (!in)
            {
                fprintf(stderr, "FRAMEWORK: cannot read %s\n", file.c_str());
                exit(3);
            }
            std::string tok;
            int fw = 0, fh = 0;
            std::vector<std::vector<int>> full;
            while (in >> tok)
            {
                if (tok == "discretization(cells):")
                {
                    in >> fw >> fh;
                    full.assign(fw, std::vector<int>(fh, 0));
                }
                else if (tok == "start(cells):" || tok == "end(cells):")
                {
                    int a, b;
                    in >> a >> b;
                }
                else if (tok == "environment:")
                    for (int i = 0; i < fw; ++i)
                        for (int j = 0; j < fh; ++j)
                            in >> full[i][j];
            }
            if (fw == 0 || fh == 0)
            {
                fprintf(stderr, "FRAMEWORK: %s holds no grid\n", file.c_str());
                exit(3);
            }
            W = cw ? std::min(cw, fw) : fw;
            H = ch ? std::min(ch, fh) : fh;
            g.assign(W, std::vector<int>(H, 0));
            for (int i = 0; i < W; ++i)
                for (int j = 0; j < H; ++j)
                    g[i][j] = full[i][j];
            lo[0] = lo[1] = 0;
            hi[0] = W;
            hi[1] = H;
            fraction = frac;
        }
        double obstacleDistance(double x, double y) const override
        {
            const double cap = 1.5;
            double m = cap;
            int ci = (int)std::floor(x), cj = (int)std::floor(y);
            for (int i = ci - 2; i <= ci + 2; ++i)
                for (int j = cj - 2; j <= cj + 2; ++j)
                {
                    if (i < 0 || j < 0 || i >= W || j >= H || !g[i][j])
                        continue;
                    double dx = std::max(std::max((double)i - x, 0.0), x - (i + 1.0));
                    double dy = std::max(std::max((double)j - y, 0.0), y - (j + 1.0));
                    double d = std::sqrt(dx * dx + dy * dy);
                    if (d == 0.0)  // inside the cell: minus the distance to its border
                        d = -std::min(std::min(x - i, i + 1.0 - x), std::min(y - j, j + 1.0 - y));
                    m = std::min(m, d);
                }
            return m;
        }
    };

    struct OpenWorld : World
    {
        OpenWorld()
        {
            name = "open";
            lo[0] = lo[1] = 0;
            hi[0] = 40;
            hi[1] = 30;
            fraction = 0.005;
        }
        double obstacleDistance(double, double) const override
        {
            return 1e9;
        }
    };

    // ------------------------------------------------------------------ library-side objects
    inline P2 xy(const ob::State *s)
    {
        const double *v = s->as<ob::RealVectorStateSpace::StateType>()->values;
        return P2{v[0], v[1]};
    }
    inline void setXY(ob::State *s, const P2 &p)
    {
        double *v = s->as<ob::RealVectorStateSpace::StateType>()->values;
        v[0] = p.x;
        v[1] = p.y;
    }

    // a user-supplied objective: integral of the linear field along the motion; the trapezoid
    // rule is exact for a linear field, so the cost is additive when a segment is split
    class FieldObjective : public ob::OptimizationObjective
    {
    public:
        FieldObjective(const ob::SpaceInformationPtr &si, const World *w) : ob::OptimizationObjective(si), w_(w)
        {
            description_ = "Linear field integral";
        }
        ob::Cost stateCost(const ob::State *s) const override
        {
            P2 p = xy(s);
            return ob::Cost(w_->field(p.x, p.y));
        }
        ob::Cost motionCost(const ob::State *a, const ob::State *b) const override
        {
            P2 p = xy(a), q = xy(b);
            return ob::Cost(0.5 * (w_->field(p.x, p.y) + w_->field(q.x, q.y)) * si_->distance(a, b));
        }

    private:
        const World *w_;
    };

    // R^2 that declares itself non-metric: PathSimplifier::simplify then skips the routines it
    // reserves for metric spaces (same geometry, other branch of the combined routine)
    class DeclaredNonMetricR2 : public ob::RealVectorStateSpace
    {
    public:
        DeclaredNonMetricR2() : ob::RealVectorStateSpace(2)
        {
            setName("DeclaredNonMetricR2");
        }
        bool isMetricSpace() const override
        {
            return false;
        }
    };

    inline ob::SpaceInformationPtr makeSI(const World &w, bool metric)
    {
        std::shared_ptr<ob::RealVectorStateSpace> space;
        if (metric)
            space = std::make_shared<ob::RealVectorStateSpace>(2);
        else
            space = std::make_shared<DeclaredNonMetricR2>();
        ob::RealVectorBounds b(2);
        b.setLow(0, w.lo[0]);
        b.setLow(1, w.lo[1]);
        b.setHigh(0, w.hi[0]);
        b.setHigh(1, w.hi[1]);
        space->setBounds(b);
        auto si = std::make_shared<ob::SpaceInformation>(space);
        const World *wp = &w;
        si->setStateValidityChecker([wp](const ob::State *s) {
            P2 p = xy(s);
            return wp->strictValid(p.x, p.y);
        });
        si->setStateValidityCheckingResolution(w.fraction);
        si->setup();
        double r = space->getLongestValidSegmentLength();
        if (std::fabs(r - w.step()) > 1e-9 * w.step())
        {
            fprintf(stderr, "FRAMEWORK: library resolution %.17g differs from the oracle's %.17g\n", r, w.step());
            exit(4);
        }
        return si;
    }

    // ------------------------------------------------------------------ the oracle
    using Pts = std::vector<P2>;
    inline Pts points(const og::PathGeometric &p)
    {
        Pts v;
        for (std::size_t i = 0; i < p.getStateCount(); ++i)
            v.push_back(xy(p.getState(i)));
        return v;
    }
    inline bool same(const P2 &a, const P2 &b)
    {
        return a.x == b.x && a.y == b.y;
    }
    inline bool samePts(const Pts &a, const Pts &b)
    {
        if (a.size() != b.size())
            return false;
        for (std::size_t i = 0; i < a.size(); ++i)
            if (!same(a[i], b[i]))
                return false;
        return true;
    }
    inline double oracleLength(const Pts &v)
    {
        double L = 0;
        for (std::size_t i = 1; i < v.size(); ++i)
            L += dist(v[i - 1], v[i]);
        return L;
    }
    inline double oracleFieldCost(const World &w, const Pts &v)
    {
        double c = 0;
        for (std::size_t i = 1; i < v.size(); ++i)
            c += 0.5 * (w.field(v[i - 1].x, v[i - 1].y) + w.field(v[i].x, v[i].y)) * dist(v[i - 1], v[i]);
        return c;
    }
    // "valid input" in the library's own sense, re-implemented: first state valid and, on every
    // segment, every resolution step (j/nd, nd = ceil(d / r)) up to and including the end state
    inline bool oracleStrictValid(const World &w, const Pts &v)
    {
        if (v.empty())
            return false;
        if (!w.strictValid(v[0].x, v[0].y))
            return false;
        const double r = w.step();
        for (std::size_t i = 1; i < v.size(); ++i)
        {
            const P2 &a = v[i - 1], &b = v[i];
            int nd = (int)std::ceil(dist(a, b) / r);
            if (!w.strictValid(b.x, b.y))
                return false;
            for (int j = 1; j < nd; ++j)
            {
                double t = (double)j / (double)nd;
                if (!w.strictValid(a.x + (b.x - a.x) * t, a.y + (b.y - a.y) * t))
                    return false;
            }
        }
        return true;
    }
    // smallest clearance over the path sampled at a tenth of the resolution
    inline double oracleMinClearance(const World &w, const Pts &v)
    {
        double m = 1e9;
        const double gap = w.step() / 10.0;
        for (std::size_t i = 0; i < v.size(); ++i)
        {
            if (!(std::isfinite(v[i].x) && std::isfinite(v[i].y)))
                return -1e9;
            m = std::min(m, w.clearance(v[i].x, v[i].y));
            if (i + 1 < v.size())
            {
                const P2 &a = v[i], &b = v[i + 1];
                double d = dist(a, b);
                if (!std::isfinite(d))
                    return -1e9;
                long n = (long)std::ceil(d / gap);
                for (long j = 1; j < n; ++j)
                {
                    double t = (double)j / (double)n;
                    m = std::min(m, w.clearance(a.x + (b.x - a.x) * t, a.y + (b.y - a.y) * t));
                }
            }
        }
        return m;
    }
    // the oracle's verdict on a path: nowhere closer to an obstacle than half a resolution
    // step (a path made of validated motions stays a full step away, see World::margin)
    inline bool oracleDenseValid(const World &w, const Pts &v)
    {
        return !v.empty() && oracleMinClearance(w, v) >= 0.5 * w.step();
    }

    inline long long micro(double v)
    {
        if (!std::isfinite(v))
        {
            fprintf(stderr, "FRAMEWORK: non-finite quantity in a report\n");
            _exit(4);
        }
        return vt::tlcInt(std::llround(v * 1e6));
    }
    inline std::string hexd(double v)
    {
        char b[64];
        snprintf(b, sizeof b, "%a", v);
        return b;
    }
}  // namespace c17
