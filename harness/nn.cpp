// C10 harness: binds specs/ds/NearestNeighbors.tla (contract state graph with answer tables,
// spec -> impl, mechanism M3') and specs/ds/NearestNeighborsTrace.tla (recorded random histories,
// impl -> spec) to the four nearest-neighbour structures of ompl.
//
//   nn replay <graph> <depth> <structure|all> <params|all> <walks> <walklen> <alphabet> <reuse> [i/n]
//        every path of length <= depth through the contract graph (0 = none) plus <walks> random
//        walks of <walklen> steps, on each selected structure x tree parameterisation.
//        alphabet: full | noabsent (RemoveAbsent edges only in the random walks and the battery)
//        reuse: 0 = every added element gets a new identity, 1 = an Add re-uses the identity of the
//               element most recently removed at that point (re-insertion of a removed element)
//        i/n: shard i of n of the exhaustive walk (histories dealt out by their first two steps)
//   nn scenario <graph> <scenario.json>      re-run one reported scenario, observing every step
//   nn record <out> <structure> <params> <nexec> <nops>   random histories with observations
//   nn audit <out> <structure> <params> <nexec> <nops>    random histories, internal structure dumped
//        after every mutation for specs/ds/GnatAudit.tla (needs -DNN_PROBE)
//   nn kcenters <cases.ndjson>               replay of specs/ds/GreedyKCenters.tla on GreedyKCenters
//
// Element type: {pt, uid}; the distance function sees pt only (L1 on the code x + 1024*y),
// operator== sees uid only - so "the same element twice" and "a removed element returned" are
// observable and duplicates / ties are first-class.
//
// Verdicts use contract observations only: size, list, nearest, nearestK, nearestR, result of
// remove.  With -DNN_PROBE a subclass reads the protected members of the GNATs (no hooks in the
// library) to *count* internal transitions (splits, rebuilds by cause, cached removals) for the
// vacuity gate and to recognise the stale-removal-cache condition so that its consequences get
// their own stable key; nothing read through the probe ever decides pass/fail.
#include "vtrace.h"
#include "ompl/datastructures/NearestNeighborsGNAT.h"
#include "ompl/datastructures/NearestNeighborsGNATNoThreadSafety.h"
#include "ompl/datastructures/NearestNeighborsLinear.h"
#include "ompl/datastructures/NearestNeighborsSqrtApprox.h"
#include "ompl/util/RandomNumbers.h"
#include <algorithm>
#include <cmath>
#include <memory>
#include <set>

using vt::json;

struct El
{
    int pt;
    int uid;
};
inline bool operator==(const El &a, const El &b)
{
    return a.uid == b.uid;
}
inline bool operator!=(const El &a, const El &b)
{
    return a.uid != b.uid;
}
static inline int l1(int a, int b)
{
    return std::abs(a % 1024 - b % 1024) + std::abs(a / 1024 - b / 1024);
}
static double distFun(const El &a, const El &b)
{
    return (double)l1(a.pt, b.pt);
}
using NN = ompl::NearestNeighbors<El>;

// ------------------------------------------------------------------ parameter matrix (DESIGN C10)
struct Params
{
    const char *name;
    bool isDefault;
    unsigned degree, minDegree, maxDegree, leaf, cache;
    bool rebal;
};
static const Params PARAMS[] = {
    {"default", true, 8, 4, 12, 50, 500, false},  {"2-2-2-1-1-off", false, 2, 2, 2, 1, 1, false},
    {"2-2-4-2-2-on", false, 2, 2, 4, 2, 2, true}, {"4-2-6-2-3-off", false, 4, 2, 6, 2, 3, false},
    {"3-2-5-1-500-off", false, 3, 2, 5, 1, 500, false}, {"6-4-8-2-4-on", false, 6, 4, 8, 2, 4, true},
    {"2-2-2-3-2-off", false, 2, 2, 2, 3, 2, false}};
static const int NPARAMS = sizeof(PARAMS) / sizeof(PARAMS[0]);
static const Params NOPARAMS = {"-", true, 0, 0, 0, 0, 0, false};
static const char *STRUCTS[] = {"gnat", "gnat-nts", "linear", "sqrt"};

// ------------------------------------------------------------------ probe (read-only, optional)
struct Shape
{
    int nodes{0}, internal{0}, depth{0}, degenerate{0};
    std::size_t cache{0};
};
struct ProbeIface
{
    long internalClears{0};
    bool harnessClear{false};
    bool staleSeen{false};  // sticky: the removal cache held an address that is no element of the tree
    virtual ~ProbeIface() = default;
    virtual Shape shape() const = 0;
    virtual bool staleCache() const = 0;
    virtual json dump() const = 0;  // the internal structure as one audit record (specs/ds/GnatAudit.tla)
};
// distances are integers here; the tables start at +-infinity
static long long encDist(double v)
{
    if (std::isinf(v))
        return v > 0 ? 1000000 : -1000000;
    long long r = std::llround(v);
    if (std::fabs(v - (double)r) > 1e-9)
    {
        fprintf(stderr, "FRAMEWORK: non-integer distance %g in a GNAT table\n", v);
        _exit(4);
    }
    return vt::tlcInt(r);
}
#ifdef NN_PROBE
template <class Base>
struct Probed : Base, ProbeIface
{
    using Node = typename Base::Node;
    Probed() : Base()
    {
    }
    explicit Probed(const Params &p) : Base(p.degree, p.minDegree, p.maxDegree, p.leaf, p.cache, p.rebal)
    {
    }
    // rebuildDataStructure() goes through the virtual clear(): count the calls the harness did not
    // make.  A stale cache entry lives until the next clear(), and a freed block may be handed out
    // again later, so the condition is looked for right where it can arise (after every single
    // add, and before the cache is dropped) and remembered.
    void clear() override
    {
        if (!harnessClear)
            ++internalClears;
        if (!staleSeen && staleCache())
            staleSeen = true;
        Base::clear();
    }
    using Base::add;
    void add(const El &data) override
    {
        Base::add(data);
        if (!staleSeen && staleCache())
            staleSeen = true;
    }
    void visit(const Node *n, int depth, Shape &s, std::vector<const El *> *addr) const
    {
        ++s.nodes;
        s.depth = std::max(s.depth, depth);
        if (addr)
        {
            addr->push_back(&n->pivot_);
            for (const auto &d : n->data_)
                addr->push_back(&d);
        }
        if (!n->children_.empty())
        {
            ++s.internal;
            if (n->children_.size() < this->minDegree_)
                ++s.degenerate;
        }
        for (const Node *c : n->children_)
            visit(c, depth + 1, s, addr);
    }
    Shape shape() const override
    {
        Shape s;
        if (this->tree_)
            visit(this->tree_, 1, s, nullptr);
        s.cache = this->removed_.size();
        return s;
    }
    bool staleCache() const override
    {
        if (this->removed_.empty())
            return false;
        Shape s;
        std::vector<const El *> addr;
        if (this->tree_)
            visit(this->tree_, 1, s, &addr);
        std::sort(addr.begin(), addr.end());
        for (const El *r : this->removed_)
            if (!std::binary_search(addr.begin(), addr.end(), r))
                return true;
        return false;
    }
    // Dumb projection of the tree for the M4 audit: nodes in pre-order (id = position, 1-based),
    // every table as it stands, and the removal cache as locators (node id, slot; slot 0 = the
    // pivot, node 0 = the cached address is not an element of the tree).  TLC does the judging.
    void dumpNode(const Node *n, int parent, int slot, std::size_t nsiblings, json &nodes,
                  std::map<const El *, std::pair<int, int>> &where) const
    {
        int id = (int)nodes.size() + 1;
        json jn{{"id", id}, {"parent", parent}, {"slot", slot}, {"pivot", json{{"pt", n->pivot_.pt}, {"uid", n->pivot_.uid}}},
                {"minR", encDist(n->minRadius_)}, {"maxR", encDist(n->maxRadius_)}};
        json mn = json::array(), mx = json::array(), data = json::array();
        for (std::size_t i = 0; i < nsiblings && i < n->minRange_.size(); ++i)
        {
            mn.push_back(encDist(n->minRange_[i]));
            mx.push_back(encDist(n->maxRange_[i]));
        }
        where[&n->pivot_] = {id, 0};
        for (std::size_t i = 0; i < n->data_.size(); ++i)
        {
            data.push_back(json{{"pt", n->data_[i].pt}, {"uid", n->data_[i].uid}});
            where[&n->data_[i]] = {id, (int)i + 1};
        }
        jn["minRange"] = mn;
        jn["maxRange"] = mx;
        jn["data"] = data;
        jn["children"] = json::array();
        nodes.push_back(jn);
        for (std::size_t c = 0; c < n->children_.size(); ++c)
        {
            int cid = (int)nodes.size() + 1;
            nodes[id - 1]["children"].push_back(cid);
            dumpNode(n->children_[c], id, (int)c + 1, n->children_.size(), nodes, where);
        }
    }
    json dump() const override
    {
        json nodes = json::array(), removed = json::array();
        std::map<const El *, std::pair<int, int>> where;
        if (this->tree_)
            dumpNode(this->tree_, 0, 0, 0, nodes, where);
        std::vector<std::pair<int, int>> loc;
        for (const El *r : this->removed_)
        {
            auto it = where.find(r);
            loc.push_back(it == where.end() ? std::make_pair(0, 0) : it->second);
        }
        std::sort(loc.begin(), loc.end());
        for (auto &l : loc)
            removed.push_back(json{{"node", l.first}, {"slot", l.second}});
        return json{{"e", "Audit"}, {"size", (int)this->size_}, {"nodes", nodes}, {"removed", removed}};
    }
};
#endif

static bool haveProbe()
{
#ifdef NN_PROBE
    return true;
#else
    return false;
#endif
}

struct Made
{
    std::unique_ptr<NN> nn;
    ProbeIface *probe{nullptr};
};
static Made makeStructure(const std::string &s, const Params &p)
{
    Made m;
    if (s == "gnat")
    {
#ifdef NN_PROBE
        auto *x = p.isDefault ? new Probed<ompl::NearestNeighborsGNAT<El>>() : new Probed<ompl::NearestNeighborsGNAT<El>>(p);
        m.probe = x;
        m.nn.reset(x);
#else
        m.nn.reset(p.isDefault ? new ompl::NearestNeighborsGNAT<El>() :
                                 new ompl::NearestNeighborsGNAT<El>(p.degree, p.minDegree, p.maxDegree, p.leaf, p.cache, p.rebal));
#endif
    }
    else if (s == "gnat-nts")
    {
#ifdef NN_PROBE
        auto *x = p.isDefault ? new Probed<ompl::NearestNeighborsGNATNoThreadSafety<El>>() :
                                new Probed<ompl::NearestNeighborsGNATNoThreadSafety<El>>(p);
        m.probe = x;
        m.nn.reset(x);
#else
        m.nn.reset(p.isDefault ? new ompl::NearestNeighborsGNATNoThreadSafety<El>() :
                                 new ompl::NearestNeighborsGNATNoThreadSafety<El>(p.degree, p.minDegree, p.maxDegree, p.leaf,
                                                                                  p.cache, p.rebal));
#endif
    }
    else if (s == "linear")
        m.nn.reset(new ompl::NearestNeighborsLinear<El>());
    else if (s == "sqrt")
        m.nn.reset(new ompl::NearestNeighborsSqrtApprox<El>());
    else
    {
        fprintf(stderr, "unknown structure %s\n", s.c_str());
        exit(2);
    }
    m.nn->setDistanceFunction(distFun);
    return m;
}
static bool isGnat(const std::string &s)
{
    return s == "gnat" || s == "gnat-nts";
}
// the relation under which a leaf can outgrow its reserved capacity while the cache is in use
static bool cacheRelation(const std::string &s, const Params &p)
{
    return isGnat(s) && p.degree > p.leaf && p.cache >= 2;
}

// ------------------------------------------------------------------ expectations per model state
struct RExp
{
    int r;
    std::vector<int> ids, ds;
};
struct QExp
{
    int pt;
    std::vector<int> near;
    std::vector<std::vector<int>> k;
    std::vector<RExp> r;
};
struct StateExp
{
    bool have{false};
    int n{0};
    bool throws{true};
    std::vector<int> list, nearApprox;
    std::vector<QExp> q;
};
static std::vector<int> sortedInts(const json &j)
{
    auto v = j.get<std::vector<int>>();
    std::sort(v.begin(), v.end());
    return v;
}
static StateExp parseExp(const json &e)
{
    StateExp s;
    s.have = true;
    s.n = e["n"];
    s.throws = e["throws"];
    s.list = sortedInts(e["list"]);
    s.nearApprox = sortedInts(e["nearApprox"]);
    for (auto &jq : e["q"])
    {
        QExp q;
        q.pt = jq["pt"];
        q.near = sortedInts(jq["near"]);
        for (auto &jk : jq["k"])
            q.k.push_back(jk.get<std::vector<int>>());
        for (auto &jr : jq["r"])
            q.r.push_back(RExp{jr["r"].get<int>(), sortedInts(jr["ids"]), jr["ds"].get<std::vector<int>>()});
        s.q.push_back(std::move(q));
    }
    return s;
}

struct Counters
{
    long splits{0}, rebuildPivot{0}, rebuildCacheFull{0}, rebuildSplitWithCache{0}, rebuildRebalance{0};
    long cachedRemovals{0}, degenerateSeen{0}, staleEvents{0}, internalSeen{0};
    int maxDepth{0}, maxNodes{0};
    long queries{0};
    json toJson() const
    {
        return json{{"splits", splits},
                    {"rebuild_pivot", rebuildPivot},
                    {"rebuild_cache_full", rebuildCacheFull},
                    {"rebuild_split_with_cache", rebuildSplitWithCache},
                    {"rebuild_rebalance", rebuildRebalance},
                    {"cached_removals", cachedRemovals},
                    {"degenerate_pivot_sets", degenerateSeen},
                    {"stale_cache_events", staleEvents},
                    {"steps_with_internal_nodes", internalSeen},
                    {"max_depth", maxDepth},
                    {"max_nodes", maxNodes},
                    {"queries", queries}};
    }
};

struct FailRec
{
    long count{0};
    json first;
};
struct Ctx
{
    const vt::Graph *g{nullptr};
    std::vector<StateExp> exp;
    std::vector<int> universe;  // point codes that occur in Add / AddMany edges
    std::string structure;
    const Params *params{&NOPARAMS};
    bool approx{false};
    bool reuse{false};
    bool verbose{false};
    Counters cnt;
    std::map<std::string, FailRec> fails;  // key -> failures (whole run, all combos)
};

// track the effect of one mutating call on the internals (probe builds only)
struct ProbeStep
{
    ProbeIface *p;
    Counters &c;
    const Params &prm;
    Shape before;
    long clearsBefore{0};
    ProbeStep(ProbeIface *p, Counters &c, const Params &prm) : p(p), c(c), prm(prm)
    {
        if (p)
        {
            before = p->shape();
            clearsBefore = p->internalClears;
        }
    }
    // returns true if the removal cache holds an address that no longer is an element of the tree
    bool after(bool wasRemove, bool removeResult)
    {
        if (!p)
            return false;
        Shape s = p->shape();
        bool rebuilt = p->internalClears > clearsBefore;
        if (rebuilt)
        {
            if (wasRemove)
                (before.cache + 1 >= prm.cache ? c.rebuildCacheFull : c.rebuildPivot)++;
            else
                (before.cache > 0 ? c.rebuildSplitWithCache : c.rebuildRebalance)++;
        }
        else
        {
            if (s.internal > before.internal)
                ++c.splits;
            if (wasRemove && removeResult && s.cache > before.cache)
                ++c.cachedRemovals;
        }
        if (s.internal > 0)
            ++c.internalSeen;
        if (s.degenerate > 0)
            ++c.degenerateSeen;
        c.maxDepth = std::max(c.maxDepth, s.depth);
        c.maxNodes = std::max(c.maxNodes, s.nodes);
        if (p->staleSeen || p->staleCache())
        {
            if (!p->staleSeen)
                p->staleSeen = true;
            ++c.staleEvents;
            return true;
        }
        return false;
    }
};

// ------------------------------------------------------------------ replay driver
struct Driver
{
    Ctx *ctx;
    Made m;
    std::map<int, std::vector<int>> byPt;  // pt -> live uids, oldest first (= canonical copy index)
    std::map<int, int> live;               // uid -> pt
    std::map<int, int> lastRemoved;        // pt -> uid most recently removed there (not live)
    std::set<int> everRemoved;
    int nextUid{1};
    std::vector<const vt::Edge *> trail;
    std::string err, kind;
    bool tainted{false}, ghost{false};

    explicit Driver(Ctx *c) : ctx(c), m(makeStructure(c->structure, *c->params))
    {
    }
    Driver(const Driver &) = delete;
    ~Driver()
    {
        if (!ctx || err.empty())
            return;
        bool known = tainted || (!m.probe && ghost && cacheRelation(ctx->structure, *ctx->params));
        std::string key = (known ? std::string("gnat-removed-cache") : kind) + ":" + ctx->structure + ":" + ctx->params->name;
        FailRec &f = ctx->fails[key];
        if (f.count++ == 0 || trail.size() < f.first["scenario"].size())
        {
            json sc = json::array();
            for (auto *e : trail)
                sc.push_back(json{{"a", e->a}, {"args", e->args}});
            f.first = json{{"key", key},           {"why", err},          {"structure", ctx->structure},
                           {"params", ctx->params->name}, {"reuse", ctx->reuse}, {"scenario", sc}};
        }
    }

    bool fail(const std::string &k, const std::string &w, bool ghostSymptom = false)
    {
        if (err.empty())
        {
            kind = k;
            err = w;
            ghost = ghostSymptom;
        }
        return false;
    }
    static std::string show(const El &e)
    {
        return "(pt " + std::to_string(e.pt) + ", uid " + std::to_string(e.uid) + ")";
    }
    static std::string show(const std::vector<int> &v)
    {
        std::string s = "[";
        for (std::size_t i = 0; i < v.size(); ++i)
            s += (i ? " " : "") + std::to_string(v[i]);
        return s + "]";
    }

    int pickUid(int pt)
    {
        if (ctx->reuse)
        {
            auto it = lastRemoved.find(pt);
            if (it != lastRemoved.end())
            {
                int u = it->second;
                lastRemoved.erase(it);
                return u;
            }
        }
        return nextUid++;
    }
    // identity for "remove something that is not there": the element most recently removed at
    // this point if there is one (double removal), otherwise an identity never used
    El absentAt(int pt)
    {
        auto it = lastRemoved.find(pt);
        if (it != lastRemoved.end())
            return El{pt, it->second};
        return El{pt, 1000000 + nextUid++};
    }
    void forget(int pt, int uid)
    {
        live.erase(uid);
        lastRemoved[pt] = uid;
        everRemoved.insert(uid);
    }

    // every returned element must be a current member; returns its canonical uid or -1
    int canon(const El &x, const char *what, const std::string &k)
    {
        auto it = live.find(x.uid);
        if (it == live.end() || it->second != x.pt)
        {
            fail(k, std::string(what) + " returned " + show(x) + " which is not a current member" +
                        (everRemoved.count(x.uid) ? " (it was removed earlier)" : ""),
                 true);
            return -1;
        }
        const auto &v = byPt[x.pt];
        for (std::size_t i = 0; i < v.size(); ++i)
            if (v[i] == x.uid)
                return x.pt * 8 + (int)i + 1;
        fail(k, "internal: harness tables disagree");
        return -1;
    }
    // canonical ids (sorted) of an answer; rejects non-members and repeated elements
    bool canonAll(const std::vector<El> &res, const char *what, const std::string &k, std::vector<int> &ids)
    {
        ids.clear();
        for (auto &x : res)
        {
            int c = canon(x, what, k);
            if (c < 0)
                return false;
            ids.push_back(c);
        }
        std::sort(ids.begin(), ids.end());
        if (std::adjacent_find(ids.begin(), ids.end()) != ids.end())
            return fail(k, std::string(what) + " returned the same element twice", true);
        return true;
    }
    static std::vector<int> dists(const std::vector<El> &res, int q)
    {
        std::vector<int> d;
        for (auto &x : res)
            d.push_back(l1(x.pt, q));
        return d;
    }

    bool checkSizeAndList(const StateExp &x, const char *when)
    {
        NN &nn = *m.nn;
        std::vector<El> res;
        std::vector<int> ids;
        std::size_t sz = nn.size();
        nn.list(res);
        ++ctx->cnt.queries;
        if ((int)sz != x.n)
            return fail("size", std::string(when) + "size() = " + std::to_string(sz) + " but the structure should hold " +
                                    std::to_string(x.n) + " elements (list() returns " + std::to_string(res.size()) + ")",
                        true);
        if (!canonAll(res, "list()", "list", ids))
            return false;
        if (ids != x.list)
            return fail("list", std::string(when) + "list() = " + show(ids) + " is not the bag " + show(x.list) + " (canonical uids)", true);
        return true;
    }

    // the full query battery against the expectation table of the model state
    bool observe(const StateExp &x)
    {
        NN &nn = *m.nn;
        std::vector<El> res;
        std::vector<int> ids;
        if (!checkSizeAndList(x, ""))
            return false;
        auto nearestCheck = [&](const El &key, const QExp &qe) -> bool {
            ++ctx->cnt.queries;
            bool threw = false;
            El got{0, 0};
            try
            {
                got = nn.nearest(key);
            }
            catch (const ompl::Exception &)
            {
                threw = true;
            }
            if (threw != x.throws)
                return fail("nearest", threw ? "nearest() threw on a non-empty structure" : "nearest() returned something on an empty structure");
            if (threw)
                return true;
            int c = canon(got, "nearest()", "nearest");
            if (c < 0)
                return false;
            const auto &adm = ctx->approx ? x.nearApprox : qe.near;
            if (!std::binary_search(adm.begin(), adm.end(), c))
                return fail("nearest", "nearest(" + std::to_string(key.pt) + ") returned " + show(got) + " at distance " +
                                           std::to_string(l1(got.pt, key.pt)) + ", not an admissible answer " + show(adm));
            return true;
        };
        auto kCheck = [&](const El &key, const QExp &qe, std::size_t k) -> bool {
            ++ctx->cnt.queries;
            nn.nearestK(key, k, res);
            if (!canonAll(res, "nearestK()", "nearestK", ids))
                return false;
            auto d = dists(res, key.pt);
            if (d != qe.k.at(k))
                return fail("nearestK", "nearestK(" + std::to_string(key.pt) + ", " + std::to_string(k) + ") distances " + show(d) +
                                            " but brute force gives " + show(qe.k.at(k)));
            return true;
        };
        for (const QExp &qe : x.q)
        {
            El key{qe.pt, -1};
            if (!nearestCheck(key, qe))
                return false;
            for (std::size_t k = 0; k < qe.k.size(); ++k)
                if (!kCheck(key, qe, k))
                    return false;
            for (const RExp &re : qe.r)
            {
                ++ctx->cnt.queries;
                nn.nearestR(key, (double)re.r, res);
                if (!canonAll(res, "nearestR()", "nearestR", ids))
                    return false;
                auto d = dists(res, qe.pt);
                if (ids != re.ids || d != re.ds)
                    return fail("nearestR", "nearestR(" + std::to_string(qe.pt) + ", " + std::to_string(re.r) + ") = " + show(ids) +
                                                " distances " + show(d) + " but exactly " + show(re.ids) + " distances " + show(re.ds) +
                                                " lie within the radius");
            }
        }
        // queries keyed by a live element itself (the tie rule that lets remove() find its target)
        for (auto &lv : live)
        {
            const QExp *qe = nullptr;
            for (const QExp &c : x.q)
                if (c.pt == lv.second)
                    qe = &c;
            if (!qe)
                continue;
            El key{lv.second, lv.first};
            if (!nearestCheck(key, *qe))
                return false;
            for (std::size_t k = 1; k <= 2 && k < qe->k.size(); ++k)
                if (!kCheck(key, *qe, k))
                    return false;
        }
        // removing what is not there: reports false and changes nothing
        for (int pt : ctx->universe)
        {
            El a = absentAt(pt);
            ++ctx->cnt.queries;
            if (nn.remove(a))
                return fail("remove-absent", "remove" + show(a) + " returned true although the element is not in the structure", true);
        }
        return checkSizeAndList(x, "after removing absent elements: ");
    }

    bool step(const vt::Edge &e, bool obs)
    {
        trail.push_back(&e);
        NN &nn = *m.nn;
        const json &a = e.args;
        try
        {
            ProbeStep ps(m.probe, ctx->cnt, *ctx->params);
            bool wasRemove = false, removeResult = false;
            if (e.a == "Add")
            {
                int pt = a["pt"];
                int uid = pickUid(pt);
                nn.add(El{pt, uid});
                byPt[pt].push_back(uid);
                live[uid] = pt;
            }
            else if (e.a == "AddMany")
            {
                std::vector<El> v;
                for (int pt : a["pts"].get<std::vector<int>>())
                {
                    int uid = pickUid(pt);
                    v.push_back(El{pt, uid});
                    byPt[pt].push_back(uid);
                    live[uid] = pt;
                }
                nn.add(v);
            }
            else if (e.a == "Remove")
            {
                int pt = a["pt"];
                std::size_t idx = a["idx"].get<std::size_t>();
                auto &v = byPt[pt];
                if (idx < 1 || idx > v.size())
                    return fail("internal", "internal: model removes a copy the harness does not have");
                int uid = v[idx - 1];
                wasRemove = true;
                removeResult = nn.remove(El{pt, uid});
                v.erase(v.begin() + (idx - 1));
                forget(pt, uid);
                if (removeResult != a["res"].get<bool>())
                    return fail("remove", "remove(pt " + std::to_string(pt) + ", uid " + std::to_string(uid) +
                                              ") returned false for an element that is in the structure", true);
            }
            else if (e.a == "RemoveAbsent")
            {
                El x = absentAt(a["pt"]);
                wasRemove = true;
                removeResult = nn.remove(x);
                if (removeResult != a["res"].get<bool>())
                    return fail("remove-absent", "remove" + show(x) + " returned true although the element is not in the structure", true);
            }
            else if (e.a == "Clear")
            {
                if (m.probe)
                    m.probe->harnessClear = true;
                nn.clear();
                if (m.probe)
                    m.probe->harnessClear = false;
                for (auto &kv : byPt)
                    for (int uid : kv.second)
                        forget(kv.first, uid);
                byPt.clear();
            }
            else
                return fail("internal", "unknown action " + e.a);
            if (ps.after(wasRemove, removeResult))
                tainted = true;
            if (obs)
            {
                const StateExp &x = ctx->exp.at(e.d);
                if (!x.have)
                    return fail("internal", "internal: no expectation table for model state");
                if (!observe(x))
                    return false;
            }
        }
        catch (const std::exception &ex)
        {
            return fail("exception", std::string("unexpected exception: ") + ex.what());
        }
        return true;
    }
    bool finish()
    {
        return true;
    }
};

static void loadCtx(Ctx &ctx, const vt::Graph &g)
{
    ctx.g = &g;
    ctx.exp.assign(g.nStates, StateExp());
    std::set<int> uni;
    for (auto &e : g.edges)
    {
        if (!ctx.exp[e.d].have && e.exp.is_object() && e.exp.contains("n"))
            ctx.exp[e.d] = parseExp(e.exp);
        if (e.a == "Add")
            uni.insert(e.args["pt"].get<int>());
    }
    ctx.universe.assign(uni.begin(), uni.end());
    for (int s = 0; s < g.nStates; ++s)
        if (!ctx.exp[s].have)
        {
            fprintf(stderr, "FRAMEWORK: state %d of the graph has no expectation table\n", s);
            exit(4);
        }
}

// vt::walkAllPaths spread over several processes: the histories are dealt out by their first two
// steps (the j-th two-step prefix goes to shard j mod n; the one-step histories go to shard 0)
template <class D, class Make, class Pred>
static void walkAllPathsShard(const vt::Graph &g, vt::Report &rep, Make make, int depth, Pred use, int shard, int nshards)
{
    if (nshards <= 1)
    {
        vt::walkAllPaths<D>(g, rep, make, depth, use);
        return;
    }
    std::vector<int> path;
    long j = 0;
    std::function<void(int)> rec = [&](int s) {
        if ((int)path.size() == depth)
            return;
        for (int e : g.out[s])
        {
            if (!use(g.edges[e]))
                continue;
            if (path.size() == 1 && (j++ % nshards) != shard)
                continue;
            path.push_back(e);
            if (path.size() > 1 || shard == 0)
                vt::runScenario<D>(g, path, path.size() - 1, rep, make);
            rec(g.edges[e].d);
            path.pop_back();
        }
    };
    rec(0);
}

static int replayMain(int argc, char **argv)
{
    if (argc < 10)
    {
        fprintf(stderr, "usage: nn replay <graph> <depth> <structure|all> <params|all> <walks> <walklen> <full|noabsent> <reuse>\n");
        return 2;
    }
    vt::Graph g(argv[2]);
    int depth = atoi(argv[3]);
    std::string sSel = argv[4], pSel = argv[5];
    long walks = atol(argv[6]);
    int walkLen = atoi(argv[7]);
    bool full = std::string(argv[8]) == "full";
    bool reuse = atoi(argv[9]) != 0;
    int shard = 0, nshards = 1;
    if (argc > 10)
        sscanf(argv[10], "%d/%d", &shard, &nshards);
    Ctx ctx;
    loadCtx(ctx, g);
    ctx.reuse = reuse;
    vt::Report rep;
    json combos = json::array();
    for (const char *s : STRUCTS)
    {
        if (sSel != "all" && sSel != s)
            continue;
        for (int pi = 0; pi < (isGnat(s) ? NPARAMS : 1); ++pi)
        {
            const Params &p = isGnat(s) ? PARAMS[pi] : NOPARAMS;
            if (isGnat(s) && pSel != "all" && pSel != p.name)
                continue;
            ctx.structure = s;
            ctx.params = &p;
            ctx.approx = std::string(s) == "sqrt";
            ctx.cnt = Counters();
            long sc0 = rep.scenarios, st0 = rep.steps, f0 = rep.failures;
            auto make = [&]() { return Driver(&ctx); };
            if (depth > 0)
                walkAllPathsShard<Driver>(g, rep, make, depth,
                                          [&](const vt::Edge &e) { return full || e.a != "RemoveAbsent"; }, shard, nshards);
            long exhaustive = rep.scenarios - sc0;
            if (walks > 0)
            {
                // half of the random walks re-insert removed identities, half never do
                ctx.reuse = reuse;
                vt::walkRandom<Driver>(g, rep, make, walks - walks / 2, walkLen, vt::envSeed() * 7919 + pi);
                ctx.reuse = !reuse;
                vt::walkRandom<Driver>(g, rep, make, walks / 2, walkLen, vt::envSeed() * 104729 + pi);
                ctx.reuse = reuse;
            }
            json c{{"structure", s},
                   {"params", p.name},
                   {"scenarios", rep.scenarios - sc0},
                   {"exhaustive_paths", exhaustive},
                   {"steps", rep.steps - st0},
                   {"failures", rep.failures - f0},
                   {"probe", ctx.cnt.toJson()}};
            std::cout << "COMBO " << c.dump() << std::endl;
        }
    }
    for (auto &kv : ctx.fails)
    {
        json f = kv.second.first;
        f["count"] = kv.second.count;
        std::cout << "FAILKEY " << f.dump() << std::endl;
    }
    rep.summary(json{{"edges", g.edges.size()}, {"states", g.nStates}, {"probe", haveProbe()}});
    return rep.failures ? 1 : 0;
}

// re-run one scenario (as written by the check) following the graph's edges, observing every step
static int scenarioMain(int argc, char **argv)
{
    if (argc < 4)
        return 2;
    vt::Graph g(argv[2]);
    std::ifstream in(argv[3]);
    json sc = json::parse(in);
    Ctx ctx;
    loadCtx(ctx, g);
    ctx.structure = sc["structure"];
    ctx.reuse = sc.value("reuse", false);
    ctx.approx = ctx.structure == "sqrt";
    ctx.params = &NOPARAMS;
    for (int i = 0; i < NPARAMS; ++i)
        if (sc["params"] == PARAMS[i].name)
            ctx.params = &PARAMS[i];
    int s = 0;
    bool ok = true;
    {
        Driver d(&ctx);
        for (auto &op : sc["scenario"])
        {
            int found = -1;
            for (int ei : g.out[s])
                if (g.edges[ei].a == op["a"] && g.edges[ei].args == op["args"])
                    found = ei;
            if (found < 0)
            {
                std::cout << "step " << op.dump() << " is not an edge of the graph from state " << s << std::endl;
                return 2;
            }
            ok = d.step(g.edges[found], true);
            std::cout << (ok ? "ok   " : "FAIL ") << op.dump() << " -> size " << d.m.nn->size() << (d.tainted ? "  [removal cache holds a stale address]" : "")
                      << std::endl;
            if (!ok)
            {
                std::cout << "  " << d.err << std::endl;
                break;
            }
            s = g.edges[found].d;
        }
    }
    for (auto &kv : ctx.fails)
        std::cout << "FAILKEY " << kv.second.first.dump() << std::endl;
    return ok ? 0 : 1;
}

// ------------------------------------------------------------------ recorded random histories
static json jel(const El &e)
{
    return json{{"pt", e.pt}, {"uid", e.uid}};
}
static json jels(const std::vector<El> &v)
{
    json a = json::array();
    for (auto &e : v)
        a.push_back(jel(e));
    return a;
}

static int recordMain(int argc, char **argv)
{
    if (argc < 7)
    {
        fprintf(stderr, "usage: nn record <out> <structure> <params> <nexec> <nops>\n");
        return 2;
    }
    std::string structure = argv[3], pname = argv[4];
    int nexec = atoi(argv[5]);
    long nops = atol(argv[6]);
    const Params *prm = &NOPARAMS;
    for (int i = 0; i < NPARAMS; ++i)
        if (isGnat(structure) && pname == PARAMS[i].name)
            prm = &PARAMS[i];
    vt::Trace tr(argv[2]);
    vt::Rng rng(vt::envSeed() * 1000003ULL + 17);
    Counters cnt;
    json taints = json::array();
    static const std::vector<std::vector<int>> universes = {
        {0, 1, 2, 100, 101, 102},                                 // tight clusters far apart
        {0, 1, 2, 1024, 1025, 1026, 2048, 2049, 2050},            // 3x3 lattice, L1 ties
        {0, 1, 2, 3, 4, 5, 6, 7, 8, 9, 10, 11, 12, 13, 14, 15},   // a line
        {5, 6}};                                                  // almost only duplicates
    static const int radii[] = {0, 1, 2, 3, 100, 1000};
    for (int x = 0; x < nexec; ++x)
    {
        const auto &uni = universes[x % universes.size()];
        // enough live elements for the tree to split: the default leaf holds 50
        int target = prm->isDefault && isGnat(structure) ? 75 : (x % 3 == 0 ? 8 : x % 3 == 1 ? 20 : 40);
        Made m = makeStructure(structure, *prm);
        NN &nn = *m.nn;
        std::vector<El> liveEls, removedEls;
        int nextUid = 1;
        bool tainted = false;
        tr.emit(json{{"e", "Reset"}, {"approx", structure == "sqrt"}, {"s", structure}, {"p", prm->name}, {"x", x}});
        auto pt = [&]() { return uni[rng.below((int)uni.size())]; };
        auto emit = [&](json ev) {
            ev["n"] = (int)nn.size();
            tr.emit(ev);
        };
        for (long i = 0; i < nops; ++i)
        {
            int phase = (int)(3 * i / nops);  // grow, churn, shrink
            int r = rng.below(100);
            int live = (int)liveEls.size();
            int addW = phase == 0 ? 34 : phase == 1 ? (live < target ? 26 : 14) : 8;
            int remW = phase == 0 ? 8 : phase == 1 ? (live < target ? 14 : 26) : 30;
            ProbeStep ps(m.probe, cnt, *prm);
            bool mutated = false, wasRemove = false, removeResult = false;
            if (r < addW)
            {
                if (live >= 2 * target)
                    continue;
                if (rng.below(6) == 0)
                {
                    std::vector<El> v;
                    int cntEls = 2 + rng.below(live == 0 ? 12 : 5);
                    for (int j = 0; j < cntEls; ++j)
                        v.push_back(El{pt(), nextUid++});
                    nn.add(v);
                    liveEls.insert(liveEls.end(), v.begin(), v.end());
                    emit(json{{"e", "AddMany"}, {"els", jels(v)}});
                }
                else
                {
                    El e{pt(), nextUid++};
                    // sometimes re-insert an element that was removed before (same identity)
                    if (!removedEls.empty() && rng.below(5) == 0)
                    {
                        int j = rng.below((int)removedEls.size());
                        e = removedEls[j];
                        removedEls.erase(removedEls.begin() + j);
                        --nextUid;
                    }
                    nn.add(e);
                    liveEls.push_back(e);
                    emit(json{{"e", "Add"}, {"el", jel(e)}});
                }
                mutated = true;
            }
            else if (r < addW + remW)
            {
                wasRemove = mutated = true;
                if (live > 0 && rng.below(6) != 0)
                {
                    int j = rng.below(live);
                    El e = liveEls[j];
                    removeResult = nn.remove(e);
                    liveEls.erase(liveEls.begin() + j);
                    removedEls.push_back(e);
                    if (removedEls.size() > 64)
                        removedEls.erase(removedEls.begin());
                    emit(json{{"e", "Remove"}, {"el", jel(e)}, {"res", removeResult}});
                }
                else
                {
                    // not there: removed earlier, or an identity never inserted
                    El e = !removedEls.empty() && rng.below(2) ? removedEls[rng.below((int)removedEls.size())] : El{pt(), 1000000 + nextUid++};
                    removeResult = nn.remove(e);
                    emit(json{{"e", "Remove"}, {"el", jel(e)}, {"res", removeResult}});
                }
            }
            else if (r < addW + remW + 1 && rng.below(4) == 0)
            {
                if (m.probe)
                    m.probe->harnessClear = true;
                nn.clear();
                if (m.probe)
                    m.probe->harnessClear = false;
                for (auto &e : liveEls)
                    removedEls.push_back(e);
                if (removedEls.size() > 64)
                    removedEls.erase(removedEls.begin(), removedEls.end() - 64);
                liveEls.clear();
                emit(json{{"e", "Clear"}});
                ps.before = Shape();
                mutated = true;
            }
            else
            {
                // a query; keyed by a position or by a live element itself
                El key{pt(), -1};
                if (rng.below(8) == 0)
                    key.pt += 3 + 1024 * rng.below(2);  // somewhere outside the universe
                if (live > 0 && rng.below(3) == 0)
                    key = liveEls[rng.below(live)];
                int kind = rng.below(10);
                std::vector<El> res;
                ++cnt.queries;
                if (kind < 3)
                {
                    bool threw = false;
                    El got{0, 0};
                    try
                    {
                        got = nn.nearest(key);
                    }
                    catch (const ompl::Exception &)
                    {
                        threw = true;
                    }
                    emit(json{{"e", "Nearest"}, {"q", key.pt}, {"threw", threw}, {"el", jel(got)}});
                }
                else if (kind < 6)
                {
                    static const int ks[] = {0, 1, 2, 3, 5};
                    int k = rng.below(3) == 0 ? live + rng.below(3) - 1 : ks[rng.below(5)];
                    if (k < 0)
                        k = 0;
                    nn.nearestK(key, (std::size_t)k, res);
                    emit(json{{"e", "NearestK"}, {"q", key.pt}, {"k", k}, {"res", jels(res)}});
                }
                else if (kind < 9)
                {
                    int rad = radii[rng.below(6)];
                    nn.nearestR(key, (double)rad, res);
                    emit(json{{"e", "NearestR"}, {"q", key.pt}, {"r", rad}, {"res", jels(res)}});
                }
                else
                {
                    nn.list(res);
                    emit(json{{"e", "List"}, {"res", jels(res)}});
                }
            }
            if (mutated && ps.after(wasRemove, removeResult) && !tainted)
            {
                tainted = true;
                taints.push_back(json{{"x", x}, {"line", tr.count()}});
            }
        }
        // closing observation of every execution
        std::vector<El> res;
        nn.list(res);
        emit(json{{"e", "List"}, {"res", jels(res)}});
    }
    std::cout << "RECORDED " << json{{"events", tr.count()}, {"structure", structure}, {"params", prm->name},
                                     {"tainted", taints}, {"probe", cnt.toJson()}, {"have_probe", haveProbe()}}
                                    .dump()
              << std::endl;
    return 0;
}

// ------------------------------------------------------------------ M4 audit: dumped internals
// nn audit <out> <structure> <params> <nexec> <nops>: random mutation histories; after every
// mutating call the whole internal structure is written as one record for specs/ds/GnatAudit.tla.
static int auditMain(int argc, char **argv)
{
    if (argc < 7)
    {
        fprintf(stderr, "usage: nn audit <out> <structure> <params> <nexec> <nops>\n");
        return 2;
    }
    std::string structure = argv[3], pname = argv[4];
    int nexec = atoi(argv[5]);
    long nops = atol(argv[6]);
    const Params *prm = &NOPARAMS;
    for (int i = 0; i < NPARAMS; ++i)
        if (isGnat(structure) && pname == PARAMS[i].name)
            prm = &PARAMS[i];
    if (!haveProbe() || !isGnat(structure))
    {
        std::cout << "AUDIT-UNAVAILABLE" << std::endl;
        return 0;
    }
    vt::Trace tr(argv[2]);
    vt::Rng rng(vt::envSeed() * 7368787ULL + 29);
    static const std::vector<std::vector<int>> universes = {
        {0, 1, 2, 100, 101, 102}, {0, 1, 2, 1024, 1025, 1026, 2048, 2049, 2050},
        {0, 1, 2, 3, 4, 5, 6, 7, 8, 9, 10, 11, 12, 13, 14, 15}, {5, 6, 40}};
    long records = 0, withChildren = 0, withCache = 0, maxNodes = 0, maxDepth = 0, maxLive = 0;
    Counters cnt;
    for (int x = 0; x < nexec; ++x)
    {
        const auto &uni = universes[x % universes.size()];
        int target = prm->isDefault ? 80 : (x % 3 == 0 ? 10 : x % 3 == 1 ? 24 : 45);
        Made m = makeStructure(structure, *prm);
        NN &nn = *m.nn;
        std::vector<El> liveEls, removedEls;
        int nextUid = 1;
        tr.emit(json{{"e", "Reset"}, {"s", structure}, {"p", prm->name}, {"x", x}});
        auto pt = [&]() { return uni[rng.below((int)uni.size())]; };
        bool visible = false, visibleSparse = false;  // sticky per execution
        for (long i = 0; i < nops; ++i)
        {
            int live = (int)liveEls.size();
            int r = rng.below(100);
            int addW = live < target ? 58 : 38;
            ProbeStep ps(m.probe, cnt, *prm);
            bool wasRemove = false, removeResult = false;
            if (r < addW)
            {
                if (rng.below(7) == 0)
                {
                    std::vector<El> v;
                    int n = 2 + rng.below(live == 0 ? 14 : 5);
                    if (prm->isDefault && live == 0)
                        n = 55 + rng.below(30);  // past the default leaf size at once: add(vector) splits
                    for (int j = 0; j < n; ++j)
                        v.push_back(El{pt(), nextUid++});
                    nn.add(v);
                    liveEls.insert(liveEls.end(), v.begin(), v.end());
                }
                else
                {
                    El e{pt(), nextUid++};
                    if (!removedEls.empty() && rng.below(5) == 0)
                    {
                        int j = rng.below((int)removedEls.size());
                        e = removedEls[j];
                        removedEls.erase(removedEls.begin() + j);
                    }
                    nn.add(e);
                    liveEls.push_back(e);
                }
            }
            else if (r < 97 || live == 0)
            {
                wasRemove = true;
                if (live > 0 && rng.below(8) != 0)
                {
                    int j = rng.below(live);
                    El e = liveEls[j];
                    removeResult = nn.remove(e);
                    liveEls.erase(liveEls.begin() + j);
                    removedEls.push_back(e);
                    if (removedEls.size() > 64)
                        removedEls.erase(removedEls.begin());
                }
                else
                {
                    El e = !removedEls.empty() && rng.below(2) ? removedEls[rng.below((int)removedEls.size())] : El{pt(), 1000000 + nextUid++};
                    removeResult = nn.remove(e);
                }
            }
            else if (rng.below(3) == 0)
            {
                m.probe->harnessClear = true;
                nn.clear();
                m.probe->harnessClear = false;
                liveEls.clear();
            }
            else
                continue;
            ps.after(wasRemove, removeResult);
            json rec = m.probe->dump();
            rec["live"] = (int)liveEls.size();  // what the harness believes (not used by the audit invariants)
            // Informational only (no verdict reads it): is some answer of a small query battery already wrong
            // in this state?  Lets the check say how long before a visible error the audit fired.
            if (!visible)
            {
                std::vector<El> res;
                for (int q : uni)
                {
                    std::vector<int> bf;
                    for (auto &e : liveEls)
                        bf.push_back(l1(e.pt, q));
                    std::sort(bf.begin(), bf.end());
                    for (std::size_t k : {(std::size_t)1, (std::size_t)2, (std::size_t)4, liveEls.size()})
                    {
                        nn.nearestK(El{q, -1}, k, res);
                        std::vector<int> d;
                        for (auto &e : res)
                            d.push_back(l1(e.pt, q));
                        if (d != std::vector<int>(bf.begin(), bf.begin() + std::min(k, bf.size())))
                            visible = true;
                    }
                    for (int rad : {0, 1, 2, 100})
                    {
                        nn.nearestR(El{q, -1}, (double)rad, res);
                        std::vector<int> d;
                        for (auto &e : res)
                            d.push_back(l1(e.pt, q));
                        if (d != std::vector<int>(bf.begin(), std::upper_bound(bf.begin(), bf.end(), rad)))
                            visible = true;
                    }
                }
                if (nn.size() != liveEls.size())
                    visible = true;
            }
            rec["vis"] = visible;
            // ... and would a client that issues ONE random query per operation have seen a wrong answer yet?
            if (!visibleSparse && !liveEls.empty())
            {
                int q = pt() + (rng.below(8) == 0 ? 3 : 0);
                std::vector<int> bf, d;
                for (auto &e : liveEls)
                    bf.push_back(l1(e.pt, q));
                std::sort(bf.begin(), bf.end());
                std::vector<El> res;
                if (rng.below(2))
                {
                    static const std::size_t ks[] = {1, 2, 3, 5};
                    std::size_t k = ks[rng.below(4)];
                    nn.nearestK(El{q, -1}, k, res);
                    bf.resize(std::min(k, bf.size()));
                }
                else
                {
                    static const int rads[] = {0, 1, 2, 3, 100};
                    int rad = rads[rng.below(5)];
                    nn.nearestR(El{q, -1}, (double)rad, res);
                    bf.erase(std::upper_bound(bf.begin(), bf.end(), rad), bf.end());
                }
                for (auto &e : res)
                    d.push_back(l1(e.pt, q));
                if (d != bf)
                    visibleSparse = true;
            }
            rec["visSparse"] = visibleSparse;
            tr.emit(rec);
            ++records;
            Shape sh = m.probe->shape();
            withChildren += sh.internal > 0;
            withCache += sh.cache > 0;
            maxNodes = std::max<long>(maxNodes, sh.nodes);
            maxDepth = std::max<long>(maxDepth, sh.depth);
            maxLive = std::max<long>(maxLive, (long)liveEls.size());
        }
    }
    std::cout << "AUDITED " << json{{"records", records}, {"structure", structure}, {"params", prm->name},
                                    {"with_children", withChildren}, {"with_cache", withCache}, {"max_nodes", maxNodes},
                                    {"max_depth", maxDepth}, {"max_live", maxLive}, {"probe", cnt.toJson()}}
                                   .dump()
              << std::endl;
    return 0;
}

// ------------------------------------------------------------------ GreedyKCenters replay
// nn kcenters <cases.ndjson>: every line is a terminal state of specs/ds/GreedyKCenters.tla, i.e. one
// admissible answer {data, k, centers (1-based), dists} for the case (data, k).  The real
// GreedyKCenters is run on every case - the data vector in the spec's order, reversed and in a
// seeded shuffle - again and again until the random first centre has taken every value, and each
// answer must be one of the admissible ones of the specification, with exactly its distance matrix.
static int kcentersMain(int argc, char **argv)
{
    if (argc < 3)
        return 2;
    struct Case
    {
        std::vector<int> data;
        unsigned k;
        std::map<std::vector<int>, std::vector<std::vector<int>>> adm;  // centres (0-based) -> matrix [j][i]
        std::set<std::vector<int>> hit;
    };
    std::map<std::pair<std::vector<int>, unsigned>, Case> cases;
    for (auto &j : vt::readNdjson(argv[2]))
    {
        auto data = j["data"].get<std::vector<int>>();
        unsigned k = j["k"].get<unsigned>();
        Case &c = cases[{data, k}];
        c.data = data;
        c.k = k;
        auto cs = j["centers"].get<std::vector<int>>();
        for (auto &x : cs)
            --x;
        c.adm[cs] = j["dists"].get<std::vector<std::vector<int>>>();
    }
    vt::Rng rng(vt::envSeed() * 15485863ULL + 5);
    long calls = 0, failures = 0, earlyStops = 0, tieCases = 0, firstsNeeded = 0, firstsSeen = 0, admTotal = 0, admHit = 0,
         reusedMatrix = 0;
    json firstFail;
    ompl::GreedyKCenters<El> kc;  // one selector for everything, as a GNAT keeps one for its life
    kc.setDistanceFunction(distFun);
    ompl::GreedyKCenters<El>::Matrix shared;  // a matrix that is re-used across calls of different sizes
    auto fail = [&](const Case &c, const std::string &kind, const std::string &why, const std::vector<int> &order,
                    const std::vector<unsigned> &got) {
        if (failures++ == 0)
            firstFail = json{{"kind", kind}, {"why", why}, {"data", c.data}, {"k", c.k}, {"order", order}, {"centers", got}};
    };
    for (auto &kv : cases)
    {
        Case &c = kv.second;
        const int n = (int)c.data.size();
        admTotal += (long)c.adm.size();
        std::set<int> firsts;
        for (auto &a : c.adm)
            firsts.insert(a.first[0]);
        if ((int)firsts.size() != n)
        {
            fprintf(stderr, "FRAMEWORK: the specification does not offer every first centre for a case\n");
            return 4;
        }
        if (c.adm.size() > firsts.size())
            ++tieCases;
        for (int variant = 0; variant < 3; ++variant)
        {
            std::vector<int> order(n);  // position in the vector handed to the code -> index in the spec's data
            for (int i = 0; i < n; ++i)
                order[i] = variant == 1 ? n - 1 - i : i;
            if (variant == 2)
                for (int i = n - 1; i > 0; --i)
                    std::swap(order[i], order[rng.below(i + 1)]);
            std::vector<El> data;
            for (int i = 0; i < n; ++i)
                data.push_back(El{c.data[order[i]], i + 1});
            std::set<int> seen;
            firstsNeeded += n;
            for (int attempt = 0; attempt < 80 * n && (int)seen.size() < n; ++attempt)
            {
                std::vector<unsigned> centers;
                ompl::GreedyKCenters<El>::Matrix fresh;
                bool reuse = (attempt + variant) % 2 == 1;
                ompl::GreedyKCenters<El>::Matrix &dists = reuse ? shared : fresh;
                reusedMatrix += reuse;
                kc.kcenters(data, c.k, centers, dists);
                ++calls;
                std::vector<int> mapped;
                bool inRange = !centers.empty();
                for (unsigned ci : centers)
                {
                    if ((int)ci >= n)
                        inRange = false;
                    else
                        mapped.push_back(order[ci]);
                }
                if (!inRange)
                {
                    fail(c, "not-admissible", "a centre index is out of range (or no centre at all)", order, centers);
                    break;
                }
                seen.insert(mapped[0]);
                auto it = c.adm.find(mapped);
                if (it == c.adm.end())
                {
                    fail(c, "not-admissible", "the centre sequence is not one the specification admits", order, centers);
                    break;
                }
                c.hit.insert(mapped);
                if (centers.size() < c.k)
                    ++earlyStops;
                if ((std::size_t)dists.rows() < (std::size_t)n || (std::size_t)dists.cols() < centers.size())
                {
                    fail(c, "matrix", "the distance matrix is smaller than data x centres", order, centers);
                    break;
                }
                bool ok = true;
                for (int jj = 0; jj < n && ok; ++jj)
                    for (std::size_t i = 0; i < centers.size() && ok; ++i)
                        if (dists(jj, i) != (double)it->second[order[jj]][i])
                        {
                            fail(c, "matrix", "dists(" + std::to_string(jj) + "," + std::to_string(i) + ") = " +
                                                  std::to_string(dists(jj, i)) + " but the distance to that centre is " +
                                                  std::to_string(it->second[order[jj]][i]),
                                 order, centers);
                            ok = false;
                        }
                if (!ok)
                    break;
            }
            firstsSeen += (long)seen.size();
        }
        admHit += (long)c.hit.size();
    }
    if (failures)
        std::cout << "KCFAIL " << firstFail.dump() << std::endl;
    std::cout << "KCSUMMARY " << json{{"cases", cases.size()}, {"calls", calls}, {"failures", failures},
                                      {"early_stops", earlyStops}, {"cases_with_ties", tieCases},
                                      {"first_centres_needed", firstsNeeded}, {"first_centres_seen", firstsSeen},
                                      {"admissible_answers", admTotal}, {"admissible_answers_hit", admHit},
                                      {"calls_reusing_matrix", reusedMatrix}}
                                     .dump()
              << std::endl;
    return failures ? 1 : 0;
}

int main(int argc, char **argv)
{
    vt::installCrashHandlers();
    // GreedyKCenters draws the first pivot of every split from ompl::RNG
    ompl::RNG::setSeed(vt::envSeed() + 1000);
    std::string mode = argc > 1 ? argv[1] : "";
    if (mode == "replay")
        return replayMain(argc, argv);
    if (mode == "scenario")
        return scenarioMain(argc, argv);
    if (mode == "record")
        return recordMain(argc, argv);
    if (mode == "audit")
        return auditMain(argc, argv);
    if (mode == "kcenters")
        return kcentersMain(argc, argv);
    fprintf(stderr, "usage: nn replay|scenario|record|audit|kcenters ...\n");
    return 2;
}
