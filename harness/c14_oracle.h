// C14 - independent long-double oracle for Dubins words and the harness's own re-computation of
// the quantities the library's decision structure looks at (d, alpha, beta, quadrants, switching
// functions, the running-minimum comparisons).  Nothing here is taken from DubinsStateSpace.cpp:
// the six words are constructed geometrically from the turning-circle centres (tangent lines of
// two circles, third circle tangent to both), and every constructed word is verified by
// integrating the unicycle forward from the start pose; a word whose integration does not land
// on the target is dropped (and counted), so a slip in this file cannot masquerade as an optimum.
#pragma once
#include <algorithm>
#include <cmath>
#include <cstdint>
#include <cstdio>
#include <string>
#include <vector>

namespace c14
{
    using LD = long double;
    static const LD PI = 3.14159265358979323846264338327950288L;
    static const LD TWOPI = 2 * PI;
    static const LD HALFPI = PI / 2;
    static const LD INF = 1e300L;

    static const char *const DWORD_NAME[6] = {"LSL", "RSR", "RSL", "LSR", "RLR", "LRL"};  // library order
    static const char DWORD_SEG[6][4] = {"LSL", "RSR", "RSL", "LSR", "RLR", "LRL"};

    // angle in [0, 2pi); values within `snap` below 2pi are the angle 0 computed with noise
    inline LD m2(LD x, LD snap = 1e-13L)
    {
        LD r = x - TWOPI * floorl(x / TWOPI);
        if (r < 0)
            r = 0;
        if (TWOPI - r < snap)
            r = 0;
        return r;
    }
    inline LD wrapPi(LD x)  // (-pi, pi]
    {
        LD r = m2(x + PI, 0) - PI;
        if (r <= -PI)
            r += TWOPI;
        return r;
    }

    // exact unicycle primitives with unit turning radius: type 'L' | 'S' | 'R', signed length v
    inline void advance(LD &x, LD &y, LD &th, char type, LD v)
    {
        switch (type)
        {
            case 'L':
                x += sinl(th + v) - sinl(th);
                y += -cosl(th + v) + cosl(th);
                th += v;
                break;
            case 'R':
                x += -sinl(th - v) + sinl(th);
                y += cosl(th - v) - cosl(th);
                th -= v;
                break;
            default:
                x += v * cosl(th);
                y += v * sinl(th);
        }
    }

    struct Word
    {
        bool ok{false};
        LD t{0}, p{0}, q{0};
        LD len() const
        {
            return ok ? t + p + q : INF;
        }
    };

    struct Six
    {
        Word w[6];
        int best{-1};
        LD opt{INF};
        int dropped{0};  // constructed words whose forward integration missed the target
    };

    // canonical frame: start (0,0,alpha), target (d,0,beta), unit radius
    inline bool lands(const char *seg, LD t, LD p, LD q, LD d, LD alpha, LD beta)
    {
        LD x = 0, y = 0, th = alpha;
        advance(x, y, th, seg[0], t);
        advance(x, y, th, seg[1], p);
        advance(x, y, th, seg[2], q);
        LD e = hypotl(x - d, y) + fabsl(wrapPi(th - beta));
        return e < 1e-9L * (1 + d);
    }

    inline Six sixWords(LD d, LD alpha, LD beta)
    {
        Six s;
        // circle centres: left of a pose (x,y,th) is (x - sin th, y + cos th), right is (x + sin th, y - cos th)
        const LD l1x = -sinl(alpha), l1y = cosl(alpha), r1x = sinl(alpha), r1y = -cosl(alpha);
        const LD l2x = d - sinl(beta), l2y = cosl(beta), r2x = d + sinl(beta), r2y = -cosl(beta);
        auto put = [&](int i, LD t, LD p, LD q)
        {
            if (lands(DWORD_SEG[i], t, p, q, d, alpha, beta))
            {
                if (!s.w[i].ok || t + p + q < s.w[i].len())
                {
                    s.w[i].ok = true;
                    s.w[i].t = t;
                    s.w[i].p = p;
                    s.w[i].q = q;
                }
            }
            else
                ++s.dropped;
        };
        {  // LSL: outer tangent of the two left circles; heading on the tangent = direction c1 -> c2
            LD vx = l2x - l1x, vy = l2y - l1y, p = hypotl(vx, vy), dir = p > 0 ? atan2l(vy, vx) : alpha;
            put(0, m2(dir - alpha), p, m2(beta - dir));
        }
        {  // RSR
            LD vx = r2x - r1x, vy = r2y - r1y, p = hypotl(vx, vy), dir = p > 0 ? atan2l(vy, vx) : alpha;
            put(1, m2(alpha - dir), p, m2(dir - beta));
        }
        // both circles coincide (up to rounding): one arc.  The direction of the centre line is then noise, the word
        // is the arc alone (every candidate is verified by integration, so offering it is always safe)
        put(0, m2(beta - alpha), 0, 0);
        put(1, m2(alpha - beta), 0, 0);
        {  // RSL: inner tangent from the right circle of the start to the left circle of the target
            LD vx = l2x - r1x, vy = l2y - r1y, D2 = vx * vx + vy * vy;
            if (D2 >= 4 - 1e-12L)
            {
                LD p = sqrtl(std::max<LD>(0, D2 - 4)), dir = atan2l(vy, vx) - atan2l(2, p);
                put(2, m2(alpha - dir), p, m2(beta - dir));
            }
        }
        {  // LSR
            LD vx = r2x - l1x, vy = r2y - l1y, D2 = vx * vx + vy * vy;
            if (D2 >= 4 - 1e-12L)
            {
                LD p = sqrtl(std::max<LD>(0, D2 - 4)), dir = atan2l(vy, vx) + atan2l(2, p);
                put(3, m2(dir - alpha), p, m2(dir - beta));
            }
        }
        {  // RLR: a left circle tangent to both right circles (two placements)
            LD vx = r2x - r1x, vy = r2y - r1y, D = hypotl(vx, vy);
            if (D < 4 && D > 0)
            {
                LD phi = atan2l(vy, vx), a = acosl(D / 4);
                for (int sgn = -1; sgn <= 1; sgn += 2)
                {
                    LD psi = phi + sgn * a;  // direction c1 -> c3
                    LD c3x = r1x + 2 * cosl(psi), c3y = r1y + 2 * sinl(psi);
                    LD th1 = psi - HALFPI;                                // heading at the first junction
                    LD th2 = atan2l(r2y - c3y, r2x - c3x) + HALFPI;  // heading at the second junction
                    put(4, m2(alpha - th1), m2(th2 - th1), m2(th2 - beta));
                }
            }
        }
        {  // LRL
            LD vx = l2x - l1x, vy = l2y - l1y, D = hypotl(vx, vy);
            if (D < 4 && D > 0)
            {
                LD phi = atan2l(vy, vx), a = acosl(D / 4);
                for (int sgn = -1; sgn <= 1; sgn += 2)
                {
                    LD psi = phi + sgn * a;
                    LD c3x = l1x + 2 * cosl(psi), c3y = l1y + 2 * sinl(psi);
                    LD th1 = psi + HALFPI;
                    LD th2 = atan2l(l2y - c3y, l2x - c3x) - HALFPI;
                    put(5, m2(th1 - alpha), m2(th1 - th2), m2(beta - th2));
                }
            }
        }
        for (int i = 0; i < 6; ++i)
            if (s.w[i].len() < s.opt)
            {
                s.opt = s.w[i].len();
                s.best = i;
            }
        return s;
    }

    // ------------------------------------------------------------------------------------------
    // The harness's own evaluation of the decision structure transcribed in specs/spaces/
    // DubinsClass.tla: which abstract branch case a concrete (d, alpha, beta) lands in, and by how
    // much (margin = smallest distance of any consulted quantity from its threshold).
    struct Branch
    {
        std::vector<std::string> trail;  // tokens, identical to the model's trail
        std::string id;                  // tokens joined by '/'
        LD margin{INF};                  // interior iff margin > chosen threshold
        int qa{0}, qb{0};                // quadrant position index (0..7) of alpha, beta
        int word{-1};                    // word the transcribed table predicts with the harness's arithmetic
        bool defined{true};
        std::string kind{"triv"};        // "triv" | "long" | "short"
        std::string cls{"-"};            // class a_ij of a long path
        std::vector<bool> outs;          // outcomes consumed inside the class tree / the exhaustive fold
    };

    // 0:"0" 1:(0,h) 2:"h" 3:(h,pi) 4:"pi" 5:(pi,3h) 6:"3h" 7:(3h,2pi); exact comparisons in double,
    // like the library (boundaries belong to the lower quadrant)
    inline int qpos(double a, LD &margin)
    {
        const double h = (double)HALFPI, p = (double)PI, h3 = 3 * h, tp = 2. * p;
        const double bnd[5] = {0., h, p, h3, tp};
        for (double b : bnd)
            margin = std::min(margin, (LD)fabs(a - b));
        if (a == 0.)
            return 0;
        if (a < h)
            return 1;
        if (a == h)
            return 2;
        if (a < p)
            return 3;
        if (a == p)
            return 4;
        if (a < h3)
            return 5;
        if (a == h3)
            return 6;
        return 7;
    }
    inline int rowOf(int pos)
    {
        static const int r[8] = {1, 1, 1, 2, 2, 3, 3, 4};
        return r[pos];
    }

    struct Quant  // everything the switching functions are made of, from the oracle's words
    {
        Six six;
        // `seam`: how far the arc angles the function reads are from the 0 / 2pi seam of mod2pi, where the
        // function jumps (the library snaps angles within 5e-7 of the seam)
        LD s(const std::string &name, bool &ok, LD *seam = nullptr) const
        {
            const Word &lsl = six.w[0], &rsr = six.w[1], &rsl = six.w[2], &lsr = six.w[3];
            auto need = [&](const Word &a)
            {
                ok = ok && a.ok;
                if (seam)
                    *seam = std::min({*seam, a.t, TWOPI - a.t, a.q, TWOPI - a.q});
            };
            if (name == "s12" || name == "s22_2")
            {
                need(rsr), need(rsl);
                return rsr.p - rsl.p - 2 * (rsl.q - PI);
            }
            if (name == "s13" || name == "s14_1")
            {
                need(rsr);
                return rsr.t - PI;
            }
            if (name == "s21" || name == "s22_1")
            {
                need(lsl), need(rsl);
                return lsl.p - rsl.p - 2 * (rsl.t - PI);
            }
            if (name == "s24")
            {
                need(rsr);
                return rsr.q - PI;
            }
            if (name == "s31" || name == "s41_2")
            {
                need(lsl);
                return lsl.q - PI;
            }
            if (name == "s33_1" || name == "s34")
            {
                need(rsr), need(lsr);
                return rsr.p - lsr.p - 2 * (lsr.t - PI);
            }
            if (name == "s33_2" || name == "s43")
            {
                need(lsl), need(lsr);
                return lsl.p - lsr.p - 2 * (lsr.q - PI);
            }
            if (name == "s41_1" || name == "s42")
            {
                need(lsl);
                return lsl.t - PI;
            }
            ok = false;
            return 0;
        }
    };

}  // namespace c14
