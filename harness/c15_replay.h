// C15 harness, part 2 (included by informed.cpp): scripted replay of InformedLoops rows on the real samplers
// and recording of attempt sequences for InformedLoopsTrace.  Everything scripted here is user code of the
// library: the state space (bounds test, measure, default sampler) and the start / goal geometry.
#pragma once

// Counting / scripted R^n: logs a token per virtual call the samplers make on the space
//   D getDimension   C copyToReals   S a draw of the default sampler   T / F a scripted bounds answer
struct ScriptSpace : ob::RealVectorStateSpace
{
    explicit ScriptSpace(unsigned n) : ob::RealVectorStateSpace(n)
    {
    }
    mutable std::string tokens;
    mutable std::deque<int> boundsAns;
    mutable std::vector<Vec> asked;
    mutable std::vector<int> given;
    mutable long drift{0};
    bool scriptedBounds{false};
    bool logging{false};
    double measure{-1};
    mutable std::deque<Vec> serve;
    mutable std::vector<Vec> served;
    Vec fallback;

    unsigned int getDimension() const override
    {
        if (logging)
            tokens += 'D';
        return ob::RealVectorStateSpace::getDimension();
    }
    void copyToReals(std::vector<double> &reals, const ob::State *source) const override
    {
        if (logging)
            tokens += 'C';
        ob::RealVectorStateSpace::copyToReals(reals, source);
    }
    double getMeasure() const override
    {
        return measure >= 0 ? measure : ob::RealVectorStateSpace::getMeasure();
    }
    bool satisfiesBounds(const ob::State *s) const override
    {
        if (!scriptedBounds || !logging)
            return ob::RealVectorStateSpace::satisfiesBounds(s);
        const double *v = s->as<ob::RealVectorStateSpace::StateType>()->values;
        asked.emplace_back(v, v + ob::RealVectorStateSpace::getDimension());
        int a = 0;
        if (boundsAns.empty())
            ++drift;
        else
        {
            a = boundsAns.front();
            boundsAns.pop_front();
        }
        given.push_back(a);
        tokens += a ? 'T' : 'F';
        return a == 1;
    }
    struct Serve : ob::StateSampler
    {
        const ScriptSpace *sp;
        ob::StateSamplerPtr real;
        explicit Serve(const ScriptSpace *s) : ob::StateSampler(s), sp(s)
        {
        }
        void sampleUniform(ob::State *st) override
        {
            Vec p = sp->fallback;
            if (sp->serve.empty())
                ++sp->drift;
            else
            {
                p = sp->serve.front();
                sp->serve.pop_front();
            }
            sp->served.push_back(p);
            if (sp->logging)
                sp->tokens += 'S';
            for (size_t i = 0; i < p.size(); ++i)
                st->as<ob::RealVectorStateSpace::StateType>()->values[i] = p[i];
        }
        void sampleUniformNear(ob::State *st, const ob::State *, double) override
        {
            sampleUniform(st);
        }
        void sampleGaussian(ob::State *st, const ob::State *, double) override
        {
            sampleUniform(st);
        }
    };
    ob::StateSamplerPtr allocDefaultStateSampler() const override
    {
        return std::make_shared<Serve>(this);
    }
};

// The geometry every loop row is replayed in: one start at the origin, K0 goals; goal i is 2 away when PHS i
// can still improve on the bound (about 4) and 6 away when it cannot.
struct LoopWorld
{
    World w;
    std::shared_ptr<ScriptSpace> sp;
    ob::InformedSamplerPtr smp;
    std::vector<int> can;
    double maxC{4}, minC{3};
    Vec tie;
    std::map<std::pair<int, int>, std::vector<Vec>> reps;   // (k, cls) -> points; cls 0 below 1 inside 2 atmax
    bool rejection{false};

    LD ownCost(const Vec &x) const
    {
        Pose p;
        p.p = x;
        return rejection ? w.costGeneric(p) : w.costFocal(p);
    }
    int inclusions(const Vec &x, LD margin, bool &ambiguous) const
    {
        int k = 0;
        for (size_t j = 0; j < w.goals.size(); ++j)
        {
            if (!can[j])
                continue;
            LD f = focalSum(x, w.starts[0].p, w.goals[j].p);
            if (fabsl(f - (LD)maxC) < margin)
                ambiguous = true;
            if (f < (LD)maxC)
                ++k;
        }
        return k;
    }
    void build(const std::string &kind, const std::vector<int> &can_, unsigned N, bool finite, bool big)
    {
        can = can_;
        rejection = kind == "rejection";
        int K0 = (int)can.size();
        w.space = "Rn";
        w.n = 2;
        w.lo = {-7.0, -7.0};
        w.hi = {9.0, 9.0};
        Pose s;
        s.p = {0.0, 0.0};
        w.starts = {s};
        w.goals.clear();
        for (int i = 0; i < K0; ++i)
        {
            // directions 0.7 rad apart: the PHSs overlap pairwise and all together, also far from the start
            double th = 0.3 + 0.7 * i, r = can[i] ? 2.0 : 6.0;
            Pose g;
            g.p = {r * std::cos(th), r * std::sin(th)};
            w.goals.push_back(g);
        }
        sp = std::make_shared<ScriptSpace>(2);
        sp->fallback = {-6.5, -6.5};
        w.build(sp);
        sp->measure = big ? 1e-3 : 1e9;
        if (rejection)
            smp = std::make_shared<ob::RejectionInfSampler>(w.pd, N);
        else
            smp = std::make_shared<ob::PathLengthDirectInfSampler>(w.pd, N);
        bool anyCan = std::find(can.begin(), can.end(), 1) != can.end();
        maxC = 4.0;
        minC = 3.0;
        if (finite && anyCan)
        {
            // a point of the boundary of the informed set (bisection along a ray on the own formula); the bound
            // is then the cost the sampler itself reports for that point, so that it is an exact tie
            double th = 0.3 + (double)PIL + 0.37;
            LD loT = 0, hiT = 20;
            for (int it = 0; it < 200; ++it)
            {
                LD m = (loT + hiT) / 2;
                Vec x{(double)(m * cosl(th)), (double)(m * sinl(th))};
                (ownCost(x) < 4.0L ? loT : hiT) = m;
            }
            tie = {(double)(hiT * cosl(th)), (double)(hiT * sinl(th))};
            ob::State *st = sp->allocState();
            st->as<ob::RealVectorStateSpace::StateType>()->values[0] = tie[0];
            st->as<ob::RealVectorStateSpace::StateType>()->values[1] = tie[1];
            maxC = smp->heuristicSolnCost(st).value();
            sp->freeState(st);
            if (!(std::fabs(maxC - 4.0) < 1e-6))
                framework("tie point does not have cost 4");
        }
        if (!finite)
            maxC = INF;
        // representatives of every (inclusion count, cost class)
        const LD mg = 0.03L;
        LD cmp = finite ? (LD)maxC : (LD)1e30;
        long seen = 0;
        for (double x = -5.0; x <= 8.0; x += 0.04)
            for (double y = -5.0; y <= 8.0; y += 0.04)
            {
                Vec p{x + 0.0113, y + 0.0071};
                bool amb = false;
                int k = finite ? inclusions(p, mg, amb) : 0;
                LD c = ownCost(p);
                if (amb || fabsl(c - (LD)minC) < mg || fabsl(c - cmp) < mg)
                    continue;
                int cls = c < (LD)minC ? 0 : c < cmp ? 1 : 2;
                if (rejection)
                    k = 0;
                if (!rejection && finite && ((k == 0) != (cls == 2)))
                    continue;
                auto &v = reps[{k, cls}];
                if (v.size() < 6 && (seen++ % 53 == 0 || v.empty()))
                    v.push_back(p);
            }
    }
};

// attempts of the PHS branch from the token stream: each attempt allocates one vector (D); a kept draw is
// followed by its bounds test (T / F); "DC" is the state read-out of heuristicSolnCost
struct Attempt
{
    bool kept;
    bool inb;
};
static bool parseAttempts(const std::string &tk, std::vector<Attempt> &out)
{
    for (size_t i = 0; i < tk.size();)
    {
        if (tk[i] == 'D' && i + 1 < tk.size() && tk[i + 1] == 'C')
        {
            i += 2;
            continue;
        }
        if (tk[i] != 'D')
            return false;
        ++i;
        if (i < tk.size() && (tk[i] == 'T' || tk[i] == 'F'))
        {
            out.push_back({true, tk[i] == 'T'});
            ++i;
        }
        else
            out.push_back({false, false});
    }
    return true;
}

static int clsCode(const std::string &s)
{
    return s == "below" ? 0 : s == "inside" ? 1 : 2;
}

// the batches of contract observations, one per (kind, overload, scripted-bounds?, degenerate?)
struct Batches
{
    std::map<std::string, SampleBatch> b;
    std::map<std::string, json> head;
    SampleBatch &get(const std::string &kind, const std::string &ov, const std::string &src, bool degen, bool hasMin)
    {
        std::string key = src + "/" + kind + "/" + ov + (degen ? "/degenerate" : "");
        if (!head.count(key))
            head[key] = json{{"src", src},  {"kind", kind}, {"ov", ov}, {"space", "Rn"}, {"degen", degen ? 1 : 0},
                             {"hasmin", hasMin ? 1 : 0}, {"rg", "normal"}, {"cfg", key}};
        return b[key];
    }
    void emit(vt::Trace &t)
    {
        for (auto &kv : b)
            emitBatch(t, kv.second, head[kv.first]);
    }
};

struct ScriptedInf : ob::InformedSampler
{
    std::deque<int> feed;
    std::vector<Vec> points;   // by level
    long drift{0}, calls{0};
    ScriptedInf(const ob::ProblemDefinitionPtr &pd) : ob::InformedSampler(pd, 1u)
    {
    }
    bool sampleUniform(ob::State *st, const ob::Cost &) override
    {
        ++calls;
        if (feed.empty())
        {
            ++drift;
            return false;
        }
        int w = feed.front();
        feed.pop_front();
        if (w == 0)
            return false;
        st->as<ob::RealVectorStateSpace::StateType>()->values[0] = points[w][0];
        st->as<ob::RealVectorStateSpace::StateType>()->values[1] = points[w][1];
        return true;
    }
    bool sampleUniform(ob::State *, const ob::Cost &, const ob::Cost &) override
    {
        throw ompl::Exception("not scripted");
    }
    bool hasInformedMeasure() const override
    {
        return false;
    }
    double getInformedMeasure(const ob::Cost &) const override
    {
        return space_->getMeasure();
    }
};

static int modeReplay(const std::string &rowsPath, const std::string &tracePath, const std::string &callsPath, int repsMul = 1)
{
    unsigned long long seed = vt::envSeed();
    ompl::RNG::setSeed((std::uint_fast32_t)(mix(seed, 4242) % 2000000000ULL + 1));
    ompl::msg::setLogLevel(ompl::msg::LOG_NONE);
    std::vector<json> rows = vt::readNdjson(rowsPath);
    vt::Trace trace(tracePath);
    vt::installCrashHandlers();
    Batches batches;
    long replayed = 0, skipped = 0, driftRows = 0, loopRows = 0, ordRows = 0, ties = 0, retTrue = 0, retFalse = 0;
    std::map<std::string, long> perKind, exits;
    std::vector<json> driftSamples;
    auto drift = [&](const json &row, const std::string &why, const json &obs) {
        if (driftRows++ < 5)
        {
            json r = row;
            r.erase("path");
            std::cout << "DRIFT " << json{{"why", why}, {"row", r}, {"observed", obs}}.dump() << std::endl;
        }
    };
    for (const json &row : rows)
    {
        std::string kind = row["kind"];
        if (kind == "ordered")
        {
            // ---------------------------------------------------------------- ordered sampler rows
            ++ordRows;
            World w;
            w.space = "Rn";
            w.n = 2;
            w.lo = {-10.0, -10.0};
            w.hi = {10.0, 10.0};
            Pose s, g;
            s.p = {-1.0, 0.0};
            g.p = {1.0, 0.0};
            w.starts = {s};
            w.goals = {g};
            w.build();
            auto inner = std::make_shared<ScriptedInf>(w.pd);
            int C = 0;
            for (auto &c : row["calls"])
                C = std::max(C, c["m"].get<int>());
            for (auto &f : row["feed"])
                C = std::max(C, f.get<int>());
            inner->points.assign(C + 2, Vec{0.0, 0.0});
            for (int l = 1; l <= C + 1; ++l)
                inner->points[l] = {0.0, 0.5 * l};
            for (auto &f : row["feed"])
                inner->feed.push_back(f.get<int>());
            ob::State *st = w.sp->allocState();
            json obs = json::array();
            bool bad = false;
            try
            {
                ob::OrderedInfSampler ord(inner, row["B"].get<unsigned>());
                std::vector<double> level(C + 2, 0.0);
                for (int l = 1; l <= C + 1; ++l)
                {
                    st->as<ob::RealVectorStateSpace::StateType>()->values[0] = inner->points[l][0];
                    st->as<ob::RealVectorStateSpace::StateType>()->values[1] = inner->points[l][1];
                    level[l] = ord.heuristicSolnCost(st).value();
                }
                SampleBatch &b = batches.get("ordered", "max", "script", false, false);
                for (auto &c : row["calls"])
                {
                    int m = c["m"];
                    bool ret = ord.sampleUniform(st, ob::Cost(level[m]));
                    int lv = 0;
                    double rep = 0;
                    if (ret)
                    {
                        rep = ord.heuristicSolnCost(st).value();
                        double y = st->as<ob::RealVectorStateSpace::StateType>()->values[1];
                        lv = (int)std::lround(y / 0.5);
                        if (rep == level[m] || (lv >= 1 && lv <= C + 1 && level[lv] == level[m]))
                            ++ties;
                    }
                    long before = inner->calls;
                    (void)before;
                    observe(b, w, ret, st, rep, false, 0, level[m], false, -1, json{{"row", ordRows}, {"m", m}});
                    (ret ? retTrue : retFalse)++;
                    obs.push_back(json{{"ret", ret}, {"c", lv}});
                    if (ret != c["ret"].get<bool>() || (ret && lv != c["c"].get<int>()))
                        bad = true;
                }
                if (!inner->feed.empty() || inner->drift)
                    bad = true;
            }
            catch (const std::exception &ex)
            {
                trace.emit(json{{"e", "Threw"}, {"kind", "ordered"}, {"what", ex.what()}, {"src", "script"}});
                bad = true;
            }
            w.sp->freeState(st);
            if (bad)
                drift(row, "ordered sampler did not follow the script", obs);
            for (auto &a : row["path"])
                if (a.get<std::string>().rfind("OrdGiveUp", 0) == 0 || a == "OrdReturnTop" || a == "OrdDiscardStale")
                    exits[a.get<std::string>()]++;
            ++replayed;
            perKind["ordered"]++;
            continue;
        }
        // -------------------------------------------------------------------- direct / rejection rows
        ++loopRows;
        std::string ov = row["ov"];
        unsigned N = row["N"];
        bool finite = row["finite"], big = row["big"], degen = row["degen"];
        std::vector<int> can;
        for (auto &c : row["can"])
            can.push_back(c.get<bool>() ? 1 : 0);
        size_t aliveN = row["alive"].size();
        bool phsBranch = kind == "direct" && finite && (!big || degen);
        bool allInOne = true;
        for (const json &o : row["script"])
            allInOne = allInOne && o["k"].get<int>() == 1;
        if (phsBranch && !(ov == "max" && aliveN == 1 && (degen || allInOne)))
        {
            ++skipped;   // answers come from the sampler's private random source: covered by recorded calls
            continue;
        }
        LoopWorld lw;
        lw.build(kind, can, N, finite, big);
        ScriptSpace &sp = *lw.sp;
        bool scriptOk = true;
        size_t atmaxSeen = 0;
        for (const json &o : row["script"])
        {
            if (phsBranch)
            {
                if (o["keep"].get<bool>())
                    sp.boundsAns.push_back(o["inb"].get<bool>() ? 1 : 0);
                continue;
            }
            int k = o["k"], cls = clsCode(o["cls"]);
            if (cls == 2 && finite && !lw.tie.empty() && (atmaxSeen++ % 2 == 0))
            {
                sp.serve.push_back(lw.tie);   // cost exactly at the bound
                continue;
            }
            auto it = lw.reps.find({lw.rejection ? 0 : k, cls});
            if ((it == lw.reps.end() || it->second.empty()) && ov == "max" && cls < 2)
                it = lw.reps.find({lw.rejection ? 0 : k, 1 - cls});   // without a lower bound these are one class
            if (it == lw.reps.end() || it->second.empty())
            {
                scriptOk = false;
                break;
            }
            sp.serve.push_back(it->second[(loopRows + sp.serve.size()) % it->second.size()]);
        }
        if (!scriptOk)
            framework("no representative point for a script entry: " + row.dump());
        sp.scriptedBounds = phsBranch;
        sp.logging = true;
        ob::State *st = sp.allocState();
        st->as<ob::RealVectorStateSpace::StateType>()->values[0] = -6.9;
        st->as<ob::RealVectorStateSpace::StateType>()->values[1] = -6.9;
        bool ret = false;
        try
        {
            ret = ov == "max" ? lw.smp->sampleUniform(st, ob::Cost(lw.maxC)) :
                                lw.smp->sampleUniform(st, ob::Cost(lw.minC), ob::Cost(lw.maxC));
        }
        catch (const std::exception &ex)
        {
            trace.emit(json{{"e", "Threw"}, {"kind", kind}, {"what", ex.what()}, {"src", "script"}, {"ov", ov}});
            sp.freeState(st);
            drift(row, std::string("threw: ") + ex.what(), json());
            continue;
        }
        sp.logging = false;
        (ret ? retTrue : retFalse)++;
        // which draw came back, and what the environment said about it
        Vec out{st->as<ob::RealVectorStateSpace::StateType>()->values[0], st->as<ob::RealVectorStateSpace::StateType>()->values[1]};
        int idx = 0, forced = -1;
        long attempts = 0;
        if (phsBranch)
        {
            std::vector<Attempt> at;
            attempts = parseAttempts(sp.tokens, at) ? (long)at.size() : -1;
            for (size_t i = sp.asked.size(); i-- > 0;)
                if (sp.asked[i] == out)
                {
                    idx = (int)i + 1;
                    forced = sp.given[i];
                    break;
                }
            if (ret && idx == 0)
                forced = 0;   // a state the bounds test never saw came back as a success
        }
        else
        {
            attempts = (long)sp.served.size();
            for (size_t i = sp.served.size(); i-- > 0;)
                if (sp.served[i] == out)
                {
                    idx = (int)i + 1;
                    break;
                }
            if (ret && idx > 0 && !lw.tie.empty() && sp.served[idx - 1] == lw.tie)
                ++ties;
        }
        for (const Vec &p : sp.served)
            if (!lw.tie.empty() && p == lw.tie)
            {
                ++ties;
                break;
            }
        double rep = ret ? lw.smp->heuristicSolnCost(st).value() : 0;
        SampleBatch &b = batches.get(kind, ov, phsBranch ? "script-bounds" : "script", degen, ov == "minmax");
        observe(b, lw.w, ret, st, rep, !lw.rejection, lw.minC, lw.maxC, ov == "minmax", forced,
                json{{"row", loopRows}, {"tokens", sp.tokens}}, std::max(attempts, 0L), (long)N);
        json obs{{"ret", ret}, {"idx", idx}, {"attempts", attempts}, {"tokens", sp.tokens}, {"unserved", sp.serve.size() + sp.boundsAns.size()},
                 {"extra", sp.drift}};
        if (ret != row["ret"].get<bool>() || (ret && idx != row["idx"].get<int>()) || attempts != row["draws"].get<long>() ||
            !sp.serve.empty() || !sp.boundsAns.empty() || sp.drift)
            drift(row, "the loop did not follow the script", obs);
        for (auto &a : row["path"])
        {
            std::string s = a;
            if (s == "HInf" || s == "UErase" || s == "UDegenerate" || s == "OMinBelow" || s == "WDrawIn" || s == "WDrawOut" ||
                s == "PDrawKept" || s == "PDrawOutOfBounds" || s == "PDrawKeptInNoPhs" || s == "RDrawAccept" || s == "RDrawReject")
                exits[s]++;
        }
        sp.freeState(st);
        ++replayed;
        perKind[kind + "/" + ov]++;
    }
    batches.emit(trace);

    // ------------------------------------------------------------------------ recorded attempt sequences
    // PHS branch of the direct sampler (the PHS choice, the point and the coin come from its own random source):
    // bounds answers are scripted, everything else is observed through the counting space
    vt::Trace calls(callsPath);
    Batches cb;
    vt::Rng r(mix(seed, 99));
    long nCalls = 0, coinRejects = 0, kept = 0, callTrue = 0, callFalse = 0, multiIn = 0, unparsed = 0;
    for (int K0 = 1; K0 <= 4; ++K0)
        for (int mask = 1; mask < (1 << K0); ++mask)
            for (const char *ovc : {"max", "minmax"})
                for (unsigned N : {1u, 2u, 3u, 4u, 6u, 20u})
                    for (int rep = 0; rep < (K0 >= 3 ? 3 : 6) * repsMul; ++rep)
                    {
                        std::string ov = ovc;
                        std::vector<int> can(K0);
                        int alive = 0;
                        for (int i = 0; i < K0; ++i)
                            alive += (can[i] = (mask >> i) & 1);
                        LoopWorld lw;
                        lw.build("direct", can, N, true, false);
                        ScriptSpace &sp = *lw.sp;
                        // bounds answers: mostly "out" for the first draws so that long sequences happen
                        int pOut = rep % 3 == 0 ? 30 : rep % 3 == 1 ? 60 : 90;
                        for (unsigned i = 0; i < N + 2; ++i)
                            sp.boundsAns.push_back(r.below(100) < pOut ? 0 : 1);
                        sp.scriptedBounds = true;
                        sp.logging = true;
                        ob::State *st = sp.allocState();
                        bool ret = ov == "max" ? lw.smp->sampleUniform(st, ob::Cost(lw.maxC)) :
                                                 lw.smp->sampleUniform(st, ob::Cost(lw.minC), ob::Cost(lw.maxC));
                        sp.logging = false;
                        // parse the token stream into attempts
                        json att = json::array();
                        const std::string &tk = sp.tokens;
                        std::vector<Attempt> at;
                        bool parsed = parseAttempts(tk, at);
                        size_t ai = 0;
                        for (const Attempt &x : at)
                        {
                            if (x.kept && ai < sp.asked.size())
                            {
                                bool amb = false;
                                int k = lw.inclusions(sp.asked[ai], 0, amb);
                                LD c = lw.ownCost(sp.asked[ai]);
                                int cls = c < (LD)lw.minC && ov == "minmax" ? 0 : c < (LD)lw.maxC ? 1 : 2;
                                att.push_back(json::array({k, 1, x.inb ? 1 : 0, cls}));
                                if (k > 1)
                                    ++multiIn;
                                ++kept;
                                ++ai;
                            }
                            else
                            {
                                att.push_back(json::array({0, 0, 0, 1}));
                                ++coinRejects;
                            }
                        }
                        if (!parsed)
                            ++unparsed;
                        json cj = json::array();
                        for (int v : can)
                            cj.push_back(v);
                        calls.emit(json{{"e", "Call"}, {"kind", "direct"}, {"ov", ov}, {"N", N}, {"K0", K0}, {"can", cj},
                                        {"finite", 1}, {"big", 0}, {"att", att}, {"ret", ret ? 1 : 0}, {"tokens", tk},
                                        {"parsed", parsed ? 1 : 0}});
                        int forced = -1;
                        Vec out{st->as<ob::RealVectorStateSpace::StateType>()->values[0],
                                st->as<ob::RealVectorStateSpace::StateType>()->values[1]};
                        for (size_t i = sp.asked.size(); i-- > 0;)
                            if (sp.asked[i] == out)
                            {
                                forced = sp.given[i];
                                break;
                            }
                        if (ret && forced < 0)
                            forced = 0;
                        double repc = ret ? lw.smp->heuristicSolnCost(st).value() : 0;
                        SampleBatch &b = cb.get("direct", ov, "recorded-calls", false, ov == "minmax");
                        observe(b, lw.w, ret, st, repc, true, lw.minC, lw.maxC, ov == "minmax", forced,
                                json{{"K0", K0}, {"mask", mask}, {"N", N}, {"rep", rep}, {"tokens", tk}}, (long)at.size(), (long)N);
                        (ret ? callTrue : callFalse)++;
                        ++nCalls;
                        sp.freeState(st);
                    }
    cb.emit(trace);
    calls.close();
    trace.close();
    std::cout << "SUMMARY "
              << json{{"rows", rows.size()},     {"replayed", replayed},     {"skipped_private_random", skipped},
                      {"loop_rows", loopRows},   {"ordered_rows", ordRows},  {"drift", driftRows},
                      {"ties_served", ties},     {"returned_true", retTrue}, {"returned_false", retFalse},
                      {"per_kind", json(perKind)}, {"exits", json(exits)},   {"recorded_calls", nCalls},
                      {"coin_rejects", coinRejects}, {"kept", kept},         {"calls_true", callTrue},
                      {"calls_false", callFalse}, {"kept_in_overlap", multiIn}, {"unparsed", unparsed}}
                     .dump()
              << std::endl;
    return 0;
}
