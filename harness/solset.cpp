// C04 (ranking half): replays the state graph of specs/base/SolutionSet.tla on a real
// ompl::base::ProblemDefinition and records random add/clear histories for trace validation.
//   solset replay <graph.ndjson> <walks>
//   solset record <out.ndjson> <nops>
#include "vtrace.h"
#include <ompl/base/ProblemDefinition.h>
#include <ompl/base/SpaceInformation.h>
#include <ompl/base/spaces/RealVectorStateSpace.h>
#include <ompl/base/objectives/PathLengthOptimizationObjective.h>
#include <ompl/geometric/PathGeometric.h>
#include <ompl/util/Console.h>

namespace ob = ompl::base;
namespace og = ompl::geometric;
using vt::json;

static ob::SpaceInformationPtr g_si;
static ob::OptimizationObjectivePtr g_obj;

static std::vector<int> keyOf(const ob::PlannerSolution &s, bool withObjective)
{
    // the documented ranking key: (approx?, difference | optimized?, cost)
    if (s.approximate_)
        return {1, (int)std::lround(s.difference_), 0};
    double c = withObjective ? s.cost_.value() : s.length_;
    return {0, s.optimized_ ? 0 : 1, (int)std::lround(c)};
}

struct Driver
{
    ob::ProblemDefinitionPtr pd;
    bool withObjective;
    bool viaFlagsOverload;  // use addSolutionPath(path, approximate, difference, name) when possible
    std::string err;
    explicit Driver(bool wo, bool flags = false) : pd(std::make_shared<ob::ProblemDefinition>(g_si)), withObjective(wo), viaFlagsOverload(flags)
    {
        if (wo)
            pd->setOptimizationObjective(g_obj);
    }
    bool fail(const std::string &w)
    {
        if (err.empty())
            err = w;
        return false;
    }
    void add(bool approx, int diff, bool opt, int cost)
    {
        auto path = std::make_shared<og::PathGeometric>(g_si);
        ob::ScopedState<> a(g_si), b(g_si);
        a[0] = 0;
        b[0] = cost;
        path->append(a.get());
        path->append(b.get());
        if (viaFlagsOverload && !opt && !withObjective)
        {
            pd->addSolutionPath(path, approx, approx ? (double)diff : 0.0, "harness");
            return;
        }
        ob::PlannerSolution sol(path);
        if (approx)
            sol.setApproximate(diff);
        if (withObjective)
            sol.setOptimized(g_obj, ob::Cost(cost), opt);
        sol.setPlannerName("harness");
        pd->addSolutionPath(sol);
    }
    bool step(const vt::Edge &e, bool observe)
    {
        if (e.a == "Add")
        {
            bool opt = e.args["opt"];
            if (opt && !withObjective)
                return fail("SKIP");  // without an objective nothing can be marked as meeting it
            add(e.args["approx"], e.args["diff"], opt, e.args["cost"]);
        }
        else if (e.a == "Clear")
            pd->clearSolutionPaths();
        if (!observe)
            return true;
        const json &x = e.exp;
        int n = x["n"];
        if ((int)pd->getSolutionCount() != n)
            return fail("getSolutionCount() = " + std::to_string(pd->getSolutionCount()) + ", expected " + std::to_string(n));
        if (pd->hasSolution() != (n > 0))
            return fail("hasSolution() wrong");
        if (pd->hasExactSolution() != x["hasExact"].get<bool>())
            return fail("hasExactSolution() wrong");
        if (pd->hasApproximateSolution() != x["hasApprox"].get<bool>())
            return fail("hasApproximateSolution() wrong");
        // for an approximate top the "meets the objective" flag is not part of the ranking: unchecked
        if ((n == 0 || x["hasExact"].get<bool>()) && pd->hasOptimizedSolution() != x["hasOptimized"].get<bool>())
            return fail("hasOptimizedSolution() wrong");
        if (n > 0 && x["hasApprox"].get<bool>() && std::lround(pd->getSolutionDifference()) != x["diff"].get<int>())
            return fail("getSolutionDifference() wrong");
        if (n == 0 && pd->getSolutionDifference() != -1.0)
            return fail("getSolutionDifference() on empty set is not -1");
        auto sols = pd->getSolutions();
        if ((int)sols.size() != n)
            return fail("getSolutions() size wrong");
        std::vector<std::vector<int>> keys;
        for (auto &s : sols)
            keys.push_back(keyOf(s, withObjective));
        if (keys != x["keys"].get<std::vector<std::vector<int>>>())
            return fail("getSolutions() is not ranked as the specification says");
        if (n > 0)
        {
            ob::PathPtr top = pd->getSolutionPath();
            if (!top || top.get() != sols[0].path_.get())
                return fail("getSolutionPath() is not the first solution handed out");
            ob::PlannerSolution ts(nullptr);
            if (!pd->getSolution(ts) || keyOf(ts, withObjective) != x["topKey"].get<std::vector<int>>())
                return fail("getSolution() is not a best solution");
        }
        else if (pd->getSolutionPath())
            return fail("getSolutionPath() non-null on empty set");
        // index_ values are the insertion order: a permutation of 0..n-1
        std::vector<int> idx;
        for (auto &s : sols)
            idx.push_back(s.index_);
        std::sort(idx.begin(), idx.end());
        for (int i = 0; i < n; ++i)
            if (idx[i] != i)
                return fail("solution indices are not a permutation of the insertion order");
        return true;
    }
    bool finish()
    {
        return true;
    }
};

template <class Make>
static void runAll(const vt::Graph &g, vt::Report &rep, Make make, long walks, long &skipped)
{
    // every edge + random walks; scenarios that need an unsupported step are skipped, not failed
    vt::Report local;
    auto run = [&](const std::vector<int> &path, std::size_t from) {
        Driver d = make();
        bool ok = true;
        for (std::size_t k = 0; k < path.size() && ok; ++k)
        {
            ++rep.steps;
            ok = d.step(g.edges[path[k]], k >= from);
        }
        if (!ok && d.err == "SKIP")
        {
            ++skipped;
            return;
        }
        ++rep.scenarios;
        if (!ok)
            rep.fail(vt::describe(g, path), d.err);
    };
    for (std::size_t i = 0; i < g.edges.size(); ++i)
    {
        auto path = g.pathTo(g.edges[i].s);
        path.push_back((int)i);
        run(path, path.size() - 1);
    }
    vt::Rng rng(vt::envSeed());
    for (long w = 0; w < walks; ++w)
    {
        std::vector<int> path;
        int s = 0;
        for (int k = 0; k < 12 && !g.out[s].empty(); ++k)
        {
            int e = g.out[s][rng.below((int)g.out[s].size())];
            path.push_back(e);
            s = g.edges[e].d;
        }
        run(path, 0);
    }
}

int main(int argc, char **argv)
{
    vt::installCrashHandlers();
    ompl::msg::setLogLevel(ompl::msg::LOG_NONE);
    auto space = std::make_shared<ob::RealVectorStateSpace>(1);
    space->setBounds(0, 1000);
    g_si = std::make_shared<ob::SpaceInformation>(space);
    g_si->setStateValidityChecker([](const ob::State *) { return true; });
    g_si->setup();
    g_obj = std::make_shared<ob::PathLengthOptimizationObjective>(g_si);
    std::string mode = argc > 1 ? argv[1] : "";
    if (mode == "replay" && argc > 3)
    {
        vt::Graph g(argv[2]);
        long walks = atol(argv[3]);
        vt::Report rep;
        long skipped = 0;
        runAll(g, rep, [] { return Driver(true); }, walks, skipped);
        runAll(g, rep, [] { return Driver(false); }, walks, skipped);
        runAll(g, rep, [] { return Driver(false, true); }, walks / 2, skipped);
        rep.summary(json{{"edges", g.edges.size()}, {"states", g.nStates}, {"skipped", skipped}});
        return rep.failures ? 1 : 0;
    }
    if (mode == "record" && argc > 3)
    {
        // random histories with a wider value range; the trace carries, after every operation, the
        // ranking keys of getSolutions() in the order handed out plus the scalar observers
        vt::Trace tr(argv[2]);
        long nops = atol(argv[3]);
        vt::Rng rng(vt::envSeed());
        for (int variant = 0; variant < 2; ++variant)
        {
            Driver d(variant == 0);
            tr.emit(json{{"e", "Reset"}});
            for (long i = 0; i < nops; ++i)
            {
                json ev;
                if (rng.below(14) == 0 || d.pd->getSolutionCount() > 9)
                {
                    d.pd->clearSolutionPaths();
                    ev["e"] = "Clear";
                }
                else
                {
                    bool approx = rng.below(3) == 0;
                    int diff = approx ? 1 + rng.below(4) : 0, cost = 1 + rng.below(6);
                    bool opt = variant == 0 && rng.below(2) == 0;
                    d.add(approx, diff, opt, cost);
                    ev["e"] = "Add";
                    ev["r"] = json{{"approx", approx}, {"diff", diff}, {"opt", opt}, {"cost", cost}};
                }
                json keys = json::array();
                for (auto &s : d.pd->getSolutions())
                    keys.push_back(keyOf(s, variant == 0));
                ev["keys"] = keys;
                ev["n"] = (int)d.pd->getSolutionCount();
                ev["hasExact"] = d.pd->hasExactSolution();
                ev["hasApprox"] = d.pd->hasApproximateSolution();
                ev["hasOptimized"] = d.pd->hasOptimizedSolution();
                ev["diffTop"] = (int)std::lround(d.pd->getSolutionDifference());
                tr.emit(ev);
            }
        }
        std::cout << "RECORDED " << tr.count() << std::endl;
        return 0;
    }
    fprintf(stderr, "usage: solset replay <graph> <walks> | record <out> <nops>\n");
    return 2;
}
