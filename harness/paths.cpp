// C17 harness: binds specs/geometric/PathOps.tla (case replay, spec -> impl) and
// specs/geometric/SimplifierContractTrace.tla (recorded reports, impl -> spec) to
// ompl::geometric::PathGeometric / PathSimplifier / PathHybridization.
//
//   paths replay <cases.ndjson>
//        every TLC-enumerated densification case on a real PathGeometric in R^1
//   paths record <out.ndjson> <firstChain> <nChains> <resourcesDir> [jobs]
//        run chains firstChain .. firstChain+nChains-1, one forked child per chain
//        (RNG::setSeed from VERIF_SEED and the chain number), one report per routine call
//   paths one <chain> <resourcesDir>
//        re-run a single chain in the foreground and print its reports (reproduction)
//
// Facts in the reports come from the harness's own oracle (own distance / cost / validity code);
// TLC decides which combinations of facts the contract allows.
#include "vtrace.h"
#include "c17_world.h"
#include "c17_replay.h"
#include "c17_record.h"

int main(int argc, char **argv)
{
    c17::fixAddressSpace(argv);
    vt::installCrashHandlers();
    c17::installContextHandlers();
    ompl::msg::setLogLevel(ompl::msg::LOG_NONE);
    std::string mode = argc > 1 ? argv[1] : "";
    if (mode == "replay" && argc > 2)
        return c17::replayCases(argv[2]);
    if (mode == "record" && argc > 5)
        return c17::record(argv[2], atol(argv[3]), atol(argv[4]), argv[5], argc > 6 ? atoi(argv[6]) : 8);
    if (mode == "one" && argc > 3)
        return c17::runOne(atol(argv[2]), argv[3]);
    fprintf(stderr, "usage: paths replay <cases> | record <out> <first> <n> <resources> [jobs] | one <chain> <resources>\n");
    return 2;
}
