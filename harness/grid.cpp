// C13 harness: binds specs/ds/Grid.tla (scenario replay, spec -> impl) and specs/ds/GridTrace.tla
// (recorded random histories, impl -> spec) to ompl::Grid, ompl::GridN and ompl::GridB.
//
//   grid replay <graph.ndjson> <variant> [edges|pairs] [walks]
//   grid record <out.ndjson> <nops> <variant>
//
// <variant> is a comma separated list key=value:
//   kind=grid|gridn|gridb   dim=<d>   bounds=0|1 lo=<l> hi=<h>   limit=<n>   bycount=0|1
//   extmax=0|1 (1: GridB<int, greater, less>, 0: GridB<int, less, greater>)
//   map=id|neg|far   (model coordinate -> real coordinate; translation / reflection per dimension)
//   ctor=dim|setdim|setlimit  (construct with the dimension / with 0 and setDimension() afterwards /
//                              call setInteriorCellNeighborLimit even for the default limit)
//   range=near|wide|far (record mode: where the random coordinates come from)
//
// Replay verdicts use the public observers only (has/getCell/neighbors/size/components/getCells/
// getContent/getCoordinates/iterators, Cell::neighbors, Cell::border, count*/frac*/top*), compared
// with the table of expectations TLC computed for the destination state of every transition.
// The harness keeps no model of its own: only the table "coordinate -> cell pointer".
//
// The three class templates sit behind a small virtual adapter so that the comparison code is
// compiled once.
#include "vtrace.h"
#include "ompl/datastructures/Grid.h"
#include "ompl/datastructures/GridN.h"
#include "ompl/datastructures/GridB.h"
#include <algorithm>
#include <memory>
#include <set>

using vt::json;
using MC = std::vector<int>;  // a coordinate as a plain vector (model or real)
using CellP = const void *;   // identity of a cell (address of its Grid<int>::Cell base)

struct LessLike
{
    bool operator()(int a, int b) const
    {
        return a < b;
    }
};
struct GreaterLike
{
    bool operator()(int a, int b) const
    {
        return a > b;
    }
};

struct Config
{
    std::string kind{"grid"}, map{"id"}, ctor{"dim"}, range{"near"};
    int dim{1}, lo{0}, hi{0}, limit{0};
    bool bounds{false}, bycount{false}, extmax{true};
    std::vector<int> sgn, off;

    explicit Config(const std::string &s)
    {
        std::stringstream ss(s);
        std::string kv;
        while (std::getline(ss, kv, ','))
        {
            auto p = kv.find('=');
            if (p == std::string::npos)
                continue;
            std::string k = kv.substr(0, p), v = kv.substr(p + 1);
            if (k == "kind")
                kind = v;
            else if (k == "map")
                map = v;
            else if (k == "ctor")
                ctor = v;
            else if (k == "range")
                range = v;
            else if (k == "dim")
                dim = atoi(v.c_str());
            else if (k == "lo")
                lo = atoi(v.c_str());
            else if (k == "hi")
                hi = atoi(v.c_str());
            else if (k == "limit")
                limit = atoi(v.c_str());
            else if (k == "bounds")
                bounds = v == "1";
            else if (k == "bycount")
                bycount = v == "1";
            else if (k == "extmax")
                extmax = v == "1";
            else
            {
                fprintf(stderr, "unknown variant key %s\n", k.c_str());
                exit(2);
            }
        }
        if (limit <= 0)
            limit = 2 * dim;
        for (int i = 0; i < dim; ++i)
        {
            if (map == "neg")
            {
                sgn.push_back(1);
                off.push_back(-1);
            }
            else if (map == "far")
            {
                // a different translation per dimension, odd dimensions reflected
                sgn.push_back(i % 2 == 0 ? 1 : -1);
                off.push_back(i % 3 == 0 ? 1000000 : i % 3 == 1 ? -1000000 : -999983);
            }
            else
            {
                sgn.push_back(1);
                off.push_back(0);
            }
        }
    }
    int kindNo() const
    {
        return kind == "grid" ? 0 : kind == "gridn" ? 1 : 2;
    }
    // model values 10..99 are the symbolic "far" values of the model's axis (10 -> 1000000, ...)
    int real1(int i, int m) const
    {
        long long v = m >= 10 && m < 100 ? (long long)m - 10 + 1000000 : m;
        return (int)vt::tlcInt(sgn[i] * v + off[i]);
    }
    MC real(const MC &m) const
    {
        MC r(m.size());
        for (std::size_t i = 0; i < m.size(); ++i)
            r[i] = real1((int)i, m[i]);
        return r;
    }
};

static Eigen::VectorXi toEigen(const MC &c)
{
    Eigen::VectorXi v(c.size());
    for (std::size_t i = 0; i < c.size(); ++i)
        v[i] = c[i];
    return v;
}
static MC fromEigen(const Eigen::VectorXi &v)
{
    MC c(v.size());
    for (int i = 0; i < v.size(); ++i)
        c[i] = v[i];
    return c;
}
static std::string show(const MC &c)
{
    std::string s = "(";
    for (std::size_t i = 0; i < c.size(); ++i)
        s += (i ? "," : "") + std::to_string(c[i]);
    return s + ")";
}
static std::string showSet(const std::set<MC> &S)
{
    std::string s = "{";
    for (auto &c : S)
        s += show(c);
    return s + "}";
}

// ---------------------------------------------------------------------------- adapter
struct CellInfo
{
    MC c;
    int data;
    long n;   // Cell::neighbors (0 for plain Grid)
    bool f;   // Cell::border (true for plain Grid)
};

struct IGrid
{
    const std::map<CellP, int> *baseOf{nullptr};  // cell -> base priority given by the user
    bool bycount{false};
    long callbacks{0};
    virtual ~IGrid() = default;
    virtual CellP create(const MC &c, bool wantNbh, std::vector<CellP> &nbh) = 0;
    virtual void setData(CellP, int) = 0;
    virtual void add(CellP) = 0;
    virtual bool remove(CellP) = 0;
    virtual void destroy(CellP) = 0;
    virtual void update(CellP) = 0;
    virtual void updateAll() = 0;
    virtual void clear() = 0;
    virtual CellInfo info(CellP) const = 0;
    virtual bool has(const MC &) const = 0;
    virtual CellP getCell(const MC &) const = 0;
    virtual std::vector<CellP> nbrsCell(CellP) const = 0;
    virtual std::vector<CellP> nbrsCoord(const MC &, bool &argModified) const = 0;
    virtual std::vector<CellP> nbrsCoordConst(const MC &) const = 0;
    virtual std::vector<std::vector<CellP>> components() const = 0;
    virtual std::vector<CellP> getCells() const = 0;
    virtual std::vector<int> getContent() const = 0;
    virtual std::vector<MC> getCoordinates() const = 0;
    virtual std::vector<CellP> iterate() const = 0;
    virtual std::size_t size() const = 0;
    virtual bool empty() const = 0;
    virtual long countInternal() const = 0;
    virtual long countExternal() const = 0;
    virtual double fracExternal() const = 0;
    virtual double fracInternal() const = 0;
    virtual CellP topInternal() const = 0;
    virtual CellP topExternal() const = 0;
};

// K: 0 = Grid, 1 = GridN, 2 = GridB
template <class G, int K>
struct Adapter : IGrid
{
    using Cell = typename G::Cell;
    using Base = typename ompl::Grid<int>::Cell;
    using Coord = typename G::Coord;
    std::unique_ptr<G> g;

    explicit Adapter(const Config &cf)
    {
        bycount = cf.bycount;
        if (cf.ctor == "setdim")
        {
            g = std::make_unique<G>(0);
            configure(cf);
            g->setDimension(cf.dim);
        }
        else
        {
            g = std::make_unique<G>(cf.dim);
            configure(cf);
        }
        if constexpr (K == 2)
            g->onCellUpdate(&Adapter::onUpdate, this);
    }
    void configure(const Config &cf)
    {
        if constexpr (K >= 1)
        {
            if (cf.bounds)
            {
                Coord low(cf.dim), up(cf.dim);
                for (int i = 0; i < cf.dim; ++i)
                {
                    int a = cf.real1(i, cf.lo), b = cf.real1(i, cf.hi);
                    low[i] = std::min(a, b);
                    up[i] = std::max(a, b);
                }
                g->setBounds(low, up);
            }
            // the default limit (2 * dimension) is left to the class unless the variant says otherwise
            if (cf.limit != 2 * cf.dim || cf.ctor == "setlimit")
                g->setInteriorCellNeighborLimit(cf.limit);
        }
    }
    // the user's priority callback (GridB): like KPIECE's importance it may depend on the
    // neighbour count the grid maintains
    static void onUpdate(Cell *cell, void *self)
    {
        auto *a = static_cast<Adapter *>(self);
        ++a->callbacks;
        int b = a->baseOf->at(id(cell));
        if constexpr (K >= 1)
            cell->data = a->bycount ? 3 * b + (int)cell->neighbors : b;
        else
            cell->data = b;
    }
    static CellP id(const Base *c)
    {
        return static_cast<CellP>(c);
    }
    static Cell *cell(CellP p)
    {
        return static_cast<Cell *>(const_cast<Base *>(static_cast<const Base *>(p)));
    }
    template <class V>
    static std::vector<CellP> ids(const V &v)
    {
        std::vector<CellP> r;
        for (auto *c : v)
            r.push_back(id(c));
        return r;
    }

    CellP create(const MC &c, bool wantNbh, std::vector<CellP> &nbh) override
    {
        Coord coord = toEigen(c);
        if constexpr (K == 1)
        {
            typename G::BaseCellArray list;
            auto *r = g->createCell(coord, wantNbh ? &list : nullptr);
            nbh = ids(list);
            return id(r);
        }
        else
        {
            typename G::CellArray list;
            auto *r = g->createCell(coord, wantNbh ? &list : nullptr);
            nbh = ids(list);
            return id(r);
        }
    }
    void setData(CellP p, int v) override
    {
        cell(p)->data = v;
    }
    void add(CellP p) override
    {
        g->add(cell(p));
    }
    bool remove(CellP p) override
    {
        return g->remove(cell(p));
    }
    void destroy(CellP p) override
    {
        g->destroyCell(cell(p));
    }
    void update(CellP p) override
    {
        if constexpr (K == 2)
            g->update(cell(p));
    }
    void updateAll() override
    {
        if constexpr (K == 2)
            g->updateAll();
    }
    void clear() override
    {
        g->clear();
    }
    CellInfo info(CellP p) const override
    {
        const Cell *c = cell(p);
        CellInfo i{fromEigen(c->coord), c->data, 0, true};
        if constexpr (K >= 1)
        {
            i.n = (long)c->neighbors;
            i.f = c->border;
        }
        return i;
    }
    const G &cg() const
    {
        return *g;
    }
    bool has(const MC &c) const override
    {
        return cg().has(toEigen(c));
    }
    CellP getCell(const MC &c) const override
    {
        auto *r = cg().getCell(toEigen(c));
        return r ? id(r) : nullptr;
    }
    std::vector<CellP> nbrsCell(CellP p) const override
    {
        typename G::CellArray list;
        cg().neighbors(static_cast<const Cell *>(cell(p)), list);
        return ids(list);
    }
    std::vector<CellP> nbrsCoord(const MC &c, bool &argModified) const override
    {
        typename G::CellArray list;
        Coord coord = toEigen(c);
        cg().neighbors(coord, list);  // the overload probing in place
        argModified = fromEigen(coord) != c;
        return ids(list);
    }
    std::vector<CellP> nbrsCoordConst(const MC &c) const override
    {
        typename G::CellArray list;
        const Coord coord = toEigen(c);
        cg().neighbors(coord, list);
        return ids(list);
    }
    std::vector<std::vector<CellP>> components() const override
    {
        std::vector<std::vector<CellP>> r;
        for (auto &comp : cg().components())
            r.push_back(ids(comp));
        return r;
    }
    std::vector<CellP> getCells() const override
    {
        typename G::CellArray cells;
        cg().getCells(cells);
        return ids(cells);
    }
    std::vector<int> getContent() const override
    {
        std::vector<int> c;
        cg().getContent(c);
        return c;
    }
    std::vector<MC> getCoordinates() const override
    {
        std::vector<Coord *> cs;
        cg().getCoordinates(cs);
        std::vector<MC> r;
        for (auto *c : cs)
            r.push_back(fromEigen(*c));
        return r;
    }
    std::vector<CellP> iterate() const override
    {
        std::vector<CellP> r;
        for (auto it = cg().begin(); it != cg().end(); ++it)
            r.push_back(id(it->second));
        return r;
    }
    std::size_t size() const override
    {
        return cg().size();
    }
    bool empty() const override
    {
        return cg().empty();
    }
    long countInternal() const override
    {
        if constexpr (K == 2)
            return (long)cg().countInternal();
        return 0;
    }
    long countExternal() const override
    {
        if constexpr (K == 2)
            return (long)cg().countExternal();
        return 0;
    }
    double fracExternal() const override
    {
        if constexpr (K == 2)
            return cg().fracExternal();
        return 0;
    }
    double fracInternal() const override
    {
        if constexpr (K == 2)
            return cg().fracInternal();
        return 0;
    }
    CellP topInternal() const override
    {
        if constexpr (K == 2)
            return id(cg().topInternal());
        return nullptr;
    }
    CellP topExternal() const override
    {
        if constexpr (K == 2)
            return id(cg().topExternal());
        return nullptr;
    }
};

static std::unique_ptr<IGrid> makeGrid(const Config &cf)
{
    using GB1 = ompl::GridB<int, GreaterLike, LessLike>;  // external: largest first, internal: smallest first
    using GB0 = ompl::GridB<int, LessLike, GreaterLike>;  // the two functors exchanged
    if (cf.kind == "grid")
        return std::make_unique<Adapter<ompl::Grid<int>, 0>>(cf);
    if (cf.kind == "gridn")
        return std::make_unique<Adapter<ompl::GridN<int>, 1>>(cf);
    if (cf.extmax)
        return std::make_unique<Adapter<GB1, 2>>(cf);
    return std::make_unique<Adapter<GB0, 2>>(cf);
}

// ---------------------------------------------------------------------------- parsed specification steps
struct CellExp
{
    MC c;
    std::set<MC> nb;
    long n;
    bool f;
    int d;
};
struct ExpTable
{
    long size{0}, ni{0}, ne{0};
    int ti{0}, te{0};
    std::vector<CellExp> cells, abs, pend;
    std::vector<long> comps;
    std::set<std::set<MC>> parts;
};
struct Step
{
    std::string act;
    MC c;
    int v{0};
    std::vector<std::pair<MC, int>> ch;
    bool haveExp{false};
    ExpTable exp;
};

struct StepCache
{
    const vt::Graph &g;
    const Config &cf;
    std::vector<std::unique_ptr<Step>> steps;
    StepCache(const vt::Graph &g_, const Config &cf_) : g(g_), cf(cf_), steps(g_.edges.size())
    {
    }
    std::set<MC> realSet(const json &a) const
    {
        std::set<MC> s;
        for (auto &c : a)
            s.insert(cf.real(c.get<MC>()));
        return s;
    }
    Step &get(const vt::Edge &e, bool needExp)
    {
        std::size_t i = (std::size_t)(&e - &g.edges[0]);
        if (!steps[i])
        {
            auto st = std::make_unique<Step>();
            st->act = e.a;
            const json &a = e.args;
            if (a.is_object())
            {
                if (a.contains("c"))
                    st->c = cf.real(a["c"].get<MC>());
                if (a.contains("v"))
                    st->v = a["v"].get<int>();
                if (a.contains("ch"))
                    for (auto &c : a["ch"])
                        st->ch.push_back({cf.real(c["c"].get<MC>()), c["v"].get<int>()});
            }
            steps[i] = std::move(st);
        }
        Step &st = *steps[i];
        if (needExp && !st.haveExp)
        {
            const json &x = e.exp;
            ExpTable &t = st.exp;
            t.size = x["size"].get<long>();
            t.ni = x["ni"].get<long>();
            t.ne = x["ne"].get<long>();
            t.ti = x["ti"].get<int>();
            t.te = x["te"].get<int>();
            for (auto &r : x["cells"])
                t.cells.push_back(CellExp{cf.real(r["c"].get<MC>()), realSet(r["nb"]), r["n"].get<long>(), r["f"].get<bool>(), r["d"].get<int>()});
            for (auto &r : x["abs"])
                t.abs.push_back(CellExp{cf.real(r["c"].get<MC>()), realSet(r["nb"]), 0, true, 0});
            for (auto &r : x["pend"])
                t.pend.push_back(CellExp{cf.real(r["c"].get<MC>()), {}, r["n"].get<long>(), r["f"].get<bool>(), 0});
            t.comps = x["comps"].get<std::vector<long>>();
            for (auto &p : x["parts"])
                t.parts.insert(realSet(p));
            st.haveExp = true;
        }
        return st;
    }
};

// ---------------------------------------------------------------------------- driver
struct Totals
{
    long flipsToInt{0}, flipsToExt{0}, topCalls{0}, callbacks{0}, migrations{0};
};
static Totals g_tot;

struct Driver
{
    const Config &cf;
    StepCache *cache;
    const int K;
    std::map<CellP, int> baseOf;
    std::unique_ptr<IGrid> gp;
    std::map<MC, CellP> present, pending, dead;  // keyed by REAL coordinate
    std::string err;
    long stepNo{0};

    Driver(const Config &c, StepCache *sc) : cf(c), cache(sc), K(c.kindNo())
    {
        gp = makeGrid(cf);
        gp->baseOf = &baseOf;
    }
    Driver(const Driver &) = delete;
    ~Driver()
    {
        g_tot.callbacks += gp->callbacks;
        // cells the grid does not know are ours to free
        for (auto &p : pending)
            gp->destroy(p.second);
        for (auto &p : dead)
            gp->destroy(p.second);
    }
    IGrid &grid()
    {
        return *gp;
    }
    bool fail(const std::string &w)
    {
        if (err.empty())
            err = w;
        return false;
    }
    std::set<MC> coordsOf(const std::vector<CellP> &v, bool &dup) const
    {
        std::set<MC> s;
        for (auto p : v)
            dup |= !s.insert(gp->info(p).c).second;
        return s;
    }

    // ------------------------------------------------------------ operations on the real grid
    CellP doCreate(const MC &rc, int v, bool wantNbh, std::set<MC> &nbhOut)
    {
        std::vector<CellP> nbh;
        CellP cell = grid().create(rc, wantNbh, nbh);
        bool dup = false;
        nbhOut = coordsOf(nbh, dup);
        if (dup)
            fail("createCell() lists a future neighbour twice");
        baseOf[cell] = v;
        if (K != 2)
            grid().setData(cell, v);  // payload; in GridB the callback writes the data
        pending[rc] = cell;
        if (grid().info(cell).c != rc)
            fail("createCell() returned a cell with another coordinate");
        return cell;
    }
    void doAdd(const MC &rc)
    {
        CellP cell = pending.at(rc);
        grid().add(cell);
        pending.erase(rc);
        present[rc] = cell;
    }
    bool doRemove(const MC &rc)
    {
        bool was = present.count(rc) != 0;
        CellP cell = was ? present.at(rc) : pending.at(rc);
        bool r = grid().remove(cell);
        present.erase(rc);
        pending.erase(rc);
        dead[rc] = cell;
        if (r != was)
            fail(std::string("remove() returned ") + (r ? "true" : "false") + " for a cell that was " + (was ? "" : "not ") + "in the grid");
        return r;
    }
    void doDestroy(const MC &rc)
    {
        CellP cell = dead.at(rc);
        baseOf.erase(cell);
        grid().destroy(cell);
        dead.erase(rc);
    }
    void doUpdate(const MC &rc, int v)
    {
        CellP cell = present.at(rc);
        baseOf[cell] = v;
        grid().update(cell);
    }
    void doUpdateAll(const std::vector<std::pair<MC, int>> &ch)
    {
        for (auto &c : ch)
            baseOf[present.at(c.first)] = c.second;
        grid().updateAll();
    }
    void doClear()
    {
        for (auto &p : present)
            baseOf.erase(p.second);
        present.clear();
        grid().clear();
    }

    // ------------------------------------------------------------ observers
    // neighbours of a coordinate through both overloads
    bool nbrsOfCoord(const MC &rc, std::set<MC> &out)
    {
        bool dup = false, modified = false;
        out = coordsOf(grid().nbrsCoord(rc, modified), dup);
        if (modified)
            return fail("neighbors(coord) left its argument modified");
        std::set<MC> again = coordsOf(grid().nbrsCoordConst(rc), dup);
        if (dup)
            return fail("neighbors(coord " + show(rc) + ") lists a cell twice");
        if (again != out)
            return fail("the two neighbors(coord) overloads disagree at " + show(rc));
        return true;
    }

    bool observe(const ExpTable &exp)
    {
        const IGrid &g = grid();
        if ((long)g.size() != exp.size)
            return fail("size() = " + std::to_string(g.size()) + ", specification says " + std::to_string(exp.size));
        if (g.empty() != (exp.size == 0))
            return fail("empty() disagrees with the specification");
        if (present.size() != exp.cells.size())
            return fail("internal: harness table out of step with the specification");
        std::multiset<int> wantContent;
        for (auto &row : exp.cells)
        {
            const MC &rc = row.c;
            auto it = present.find(rc);
            if (it == present.end())
                return fail("internal: harness table lacks present cell " + show(rc));
            CellP cell = it->second;
            if (!g.has(rc))
                return fail("has" + show(rc) + " is false for a cell that was added");
            if (g.getCell(rc) != cell)
                return fail("getCell" + show(rc) + " does not return the cell that was added there");
            CellInfo ci = g.info(cell);
            if (ci.c != rc)
                return fail("coordinate of cell " + show(rc) + " changed");
            bool dup = false;
            std::vector<CellP> nl = g.nbrsCell(cell);
            std::set<MC> got = coordsOf(nl, dup);
            if (dup)
                return fail("neighbors(cell " + show(rc) + ") lists a cell twice");
            for (auto p : nl)
            {
                auto pit = present.find(g.info(p).c);
                if (pit == present.end() || pit->second != p)
                    return fail("neighbors(cell " + show(rc) + ") returns a cell that is not the one added at its coordinate");
            }
            if (got != row.nb)
                return fail("neighbors(cell " + show(rc) + ") = " + showSet(got) + ", specification says " + showSet(row.nb));
            if (!nbrsOfCoord(rc, got))
                return false;
            if (got != row.nb)
                return fail("neighbors(coord " + show(rc) + ") = " + showSet(got) + ", specification says " + showSet(row.nb));
            if (K >= 1)
            {
                if (ci.n != row.n)
                    return fail("cell " + show(rc) + " neighbor count " + std::to_string(ci.n) + ", specification says " + std::to_string(row.n));
                if (ci.f != row.f)
                    return fail("cell " + show(rc) + " border flag " + (ci.f ? "true" : "false") + ", specification says " + (row.f ? "true" : "false"));
            }
            if (ci.data != row.d)
                return fail("cell " + show(rc) + " data " + std::to_string(ci.data) + ", specification says " + std::to_string(row.d));
            wantContent.insert(row.d);
        }
        // coordinates of the box where no cell is present
        for (auto &row : exp.abs)
        {
            if (g.has(row.c) || g.getCell(row.c) != nullptr)
                return fail("has" + show(row.c) + " is true although no cell is in the grid there");
            std::set<MC> got;
            if (!nbrsOfCoord(row.c, got))
                return false;
            if (got != row.nb)
                return fail("neighbors(coord " + show(row.c) + ") = " + showSet(got) + ", specification says " + showSet(row.nb));
        }
        // created, not yet added
        if (pending.size() != exp.pend.size())
            return fail("internal: pending table out of step with the specification");
        if (K >= 1)
            for (auto &row : exp.pend)
            {
                CellInfo ci = g.info(pending.at(row.c));
                if (ci.n != row.n)
                    return fail("created cell " + show(row.c) + " neighbor count " + std::to_string(ci.n) + ", specification says " + std::to_string(row.n));
                if (ci.f != row.f)
                    return fail("created cell " + show(row.c) + " border flag " + (ci.f ? "true" : "false") + ", specification says " + (row.f ? "true" : "false"));
            }
        // components: sizes in the promised (non-increasing) order, and the partition
        {
            std::vector<long> sizes;
            std::set<std::set<MC>> parts;
            std::size_t total = 0;
            for (auto &comp : g.components())
            {
                sizes.push_back((long)comp.size());
                std::set<MC> s;
                for (auto p : comp)
                {
                    MC rc = g.info(p).c;
                    auto it = present.find(rc);
                    if (it == present.end() || it->second != p)
                        return fail("components() lists a cell that is not in the grid");
                    if (!s.insert(rc).second)
                        return fail("components() lists cell " + show(rc) + " twice in one component");
                }
                total += s.size();
                parts.insert(s);
            }
            if (sizes != exp.comps)
                return fail("components() sizes " + json(sizes).dump() + ", specification says " + json(exp.comps).dump());
            if (parts != exp.parts || total != present.size())
                return fail("components() is not the partition of the cells by the neighbour relation");
        }
        // listings
        {
            std::set<CellP> mine, got;
            for (auto &p : present)
                mine.insert(p.second);
            for (auto p : g.getCells())
                if (!got.insert(p).second)
                    return fail("getCells() lists a cell twice");
            if (got != mine)
                return fail("getCells() is not exactly the set of cells in the grid");
            std::vector<int> content = g.getContent();
            if (std::multiset<int>(content.begin(), content.end()) != wantContent)
                return fail("getContent() is not the data of the cells in the grid");
            std::vector<MC> coords = g.getCoordinates();
            std::set<MC> cs(coords.begin(), coords.end());
            if (cs.size() != coords.size() || cs.size() != present.size())
                return fail("getCoordinates() is not exactly the coordinates of the cells in the grid");
            for (auto &c : cs)
                if (!present.count(c))
                    return fail("getCoordinates() lists " + show(c) + " where no cell is");
            std::vector<CellP> it = g.iterate();
            if (std::set<CellP>(it.begin(), it.end()) != mine || it.size() != mine.size())
                return fail("iteration does not visit exactly the cells in the grid once");
        }
        if (K == 2)
        {
            if (g.countInternal() != exp.ni || g.countExternal() != exp.ne)
                return fail("countInternal/countExternal = " + std::to_string(g.countInternal()) + "/" + std::to_string(g.countExternal()) +
                            ", specification says " + std::to_string(exp.ni) + "/" + std::to_string(exp.ne));
            double fe = exp.ne == 0 ? 0.0 : (double)exp.ne / (double)(exp.ne + exp.ni);
            if (g.fracExternal() != fe || g.fracInternal() != 1.0 - fe)
                return fail("fracExternal() = " + std::to_string(g.fracExternal()) + ", specification says " + std::to_string(fe));
            // top*() dereference the heap top before testing it: only defined on a non-empty heap
            if (exp.ni > 0)
            {
                ++g_tot.topCalls;
                CellP t = g.topInternal();
                auto it = t ? present.find(g.info(t).c) : present.end();
                if (it == present.end() || it->second != t)
                    return fail("topInternal() is not a cell of the grid");
                CellInfo ci = g.info(t);
                if (ci.f)
                    return fail("topInternal() returns border cell " + show(ci.c));
                if (ci.data != exp.ti)
                    return fail("topInternal() has priority " + std::to_string(ci.data) + ", the best interior cell has " + std::to_string(exp.ti));
            }
            if (exp.ne > 0)
            {
                ++g_tot.topCalls;
                CellP t = g.topExternal();
                auto it = t ? present.find(g.info(t).c) : present.end();
                if (it == present.end() || it->second != t)
                    return fail("topExternal() is not a cell of the grid");
                CellInfo ci = g.info(t);
                if (!ci.f)
                    return fail("topExternal() returns interior cell " + show(ci.c));
                if (ci.data != exp.te)
                    return fail("topExternal() has priority " + std::to_string(ci.data) + ", the best border cell has " + std::to_string(exp.te));
            }
        }
        return err.empty();
    }

    std::map<MC, bool> flags()
    {
        std::map<MC, bool> f;
        if (K >= 1)
            for (auto &p : present)
                f[p.first] = gp->info(p.second).f;
        return f;
    }

    // ------------------------------------------------------------ one specification step
    bool step(const vt::Edge &e, bool obs)
    {
        Step &st = cache->get(e, obs);
        ++stepNo;
        std::map<MC, bool> before;
        if (obs)
            before = flags();
        if (st.act == "Create")
        {
            bool wantNbh = stepNo % 2 == 1;
            std::set<MC> nbh;
            doCreate(st.c, st.v, wantNbh, nbh);
            if (wantNbh && obs && err.empty())
                for (auto &row : st.exp.abs)
                    if (row.c == st.c && row.nb != nbh)
                        return fail("createCell" + show(st.c) + " reports future neighbours " + showSet(nbh) + ", specification says " + showSet(row.nb));
        }
        else if (st.act == "Add")
            doAdd(st.c);
        else if (st.act == "Remove")
            doRemove(st.c);
        else if (st.act == "Destroy")
            doDestroy(st.c);
        else if (st.act == "Update")
            doUpdate(st.c, st.v);
        else if (st.act == "UpdateAll")
            doUpdateAll(st.ch);
        else if (st.act == "Clear")
            doClear();
        else
            return fail("unknown action " + st.act);
        if (!err.empty())
            return false;
        if (!obs)
            return true;
        for (auto &f : flags())
        {
            auto it = before.find(f.first);
            if (it != before.end() && it->second != f.second)
                ++(f.second ? g_tot.flipsToExt : g_tot.flipsToInt);
        }
        return observe(st.exp);
    }

    // end of scenario: take the grid apart (alternating between explicit removal and clear())
    bool finish()
    {
        if (!err.empty())
            return false;
        while (!dead.empty())
            doDestroy(MC(dead.begin()->first));
        while (!pending.empty())
        {
            MC c = pending.begin()->first;
            doRemove(c);
            doDestroy(c);
        }
        if (stepNo % 2 == 0)
            while (!present.empty())
            {
                MC c = present.begin()->first;
                doRemove(c);
                doDestroy(c);
                if (grid().size() != present.size())
                    return fail("size() wrong while taking the grid apart");
            }
        else
            doClear();
        if (!err.empty())
            return false;
        if (grid().size() != 0 || !grid().empty() || !grid().components().empty())
            return fail("grid not empty after every cell was removed");
        if (K == 2 && (grid().countInternal() != 0 || grid().countExternal() != 0))
            return fail("heaps not empty after every cell was removed");
        return true;
    }
};

// vt::runScenario does `D d = make();` - a driver registers its own address with the grid, so it
// is never copied or moved: hand out a thin handle instead.
struct Handle
{
    std::unique_ptr<Driver> d;
    std::string err;
    bool step(const vt::Edge &e, bool obs)
    {
        bool ok = d->step(e, obs);
        err = d->err;
        return ok;
    }
    bool finish()
    {
        bool ok = d->finish();
        err = d->err;
        return ok;
    }
};

// ---------------------------------------------------------------------------- recording
static json jc(const MC &c)
{
    json a = json::array();
    for (int x : c)
        a.push_back(vt::tlcInt(x));
    return a;
}

struct Recorder
{
    const Config &cf;
    vt::Trace tr;
    vt::Rng rng;
    long done{0}, executions{0};
    Recorder(const Config &c, const std::string &out) : cf(c), tr(out), rng(vt::envSeed())
    {
    }

    MC randCoord()
    {
        MC c(cf.dim);
        for (int i = 0; i < cf.dim; ++i)
        {
            if (cf.range == "wide")
                // 2-D and up: (x, y) and (x + 32 k, y - k) share a hash value
                c[i] = i == 0 ? rng.below(81) - 40 : rng.below(3) * 32 - 32 + rng.below(2);
            else if (cf.range == "far")
            {
                static const int anchors[] = {1000000, -1000000, 1999999000, -1999999000, 0};
                c[i] = anchors[rng.below(i == 0 ? 5 : 3)] + rng.below(4) - 1;
            }
            else
                c[i] = rng.below(cf.dim == 1 ? 9 : cf.dim == 2 ? 5 : 4) - 1;
        }
        return c;
    }
    bool adjacent(const MC &a, const MC &b) const
    {
        int diff = 0;
        for (int i = 0; i < cf.dim; ++i)
        {
            long long dd = std::llabs((long long)a[i] - b[i]);
            if (dd > 1)
                return false;
            diff += (int)dd;
        }
        return diff == 1;
    }
    static MC pick(vt::Rng &rng, const std::map<MC, CellP> &m)
    {
        auto it = m.begin();
        std::advance(it, rng.below((int)m.size()));
        return it->first;
    }
    static json cellRow(const CellInfo &ci)
    {
        return json{{"c", jc(ci.c)}, {"d", ci.data}, {"n", (int)ci.n}, {"f", ci.f}};
    }

    void execution(long nops)
    {
        ++executions;
        Driver d(cf, nullptr);
        IGrid &g = d.grid();
        const int K = d.K;
        tr.emit(json{{"e", "Reset"}, {"kind", K == 0 ? "Grid" : K == 1 ? "GridN" : "GridB"}, {"dim", cf.dim}, {"bounds", cf.bounds},
                     {"lo", cf.lo}, {"hi", cf.hi}, {"limit", cf.limit}, {"bycount", cf.bycount}, {"extmax", cf.extmax}});
        const int maxLive = 6 + rng.below(30);
        // the protocol of DESIGN.md section 6: nothing adjacent to a pending cell is created or removed
        auto isolated = [&](const MC &c) {
            if (K == 0)
                return true;
            for (auto &p : d.pending)
                if (p.first != c && adjacent(p.first, c))
                    return false;
            return true;
        };
        auto touched = [&](const MC &c) {
            json t = json::array();
            bool modified = false;
            for (auto p : g.nbrsCoord(c, modified))
                t.push_back(cellRow(g.info(p)));
            return t;
        };
        auto emit = [&](json ev) {
            ev["size"] = (int)g.size();
            if (K == 2)
            {
                ev["ni"] = (int)g.countInternal();
                ev["ne"] = (int)g.countExternal();
                json none{{"has", false}, {"c", json::array()}, {"d", 0}};
                ev["ti"] = none;
                ev["te"] = none;
                if (g.countInternal() > 0)
                {
                    CellInfo t = g.info(g.topInternal());
                    ev["ti"] = json{{"has", true}, {"c", jc(t.c)}, {"d", t.data}};
                }
                if (g.countExternal() > 0)
                {
                    CellInfo t = g.info(g.topExternal());
                    ev["te"] = json{{"has", true}, {"c", jc(t.c)}, {"d", t.data}};
                }
            }
            tr.emit(ev);
            ++done;
        };
        auto create = [&](const MC &c) {
            int v = rng.below(10) == 0 ? rng.below(1000) : 1 + rng.below(3);
            bool wantNbh = rng.below(2) == 0;
            std::set<MC> nbh;
            CellP cell = d.doCreate(c, v, wantNbh, nbh);
            json jn = json::array();
            for (auto &x : nbh)
                jn.push_back(jc(x));
            CellInfo ci = g.info(cell);
            emit(json{{"e", "Create"}, {"c", jc(c)}, {"v", v}, {"n", (int)ci.n}, {"f", ci.f}, {"hasNbh", wantNbh}, {"nbh", jn}, {"touched", touched(c)}});
        };
        auto add = [&](const MC &c) {
            CellP cell = d.pending.at(c);
            d.doAdd(c);
            emit(json{{"e", "Add"}, {"c", jc(c)}, {"d", g.info(cell).data}});
        };
        auto removeDestroy = [&](const MC &c) {
            bool r = d.doRemove(c);
            emit(json{{"e", "Remove"}, {"c", jc(c)}, {"ret", r}, {"touched", touched(c)}});
            d.doDestroy(c);
            emit(json{{"e", "Destroy"}, {"c", jc(c)}});
        };
        const long opsHere = 150 + rng.below(500);
        for (long i = 0; i < opsHere && done < nops && d.err.empty(); ++i)
        {
            int op = rng.below(100);
            int live = (int)(d.present.size() + d.pending.size());
            if (op < 34)
            {
                // create (and usually add at once, as every caller in the library does)
                MC c = randCoord();
                if (rng.below(3) != 0 && !d.present.empty())
                {
                    // next to an existing cell: grows clusters, makes counters move
                    c = pick(rng, d.present);
                    c[rng.below(cf.dim)] += rng.below(2) ? 1 : -1;
                }
                if (live >= maxLive || d.present.count(c) || d.pending.count(c) || !isolated(c) || d.pending.size() >= 3)
                    continue;
                create(c);
                if (rng.below(4) != 0)
                    add(c);
            }
            else if (op < 44)
            {
                if (d.pending.empty())
                    continue;
                add(pick(rng, d.pending));
            }
            else if (op < 64)
            {
                if (d.present.empty())
                    continue;
                MC c = pick(rng, d.present);
                if (!isolated(c))
                    continue;
                removeDestroy(c);
            }
            else if (op < 67)
            {
                // give up a created cell: remove() undoes the neighbour bookkeeping
                if (d.pending.empty())
                    continue;
                MC c = pick(rng, d.pending);
                if (!isolated(c))
                    continue;
                removeDestroy(c);
            }
            else if (op < 79)
            {
                if (K != 2 || d.present.empty())
                    continue;
                MC c = pick(rng, d.present);
                int v = 1 + rng.below(4);
                d.doUpdate(c, v);
                emit(json{{"e", "Update"}, {"c", jc(c)}, {"v", v}, {"d", g.info(d.present.at(c)).data}});
            }
            else if (op < 83)
            {
                if (K != 2)
                    continue;
                std::vector<std::pair<MC, int>> ch;
                json jch = json::array();
                std::set<MC> seen;
                int m = d.present.empty() ? 0 : rng.below(5);
                for (int j = 0; j < m; ++j)
                {
                    MC c = pick(rng, d.present);
                    if (!seen.insert(c).second)
                        continue;
                    int v = 1 + rng.below(4);
                    ch.push_back({c, v});
                    jch.push_back(json{{"c", jc(c)}, {"v", v}});
                }
                d.doUpdateAll(ch);
                emit(json{{"e", "UpdateAll"}, {"ch", jch}});
            }
            else if (op < 84)
            {
                bool ok = rng.below(3) == 0;
                for (auto &p : d.pending)
                {
                    std::set<MC> nb;
                    d.nbrsOfCoord(p.first, nb);
                    ok = ok && (K == 0 || nb.empty());
                }
                if (!ok)
                    continue;
                d.doClear();
                emit(json{{"e", "Clear"}});
            }
            else if (op < 90)
            {
                MC c = rng.below(2) && !d.present.empty() ? pick(rng, d.present) : randCoord();
                bool r = g.has(c);
                if (r != (g.getCell(c) != nullptr))
                    d.fail("has() and getCell() disagree");
                emit(json{{"e", "Has"}, {"c", jc(c)}, {"r", r}});
            }
            else if (op < 95)
            {
                MC c = rng.below(2) && !d.present.empty() ? pick(rng, d.present) : randCoord();
                std::set<MC> nbs;
                d.nbrsOfCoord(c, nbs);
                json nb = json::array();
                for (auto &x : nbs)
                    nb.push_back(jc(x));
                emit(json{{"e", "Nbrs"}, {"c", jc(c)}, {"nb", nb}});
            }
            else if (op < 97)
            {
                json parts = json::array();
                for (auto &comp : g.components())
                {
                    json p = json::array();
                    for (auto c : comp)
                        p.push_back(jc(g.info(c).c));
                    parts.push_back(p);
                }
                emit(json{{"e", "Comps"}, {"parts", parts}});
            }
            else
            {
                json rows = json::array();
                for (auto c : g.getCells())
                    rows.push_back(cellRow(g.info(c)));
                emit(json{{"e", "Cells"}, {"rows", rows}});
            }
        }
        if (!d.err.empty())
        {
            // an inconsistency the driver itself noticed: make the trace unacceptable
            tr.emit(json{{"e", "Crash"}, {"what", d.err}});
            done = nops;
            return;
        }
        // take the grid apart, logging every step
        while (!d.pending.empty())
            removeDestroy(MC(d.pending.begin()->first));
        while (!d.present.empty())
            removeDestroy(MC(d.present.begin()->first));
    }
};

int main(int argc, char **argv)
{
    vt::installCrashHandlers();
    std::string mode = argc > 1 ? argv[1] : "";
    if (mode == "replay" && argc > 3)
    {
        vt::Graph g(argv[2]);
        Config cf(argv[3]);
        std::string pm = argc > 4 ? argv[4] : "pairs";
        long walks = argc > 5 ? atol(argv[5]) : 500;
        vt::Report rep;
        StepCache cache(g, cf);
        auto make = [&]() { return Handle{std::make_unique<Driver>(cf, &cache), ""}; };
        auto small = [](const vt::Edge &e) { return e.a == "Add" || e.a == "Remove" || e.a == "Destroy" || e.a == "Update" || e.a == "Create"; };
        vt::walkEveryEdge<Handle>(g, rep, make);
        if (pm == "pairs")
            vt::walkEveryPair<Handle>(g, rep, make, small);
        vt::walkRandom<Handle>(g, rep, make, walks, 60, vt::envSeed());
        rep.summary(json{{"edges", g.edges.size()}, {"states", g.nStates}, {"flipsToInt", g_tot.flipsToInt}, {"flipsToExt", g_tot.flipsToExt},
                         {"topCalls", g_tot.topCalls}, {"callbacks", g_tot.callbacks}});
        return rep.failures ? 1 : 0;
    }
    if (mode == "record" && argc > 4)
    {
        long nops = atol(argv[3]);
        Config cf(argv[4]);
        Recorder r(cf, argv[2]);
        while (r.done < nops)
            r.execution(nops);
        std::cout << "RECORDED " << r.tr.count() << " executions " << r.executions << std::endl;
        return 0;
    }
    fprintf(stderr, "usage: grid replay <graph> <variant> [edges|pairs] [walks] | grid record <out> <nops> <variant>\n");
    return 2;
}
