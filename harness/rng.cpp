// C20 harness (protocol half):
//   rng seedgen '<json history>'      execute one seed-generator history in THIS fresh process;
//                                     prints {"rets":[...]} (concrete value per call)
//   rng stream <scenarios.ndjson>     pre-draws; setLocalSeed(7); post-draws  ==  fresh RNG(7) post-draws, bitwise
#include "vtrace.h"
#include <ompl/util/RandomNumbers.h>
#include <ompl/util/Console.h>
#include <cstring>

using vt::json;

static std::string bits(double d)
{
    unsigned long long u;
    memcpy(&u, &d, 8);
    char buf[32];
    snprintf(buf, sizeof buf, "%016llx", u);
    return buf;
}

static std::string draw(ompl::RNG &r, const std::string &k)
{
    std::string out;
    if (k == "u01")
        out = bits(r.uniform01());
    else if (k == "int")
        out = std::to_string(r.uniformInt(-5, 1000000));
    else if (k == "bool")
        out = r.uniformBool() ? "1" : "0";
    else if (k == "gauss")
        out = bits(r.gaussian01());
    else if (k == "halfnormal")
        out = bits(r.halfNormalReal(0.0, 3.0, 2.0));
    else if (k == "quat")
    {
        double q[4];
        r.quaternion(q);
        for (double v : q)
            out += bits(v);
    }
    else if (k == "sphere2" || k == "sphere3")
    {
        std::vector<double> v(k == "sphere2" ? 2 : 3);
        r.uniformNormalVector(v);
        for (double x : v)
            out += bits(x);
    }
    else if (k == "ball3")
    {
        std::vector<double> v(3);
        r.uniformInBall(2.0, v);
        for (double x : v)
            out += bits(x);
    }
    else
    {
        fprintf(stderr, "unknown draw kind %s\n", k.c_str());
        exit(3);
    }
    return out;
}

int main(int argc, char **argv)
{
    vt::installCrashHandlers();
    ompl::msg::setLogLevel(ompl::msg::LOG_NONE);
    std::string mode = argc > 1 ? argv[1] : "";
    if (mode == "seedgen" && argc > 2)
    {
        json h = json::parse(argv[2]);
        json rets = json::array();
        std::vector<std::unique_ptr<ompl::RNG>> keep;
        for (auto &c : h)
        {
            std::string op = c["op"];
            if (op == "SetSeed")
            {
                ompl::RNG::setSeed(c["arg"].get<unsigned>());
                rets.push_back("-");
            }
            else if (op == "NewRNG")
            {
                keep.emplace_back(new ompl::RNG());
                // the local seed and the first draw of the stream it starts
                rets.push_back(std::to_string(keep.back()->getLocalSeed()) + ":" + bits(keep.back()->uniform01()));
            }
            else if (op == "GetSeed")
                rets.push_back(std::to_string(ompl::RNG::getSeed()));
        }
        std::cout << json{{"rets", rets}}.dump() << std::endl;
        return 0;
    }
    if (mode == "stream" && argc > 2)
    {
        vt::Report rep;
        for (auto &sc : vt::readNdjson(argv[2]))
        {
            ompl::RNG a(1);
            for (auto &k : sc["pre"])
                draw(a, k.get<std::string>());
            a.setLocalSeed(7);
            ompl::RNG fresh(7);
            bool ok = a.getLocalSeed() == 7;
            std::string why = ok ? "" : "getLocalSeed() after setLocalSeed";
            for (auto &k : sc["post"])
            {
                ++rep.steps;
                std::string x = draw(a, k.get<std::string>()), y = draw(fresh, k.get<std::string>());
                if (x != y && ok)
                {
                    ok = false;
                    why = "draw '" + k.get<std::string>() + "' after reseeding differs from a fresh generator";
                }
            }
            ++rep.scenarios;
            if (!ok)
                rep.fail(sc, why);
        }
        rep.summary();
        return rep.failures ? 1 : 0;
    }
    fprintf(stderr, "usage: rng seedgen <json> | stream <scenarios>\n");
    return 2;
}
