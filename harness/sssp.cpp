// G01 harness: binds specs/ds/DynamicGraph.tla (contract of the dynamic shortest-path
// structures) to the real classes
//     ompl::DynamicSSSP        (kind "sssp")
//     ompl::LPAstarOnGraph     (kind "lpa": undirected boost graph, driven the way LazyLBTRRT
//                               drives it; kind "lpad": bidirectionalS graph)
//     ompl::AdjacencyList      (kind "adj")
//
//   sssp replay <kind> <graph.ndjson> <shard> <nshards> <edges|-> <pairs|pairs2|-> <walks> <walklen> <pathBudget>
//        spec -> impl: behaviours of the contract's state graph (every edge, every pair of
//        edges, random walks, all paths up to the depth the budget allows) are executed on
//        the real class; after every observed step the complete query battery is issued and
//        compared with the table of admissible answers TLC exported for the state.
//   sssp record <kind> <out.ndjson> <histories> <ops> <maxV>
//        impl -> spec: long random histories on the real class, logged with the answers, for
//        TLC to validate against specs/ds/DynamicGraphTrace.tla
//   sssp scenario <file.json> <out.ndjson>
//        re-executes one operation history (a replay artefact) and logs it as a trace
//
// The real class is driven through one wrapper per kind (apply(op) -> event with the answers),
// shared by all three modes.  A deviation never aborts a scenario: it is filed under a stable
// kind ("lpa:compute:inf-but-reachable:...") with the first history showing it, and the run
// goes on, so one defect does not hide another.
#include "vtrace.h"
#include "ompl/datastructures/DynamicSSSP.h"
#include "ompl/datastructures/LPAstarOnGraph.h"
#include "ompl/datastructures/AdjacencyList.h"
#include <boost/graph/adjacency_list.hpp>
#include <algorithm>
#include <cmath>
#include <limits>
#include <list>
#include <memory>
#include <set>
#include <sys/time.h>

using vt::json;

static const double DINF = std::numeric_limits<double>::infinity();
static const double DMAX = std::numeric_limits<double>::max();

// integer image of a cost for TLC / for comparison with the exported tables:
// -1 = the class's "unreachable" value, -3 = anything that is not a small non-negative integer
static long long enc(double c, double unreachable)
{
    if (c == unreachable)
        return -1;
    if (!(c >= 0) || c != std::floor(c) || c > 2.0e9)
        return -3;
    return (long long)c;
}

// ------------------------------------------------------------------ allocation budget
// LPAstarOnGraph::computeShortestPath builds the path by following parent pointers until nullptr;
// on a parent cycle it push_front()s forever.  To get out of that loop alive (the scenario and the
// object stay usable) the global operator new counts down a budget while a real operation runs
// and throws bad_alloc when it is used up: no structure over <= 12 vertices needs 200000
// allocations in one call.  Anything that loops without allocating is left to the watchdog below.
static long g_allocBudget = -1;  // < 0: unlimited
static void *budgetedAlloc(std::size_t n)
{
    if (g_allocBudget >= 0 && g_allocBudget-- == 0)
    {
        g_allocBudget = -1;
        throw std::bad_alloc();
    }
    void *p = malloc(n ? n : 1);
    if (!p)
        throw std::bad_alloc();
    return p;
}
void *operator new(std::size_t n)
{
    return budgetedAlloc(n);
}
void *operator new[](std::size_t n)
{
    return budgetedAlloc(n);
}
void operator delete(void *p) noexcept
{
    free(p);
}
void operator delete[](void *p) noexcept
{
    free(p);
}
void operator delete(void *p, std::size_t) noexcept
{
    free(p);
}
void operator delete[](void *p, std::size_t) noexcept
{
    free(p);
}
struct AllocBudget
{
    explicit AllocBudget(long n)
    {
        g_allocBudget = n;
    }
    ~AllocBudget()
    {
        g_allocBudget = -1;
    }
};

// ------------------------------------------------------------------ findings and watchdog
struct Findings
{
    std::map<std::string, long> count;
    void add(const std::string &kind, const std::string &why, const json &hist)
    {
        if (count[kind]++ == 0)
            std::cout << "FINDING " << json{{"kind", kind}, {"why", why}, {"scenario", hist}}.dump() << std::endl;
    }
};
static Findings g_find;
static std::map<std::string, long> g_metric;
static std::string g_now;          // operation(s) in flight, for the watchdog (record / scenario mode)
static const json *g_hist = nullptr;  // history of the scenario in flight (replay mode)

static void onHang(int)
{
    // an operation of a structure over <= 12 vertices used more than 3 s of CPU: endless loop
    if (g_hist)
        g_now = g_hist->dump();  // not async-signal-safe; the process ends here anyway
    if (vt::Trace::current())
    {
        // the operation that does not return is not in the trace yet: name it, so that the trace
        // specification stops here and the history can be re-executed
        vt::Trace::current()->emit(json{{"e", "Hang"}, {"pending", g_now + "]"}});
        vt::Trace::current()->flush();
    }
    const char *p = "HANG ";
    (void)!write(1, p, 5);
    (void)!write(1, g_now.c_str(), g_now.size());
    (void)!write(1, g_hist ? "\n" : "]\n", g_hist ? 1 : 2);
    _exit(71);
}
static void arm(int seconds)
{
    struct itimerval it;
    memset(&it, 0, sizeof it);
    it.it_value.tv_sec = seconds;
    setitimer(ITIMER_VIRTUAL, &it, nullptr);
}
static void disarm()
{
    arm(0);
}
// one scenario / history = one watchdog period; the operations are appended as they are issued
static void beginHistory(int seconds)
{
    g_now = "[";
    arm(seconds);
}

// ------------------------------------------------------------------ DynamicSSSP
struct SsspReal
{
    std::unique_ptr<ompl::DynamicSSSP> d;
    int nv{0};
    static const std::size_t SENTINEL = 777777;

    json observe(json ev)
    {
        json dist = json::array(), par = json::array();
        for (int u = 0; u < nv; ++u)
        {
            dist.push_back(enc(d->getShortestPathCost(u), DINF));
            std::size_t p = d->getShortestPathParent(u);
            par.push_back(p == (std::size_t)-1 ? -1LL : (p < (std::size_t)nv ? (long long)p : -3LL));
        }
        ev["dist"] = dist;
        ev["par"] = par;
        return ev;
    }
    json listed(json ev, const std::list<std::size_t> &aff)
    {
        // the caller's list is appended to, never rewritten: the sentinel must survive
        ev["kept"] = (!aff.empty() && aff.front() == SENTINEL) ? 1 : 0;
        json a = json::array();
        bool first = true;
        for (auto x : aff)
        {
            if (first && x == SENTINEL)
            {
                first = false;
                continue;
            }
            first = false;
            a.push_back(x < (std::size_t)nv ? (long long)x : -3LL);
        }
        ev["aff"] = a;
        return ev;
    }
    // quiet: perform the operation only (unobserved prefix step of a replay scenario)
    json apply(const json &op, bool quiet = false)
    {
        const std::string e = op["e"];
        json ev = quiet ? json::object() : op;
        if (e == "Setup")
        {
            d.reset(new ompl::DynamicSSSP());
            nv = 0;
            return ev;
        }
        if (e == "AddVertex")
        {
            d->addVertex(nv);
            ev["id"] = nv++;
        }
        else if (e == "AddArc")
        {
            std::list<std::size_t> aff{SENTINEL};
            d->addEdge(op["u"].get<std::size_t>(), op["v"].get<std::size_t>(), op["c"].get<double>(),
                       op["col"].get<int>() != 0, aff);
            ev = listed(ev, aff);
        }
        else if (e == "RemoveArc")
        {
            std::list<std::size_t> aff{SENTINEL};
            d->removeEdge(op["u"].get<std::size_t>(), op["v"].get<std::size_t>(), op["col"].get<int>() != 0, aff);
            ev = listed(ev, aff);
        }
        else if (e == "Clear")
        {
            d->clear();
            nv = 0;
        }
        else
            throw std::runtime_error("sssp: unknown operation " + e);
        return quiet ? ev : observe(ev);
    }
};

// ------------------------------------------------------------------ LPAstarOnGraph
struct Heur
{
    std::vector<double> *h;
    double operator()(std::size_t i)
    {
        return i < h->size() ? (*h)[i] : 0.0;
    }
};
using WeightProp = boost::property<boost::edge_weight_t, double>;
using UGraph = boost::adjacency_list<boost::vecS, boost::vecS, boost::undirectedS, std::size_t, WeightProp>;
using DGraph = boost::adjacency_list<boost::vecS, boost::vecS, boost::bidirectionalS, std::size_t, WeightProp>;

template <class G>
struct LpaReal
{
    using Lpa = ompl::LPAstarOnGraph<G, Heur>;
    std::unique_ptr<G> g;
    std::vector<double> h;
    Heur heur{&h};
    std::unique_ptr<Lpa> lpa;
    std::size_t s{0}, t{0};
    int nv{0};
    static constexpr bool directed = std::is_same<G, DGraph>::value;

    LpaReal() = default;
    LpaReal(const LpaReal &) = delete;

    json apply(const json &op, bool quiet = false)
    {
        const std::string e = op["e"];
        json ev = quiet ? json::object() : op;
        if (e == "Setup")
        {
            lpa.reset();
            g.reset(new G());
            h = op["h"].get<std::vector<double>>();
            nv = op["n"];
            h.resize(std::max<std::size_t>(h.size(), nv));
            for (int i = 0; i < nv; ++i)
                boost::add_vertex((std::size_t)i, *g);
            s = op["s"];
            t = op["t"];
            lpa.reset(new Lpa(s, t, *g, heur));
        }
        else if (e == "AddVertex")
        {
            // LazyLBTRRT::addVertex: the graph grows, the search object learns of the vertex lazily
            h.resize(nv + 1);
            h[nv] = op["h"].get<double>();
            boost::add_vertex((std::size_t)nv, *g);
            ev["id"] = nv++;
        }
        else if (e == "AddEdge" || e == "AddArc")
        {
            // LazyLBTRRT::addEdgeLb / addEdgeApx: first the graph, then the search object (both directions)
            std::size_t u = op["u"], v = op["v"];
            double c = op["c"];
            boost::add_edge(u, v, WeightProp(c), *g);
            lpa->insertEdge(u, v, c);
            if (e == "AddEdge")
                lpa->insertEdge(v, u, c);
        }
        else if (e == "RemoveEdge" || e == "RemoveArc")
        {
            // LazyLBTRRT::removeEdgeLb
            std::size_t u = op["u"], v = op["v"];
            boost::remove_edge(u, v, *g);
            lpa->removeEdge(u, v);
            if (e == "RemoveEdge")
                lpa->removeEdge(v, u);
        }
        else if (e == "Compute")
        {
            std::list<std::size_t> path;
            double c = -3;
            try
            {
                AllocBudget budget(200000);
                c = lpa->computeShortestPath(path);
            }
            catch (const std::bad_alloc &)
            {
                // the path grew beyond any bound: parent pointers form a cycle
                path.clear();
                ev["endless"] = 1;
            }
            ev["cost"] = enc(c, DINF);
            json p = json::array();
            for (auto x : path)
                p.push_back(x < (std::size_t)nv ? (long long)x : -3LL);
            ev["path"] = p;
            ev["gt"] = enc((*lpa)(t), DINF);
            if (quiet)
                return ev;
            json gs = json::array();
            for (int i = 0; i < nv; ++i)
                gs.push_back(enc((*lpa)(i), DINF));
            ev["g"] = gs;
        }
        else
            throw std::runtime_error("lpa: unknown operation " + e);
        return ev;
    }
};

// ------------------------------------------------------------------ AdjacencyList
struct AdjReal
{
    std::unique_ptr<ompl::AdjacencyList> a;
    int nv{0};
    bool removed{false};

    json qExists(int u, int v)
    {
        json q{{"q", "exists"}, {"u", u}, {"v", v}, {"r", a->edgeExists(u, v) ? 1 : 0}};
        try
        {
            q["w"] = enc(a->getEdgeWeight(u, v), DINF);
            q["threw"] = 0;
        }
        catch (const std::exception &)
        {
            q["w"] = -1;
            q["threw"] = 1;
        }
        return q;
    }
    json qNbrs(int v)
    {
        std::vector<int> l;
        std::vector<std::pair<int, double>> lw;
        a->getNeighbors(v, l);
        a->getNeighbors(v, lw);
        json jl = json::array(), jw = json::array();
        for (int x : l)
            jl.push_back(x);
        for (auto &x : lw)
            jw.push_back(json::array({x.first, enc(x.second, DINF)}));
        return json{{"q", "nbrs"}, {"v", v}, {"n", a->numNeighbors(v)}, {"l", jl}, {"lw", jw}};
    }
    json qSssp(int s)
    {
        std::vector<int> pred;
        std::vector<double> dist;
        a->dijkstra(s, pred, dist);
        json jd = json::array(), jp = json::array();
        for (int u = 0; u < nv && u < (int)dist.size(); ++u)
        {
            jd.push_back(enc(dist[u], DMAX));
            jp.push_back(pred[u] >= 0 && pred[u] < nv ? pred[u] : -3);
        }
        return json{{"q", "sssp"}, {"s", s}, {"dist", jd}, {"pred", jp}};
    }
    json qPath(int u, int v)
    {
        std::vector<int> p{-7};
        bool r = a->dijkstra(u, v, p);
        json jp = json::array();
        if (r)
            for (int x : p)
                jp.push_back(x >= 0 && x < nv ? x : -3);
        return json{{"q", "path"}, {"u", u}, {"v", v}, {"r", r ? 1 : 0}, {"p", jp}};
    }
    json qComp(int u, int v)
    {
        return json{{"q", "comp"}, {"n", a->numConnectedComponents()}, {"u", u}, {"v", v},
                    {"same", a->inSameComponent(u, v) ? 1 : 0},
                    {"idsame", a->getComponentID(u) == a->getComponentID(v) ? 1 : 0}};
    }
    // full = every query on every vertex / pair; otherwise a random sample
    json observe(json ev, bool full, vt::Rng *rng)
    {
        ev["nv"] = a->numVertices();
        ev["ne"] = a->numEdges();
        ev["vx"] = json::array({a->vertexExists(-1) ? 1 : 0, a->vertexExists(nv) ? 1 : 0,
                                nv > 0 && a->vertexExists(nv - 1) ? 1 : 0});
        json q = json::array();
        if (nv > 0)
        {
            if (full)
            {
                for (int u = 0; u < nv; ++u)
                {
                    q.push_back(qNbrs(u));
                    q.push_back(qSssp(u));
                    for (int v = 0; v < nv; ++v)
                    {
                        q.push_back(qExists(u, v));
                        q.push_back(qPath(u, v));
                        if (!removed)
                            q.push_back(qComp(u, v));
                    }
                }
            }
            else
            {
                int u = rng->below(nv), v = rng->below(nv), x = rng->below(nv), y = rng->below(nv);
                q.push_back(qNbrs(u));
                q.push_back(qSssp(v));
                q.push_back(qExists(u, v));
                q.push_back(qExists(x, y));
                q.push_back(qPath(x, y));
                q.push_back(qPath(y, u));
                if (!removed)
                    q.push_back(qComp(x, v));
            }
        }
        ev["q"] = q;
        return ev;
    }
    json apply(const json &op, bool full = true, vt::Rng *rng = nullptr)
    {
        const std::string e = op["e"];
        json ev = op;
        if (e == "Setup")
        {
            a.reset(new ompl::AdjacencyList());
            nv = 0;
            removed = false;
            return ev;
        }
        if (e == "AddVertex")
        {
            ev["id"] = a->addVertex();
            ++nv;
        }
        else if (e == "AdjAddEdge")
            ev["ret"] = a->addEdge(op["u"], op["v"], op["c"].get<double>()) ? 1 : 0;
        else if (e == "AdjRemoveEdge")
        {
            bool r = a->removeEdge(op["u"], op["v"]);
            removed = removed || r;
            ev["ret"] = r ? 1 : 0;
        }
        else if (e == "AdjSetWeight")
            ev["ret"] = a->setEdgeWeight(op["u"], op["v"], op["c"].get<double>()) ? 1 : 0;
        else if (e == "Clear")
        {
            a->clear();
            nv = 0;
            removed = false;
        }
        else
            throw std::runtime_error("adj: unknown operation " + e);
        return observe(ev, full, rng);
    }
};

// ------------------------------------------------------------------ replay drivers (spec -> impl)
// Judging uses nothing but the tables TLC exported for the destination state (exp).
struct DriverBase
{
    json hist = json::array();
    std::string err;
    const json *lastExp{nullptr};
    DriverBase()
    {
        beginHistory(3);
        g_hist = &hist;
    }
    DriverBase(const DriverBase &) = delete;
    ~DriverBase()
    {
        g_hist = nullptr;
        disarm();  // the watchdog covers scenarios only (not e.g. the leak check at exit)
    }
    void file(const std::string &kind, const std::string &why)
    {
        g_find.add(kind, why, hist);
    }
    static json opOf(const vt::Edge &e)
    {
        json op = e.args.is_object() ? e.args : json::object();
        op["e"] = e.a;
        return op;
    }
    static bool contains(const json &arr, long long x)
    {
        for (auto &y : arr)
            if (y.get<long long>() == x)
                return true;
        return false;
    }
    // path given as json array of vertex ids; w = exported weight matrix; returns cost or -1 (not a path)
    static long long pathCost(const json &p, const json &w)
    {
        long long c = 0;
        for (std::size_t i = 0; i < p.size(); ++i)
        {
            long long x = p[i].get<long long>();
            if (x < 0 || x >= (long long)w.size())
                return -1;
            if (i + 1 < p.size())
            {
                long long y = p[i + 1].get<long long>();
                if (y < 0 || y >= (long long)w.size() || w[x][y].get<long long>() < 0)
                    return -1;
                c += w[x][y].get<long long>();
            }
        }
        return c;
    }
};

struct SsspDriver : DriverBase
{
    SsspReal real;
    long n{0};
    bool step(const vt::Edge &e, bool obs)
    {
        json op = opOf(e);
        if (e.a == "Setup")
            op["s"] = 0;
        // LBTRRT passes collectVertices=false for tree edges and true in considerEdge
        op["col"] = (++n % 4 == 0) ? 0 : 1;
        hist.push_back(std::move(op));
        json ev = real.apply(hist.back(), !obs);
        if (obs && e.a != "Setup")
            judge(e, ev);
        return true;
    }
    void judge(const vt::Edge &e, const json &ev)
    {
        const json &x = e.exp;
        const std::string after = ":after-" + e.a;
        const json &dist = ev["dist"], &par = ev["par"];
        if ((long)dist.size() != x["nv"].get<long>())
            return file("sssp:vertex-count" + after, "structure answers for a different number of vertices");
        for (std::size_t u = 0; u < dist.size(); ++u)
        {
            long long got = dist[u], want = x["dist"][u];
            if (got != want)
            {
                std::string k = want == -1 ? "finite-though-unreachable" :
                                got == -1 ? "inf-though-reachable" :
                                got == -3 ? "garbage" : got < want ? "too-low" : "too-high";
                file("sssp:cost-" + k + after, "getShortestPathCost(" + std::to_string(u) + ") = " + std::to_string(got) +
                                                   ", contract says " + std::to_string(want) + " (-1 = infinity)");
                continue;
            }
            long long p = par[u];
            if (u == 0)
            {
                if (p != -1)
                    file("sssp:source-has-parent" + after, "getShortestPathParent(0) = " + std::to_string(p));
            }
            else if (want >= 0)
            {
                if (!contains(x["par"][u], p))
                    file("sssp:parent-not-on-a-shortest-path" + after,
                         "getShortestPathParent(" + std::to_string(u) + ") = " + std::to_string(p) + ", admissible: " +
                             x["par"][u].dump());
            }
            else if (p != -1)
                ++g_metric["sssp_unreachable_vertex_keeps_stale_parent"];
        }
        if (ev.contains("aff"))
        {
            if (ev["kept"].get<int>() != 1)
                file("sssp:affected-list-rewritten" + after, "the caller's list lost its first element");
            if (ev["col"].get<int>() == 0)
            {
                if (!ev["aff"].empty())
                    file("sssp:affected-listed-without-collect" + after, "vertices reported although collectVertices is false");
            }
            else
            {
                for (auto &v : ev["aff"])
                    if (v.get<long long>() < 0)
                        file("sssp:affected-invalid-id" + after, "affected list names a vertex that does not exist");
                for (auto &c : x["chg"])
                    if (!contains(ev["aff"], c.get<long long>()))
                        file("sssp:affected-misses-changed-vertex" + after,
                             "cost of vertex " + c.dump() + " changed (to a finite value) but it is not reported; reported: " +
                                 ev["aff"].dump());
                for (auto &c : x["lost"])
                    if (!contains(ev["aff"], c.get<long long>()))
                        ++g_metric["sssp_vertex_became_unreachable_and_is_not_listed"];
                if (!x["chg"].empty())
                    ++g_metric["sssp_steps_changing_a_cost"];
            }
        }
    }
    bool finish()
    {
        return true;
    }
};

template <class G>
struct LpaDriver : DriverBase
{
    LpaReal<G> real;
    bool step(const vt::Edge &e, bool obs)
    {
        json op = opOf(e);
        if (e.a == "Setup")
        {
            op["s"] = op["source"];
            op["t"] = op["target"];
        }
        hist.push_back(std::move(op));
        json ev = real.apply(hist.back(), !obs);
        lastExp = &e.exp;
        if (e.a == "Compute" && obs)
            track(ev);
        else if (e.a == "Compute")
            lastG = json();
        if (obs && e.a == "Compute")
            judge(ev, "");
        return true;
    }
    // which kinds of search happened on the real object (vacuity): a g-value lowered = a head was
    // expanded as overconsistent, raised = as underconsistent
    json lastG;
    void track(const json &ev)
    {
        const json &gs = ev["g"];
        if (lastG.is_array() && lastG.size() == gs.size())
        {
            bool up = false, down = false;
            for (std::size_t i = 0; i < gs.size(); ++i)
            {
                long long a = lastG[i], b = gs[i];
                a = a < 0 ? (1LL << 40) : a;
                b = b < 0 ? (1LL << 40) : b;
                up = up || b > a;
                down = down || b < a;
            }
            if (up)
                ++g_metric["lpa_g_raised_by_a_search"];
            if (down)
                ++g_metric["lpa_g_lowered_by_a_search"];
            if (up && down)
                ++g_metric["lpa_search_raising_and_lowering"];
        }
        else if (gs.is_array())
            ++g_metric["lpa_g_lowered_by_a_search"];
        lastG = gs;
        if (ev["cost"].get<long long>() == -1)
            ++g_metric["lpa_search_answering_unreachable"];
    }
    void judge(const json &ev, const std::string &when)
    {
        const json &x = *lastExp;
        long long got = ev["cost"], want = x["cost"], gt = ev["gt"];
        const json &p = ev["path"];
        const std::string pre = real.directed ? "lpad:compute:" : "lpa:compute:";
        ++g_metric["lpa_computes_judged"];
        if (ev.contains("endless"))
            return file(pre + "endless-loop" + when, "computeShortestPath does not return: following the parent pointers from the "
                                                     "target never reaches nullptr (stopped after 200000 path elements)");
        if (got != want)
        {
            std::string k = want == -1 ? "finite-though-unreachable" :
                            got == -1 ? (gt == want ? "inf-but-reachable:g(target)-is-right" : "inf-but-reachable") :
                            got == -3 ? "garbage" : got < want ? "cost-too-low" : "cost-too-high";
            return file(pre + k + when, "computeShortestPath returned " + std::to_string(got) + ", contract says " +
                                            std::to_string(want) + " (-1 = infinity); path " + p.dump() +
                                            ", operator()(target) = " + std::to_string(gt));
        }
        if (want == -1)
        {
            if (!p.empty())
                file(pre + "path-though-unreachable" + when, "path " + p.dump() + " returned with infinite cost");
            return;
        }
        if (p.empty() || p.front().get<long long>() != (long long)real.s || p.back().get<long long>() != (long long)real.t)
            return file(pre + "path-endpoints" + when, "path " + p.dump() + " does not lead from source to target");
        long long pc = pathCost(p, x["w"]);
        if (pc < 0)
            return file(pre + "path-uses-missing-edge" + when, "path " + p.dump() + " is not a path of the graph");
        if (pc != want)
            return file(pre + "path-cost-differs" + when, "path " + p.dump() + " costs " + std::to_string(pc) +
                                                            ", returned cost " + std::to_string(got));
        if (gt != want)
            file(pre + "g(target)-differs" + when, "operator()(target) = " + std::to_string(gt) + " after a search that returned " +
                                                      std::to_string(got));
        // drift metric only: g of the vertices on the returned path against the exported distances
        for (auto &v : p)
            if (ev["g"][v.get<std::size_t>()] != x["dist"][v.get<std::size_t>()])
                ++g_metric["lpa_g_on_path_differs_from_distance"];
    }
    // end-of-scenario check: whatever batch of changes the scenario ended with, a search now is right
    bool finish()
    {
        if (!lastExp || !real.lpa)
            return true;
        hist.push_back(json{{"e", "Compute"}});
        json ev = real.apply(hist.back());
        judge(ev, "");
        return true;
    }
};

struct AdjDriver : DriverBase
{
    AdjReal real;
    bool step(const vt::Edge &e, bool obs)
    {
        json op = opOf(e);
        hist.push_back(std::move(op));
        const json &o = hist.back();
        // unobserved prefix steps skip the (quadratic) battery
        json ev = (e.a == "Setup" || obs) ? real.apply(o, true, nullptr) : applyQuiet(o);
        if (obs && e.a != "Setup")
            judge(e, ev);
        return true;
    }
    json applyQuiet(const json &op)
    {
        const std::string e = op["e"];
        if (e == "AddVertex")
        {
            real.a->addVertex();
            ++real.nv;
        }
        else if (e == "AdjAddEdge")
            real.a->addEdge(op["u"], op["v"], op["c"].get<double>());
        else if (e == "AdjRemoveEdge")
            real.removed = real.a->removeEdge(op["u"], op["v"]) || real.removed;
        else if (e == "AdjSetWeight")
            real.a->setEdgeWeight(op["u"], op["v"], op["c"].get<double>());
        else if (e == "Clear")
        {
            real.a->clear();
            real.nv = 0;
            real.removed = false;
        }
        return json::object();
    }
    void judge(const vt::Edge &e, const json &ev)
    {
        const json &x = e.exp;
        const json &w = x["w"];
        const std::string after = ":after-" + e.a;
        const long n = x["nv"];
        if (ev.contains("ret") && ev["ret"] != x["ret"])
            file("adj:return-value:" + e.a, e.a + " returned " + ev["ret"].dump() + ", contract says " + x["ret"].dump());
        if (e.a == "AddVertex" && ev["id"] != x["ret"])
            file("adj:addVertex-id", "addVertex() returned " + ev["id"].dump() + " for vertex " + x["ret"].dump());
        if (ev["nv"].get<long>() != n)
            return file("adj:numVertices" + after, "numVertices() = " + ev["nv"].dump() + ", contract says " + std::to_string(n));
        if (ev["ne"].get<long>() * 2 != x["ne"].get<long>())
            file("adj:numEdges" + after, "numEdges() = " + ev["ne"].dump() + ", contract has " + x["ne"].dump() + " arcs");
        if (ev["vx"] != json::array({0, 0, n > 0 ? 1 : 0}))
            file("adj:vertexExists" + after, "vertexExists(-1), (n), (n-1) = " + ev["vx"].dump());
        for (auto &q : ev["q"])
        {
            const std::string k = q["q"];
            if (k == "exists")
            {
                long long ww = w[q["u"].get<int>()][q["v"].get<int>()];
                if (q["r"].get<int>() != (ww >= 0 ? 1 : 0))
                    file("adj:edgeExists" + after, "edgeExists" + q.dump() + ", contract weight " + std::to_string(ww));
                if (ww >= 0 ? (q["threw"] != 0 || q["w"].get<long long>() != ww) : q["threw"] != 1)
                    file("adj:getEdgeWeight" + after, "getEdgeWeight" + q.dump() + ", contract weight " + std::to_string(ww) +
                                                          " (-1: must throw)");
            }
            else if (k == "nbrs")
            {
                int v = q["v"];
                std::set<long long> want, got;
                std::set<std::pair<long long, long long>> wantw, gotw;
                for (long u = 0; u < n; ++u)
                    if (w[v][u].get<long long>() >= 0)
                    {
                        want.insert(u);
                        wantw.insert({u, w[v][u].get<long long>()});
                    }
                for (auto &y : q["l"])
                    got.insert(y.get<long long>());
                for (auto &y : q["lw"])
                    gotw.insert({y[0].get<long long>(), y[1].get<long long>()});
                if (q["n"].get<long>() != (long)want.size() || got != want || q["l"].size() != want.size() || gotw != wantw ||
                    q["lw"].size() != want.size())
                    file("adj:neighbors" + after, "neighbours of " + std::to_string(v) + ": " + q.dump());
            }
            else if (k == "sssp")
            {
                int s = q["s"];
                const json &row = x["apd"][s];
                if ((long)q["dist"].size() != n)
                    file("adj:dijkstra-size" + after, "distance vector has the wrong length");
                for (long u = 0; u < n && u < (long)q["dist"].size(); ++u)
                {
                    long long got = q["dist"][u], want = row[u], pr = q["pred"][u];
                    if (got != want)
                    {
                        file("adj:dijkstra-distance" + after, "dijkstra(" + std::to_string(s) + ") distance of " + std::to_string(u) +
                                                                  " = " + std::to_string(got) + ", contract says " + std::to_string(want) +
                                                                  " (-1 = double max)");
                        continue;
                    }
                    if (u == s || want == -1)
                    {
                        if (pr != u)
                            file("adj:dijkstra-predecessor-of-unreached" + after, "predecessor of " + std::to_string(u) + " is " +
                                                                                      std::to_string(pr) + ", must be itself");
                    }
                    else if (pr < 0 || w[pr][u].get<long long>() < 0 || row[pr].get<long long>() < 0 ||
                             row[pr].get<long long>() + w[pr][u].get<long long>() != want)
                        file("adj:dijkstra-predecessor-not-on-a-shortest-path" + after,
                             "dijkstra(" + std::to_string(s) + ") predecessor of " + std::to_string(u) + " is " + std::to_string(pr));
                }
            }
            else if (k == "path")
            {
                int u = q["u"], v = q["v"];
                long long want = x["apd"][u][v];
                if (q["r"].get<int>() != (want >= 0 ? 1 : 0))
                    file("adj:dijkstra-path-found" + after, "dijkstra" + q.dump() + ", contract distance " + std::to_string(want));
                else if (want >= 0)
                {
                    const json &p = q["p"];
                    if (p.empty() || p.front() != u || p.back() != v || pathCost(p, w) != want)
                        file("adj:dijkstra-path" + after, "dijkstra" + q.dump() + " is not a shortest path (distance " +
                                                              std::to_string(want) + ")");
                }
            }
            else if (k == "comp")
            {
                int u = q["u"], v = q["v"];
                int same = x["apd"][u][v].get<long long>() >= 0 ? 1 : 0;
                if (q["n"] != x["comp"])
                    file("adj:numConnectedComponents" + after, "numConnectedComponents() = " + q["n"].dump() + ", contract says " +
                                                                   x["comp"].dump());
                if (q["same"].get<int>() != same || q["idsame"].get<int>() != same)
                    file("adj:inSameComponent" + after, "component query " + q.dump() + ", contract says " + std::to_string(same));
            }
        }
    }
    bool finish()
    {
        return true;
    }
};

// ------------------------------------------------------------------ walking the state graph
static int g_shard = 0, g_nshards = 1;

// number of paths of length <= depth from the root
static double countPaths(const vt::Graph &g, int depth)
{
    std::vector<double> ways(g.nStates, 0.0), next;
    ways[0] = 1;
    double total = 0;
    for (int k = 0; k < depth; ++k)
    {
        next.assign(g.nStates, 0.0);
        for (auto &e : g.edges)
            next[e.d] += ways[e.s];
        ways.swap(next);
        for (double w : ways)
            total += w;
    }
    return total;
}

template <class D>
static void replayGraph(const vt::Graph &g, vt::Report &rep, bool edges, int pairs, long walks, int walklen, double pathBudget,
                        json &extra)
{
    auto make = []() { return D(); };
    const vt::Edge *base = g.edges.data();
    if (edges && g_nshards == 1)
        vt::walkEveryEdge<D>(g, rep, make);
    else if (edges)
    {
        // vt::walkEveryEdge, this shard's share
        for (std::size_t i = g_shard; i < g.edges.size(); i += g_nshards)
        {
            std::vector<int> path = g.pathTo(g.edges[i].s);
            path.push_back((int)i);
            vt::runScenario<D>(g, path, path.size() - 1, rep, make);
        }
    }
    // pairs == 2: only pairs whose second step removes, overwrites, clears or searches (quick tier)
    if (pairs)
        vt::walkEveryPair<D>(g, rep, make, [&](const vt::Edge &e) {
            if (pairs == 2 && (e.a == "AddArc" || e.a == "AddEdge" || e.a == "AdjAddEdge" || e.a == "AddVertex"))
                return false;
            return (&e - base) % g_nshards == g_shard;
        });
    if (walks > 0)
        vt::walkRandom<D>(g, rep, make, walks / g_nshards + 1, walklen, vt::envSeed() * 1000 + g_shard);
    if (pathBudget > 0)
    {
        int depth = 1;
        while (depth < 12 && countPaths(g, depth + 1) <= pathBudget)
            ++depth;
        extra["all_paths_depth"] = depth;
        // shard on the second step of the path (the first is always Setup)
        std::vector<int> second(g.edges.size(), -1);
        int k = 0;
        for (int e1 : g.out[0])
            for (int e2 : g.out[g.edges[e1].d])
                if (second[e2] < 0)
                    second[e2] = k++;
        long before = rep.scenarios;
        if (g_nshards == 1)
            vt::walkAllPaths<D>(g, rep, make, depth, [](const vt::Edge &) { return true; });
        else
        {
            // same enumeration as vt::walkAllPaths, split between the shards at the second step
            std::vector<int> path;
            std::function<void(int)> rec = [&](int s) {
                if ((int)path.size() == depth)
                    return;
                for (int e : g.out[s])
                {
                    if (path.size() == 1 && second[e] % g_nshards != g_shard)
                        continue;
                    path.push_back(e);
                    if (path.size() >= 2 || g_shard == 0)
                        vt::runScenario<D>(g, path, path.size() - 1, rep, make);
                    rec(g.edges[e].d);
                    path.pop_back();
                }
            };
            rec(0);
        }
        extra["all_paths_scenarios"] = rep.scenarios - before;
    }
}

// ------------------------------------------------------------------ recording (impl -> spec)
// remember the operation in flight for the watchdog
template <class R, class... A>
static json doOp(R &real, const json &op, A... a)
{
    g_now = "[" + op.dump();
    return real.apply(op, a...);
}

struct SlotWeights
{
    // weight = base * 2^20 + 2^slot with a slot no other live arc uses: the cost of a path
    // determines its set of arcs, so no two distinct paths have the same cost (the assumption
    // DynamicSSSP documents)
    std::vector<int> freeSlots;
    SlotWeights()
    {
        for (int i = 19; i >= 0; --i)
            freeSlots.push_back(i);
    }
};

static void recordSssp(vt::Trace &tr, vt::Rng &rng, int ops, int maxV)
{
    SsspReal real;
    tr.emit(doOp(real, json{{"e", "Setup"}, {"k", "sssp"}, {"n", 0}, {"s", 0}, {"t", 0}, {"h", json::array()}}));
    SlotWeights sw;
    std::map<std::pair<int, int>, std::vector<std::pair<int, long long>>> arcs;  // arc -> (slot, weight) of each parallel copy
    auto addV = [&]() { tr.emit(doOp(real, json{{"e", "AddVertex"}})); };
    addV();
    addV();
    for (int i = 0; i < ops; ++i)
    {
        int r = rng.below(100);
        int n = real.nv;
        int col = rng.below(4) ? 1 : 0;
        if (n < 2 || (r < 12 && n < maxV))
        {
            addV();
            if (n >= 1)
            {
                // LBTRRT: a new vertex arrives with its tree edge (collectVertices = false)
                int u = rng.below(n);
                if (!sw.freeSlots.empty())
                {
                    int slot = sw.freeSlots.back();
                    sw.freeSlots.pop_back();
                    long long c = (1 + rng.below(15)) * (1LL << 20) + (1LL << slot);
                    arcs[{u, n}].push_back({slot, c});
                    tr.emit(doOp(real, json{{"e", "AddArc"}, {"u", u}, {"v", n}, {"c", c}, {"col", 0}}));
                }
            }
        }
        else if (r < 55)
        {
            int u = rng.below(n), v = rng.below(n);
            if (u == v)
                continue;
            auto it = arcs.find({u, v});
            if (it != arcs.end() && rng.below(3) == 0)
            {
                // the same edge again with the same weight (LBTRRT reconsiders the tree edge)
                long long c = it->second[0].second;
                tr.emit(doOp(real, json{{"e", "AddArc"}, {"u", u}, {"v", v}, {"c", c}, {"col", col}}));
                continue;
            }
            if (sw.freeSlots.empty())
                continue;
            int slot = sw.freeSlots.back();
            sw.freeSlots.pop_back();
            long long c = (1 + rng.below(15)) * (1LL << 20) + (1LL << slot);
            arcs[{u, v}].push_back({slot, c});
            tr.emit(doOp(real, json{{"e", "AddArc"}, {"u", u}, {"v", v}, {"c", c}, {"col", col}}));
        }
        else if (r < 97)
        {
            int u, v;
            int how = rng.below(10);
            if (how < 5 && n > 1)
            {
                // an edge of the current shortest-path tree
                v = 1 + rng.below(n - 1);
                std::size_t p = real.d->getShortestPathParent(v);
                if (p == (std::size_t)-1 || real.d->getShortestPathCost(v) == DINF)
                    continue;
                u = (int)p;
            }
            else if (how < 9 && !arcs.empty())
            {
                auto it = arcs.begin();
                std::advance(it, rng.below((int)arcs.size()));
                u = it->first.first;
                v = it->first.second;
            }
            else
            {
                u = rng.below(n);
                v = rng.below(n);
                if (u == v)
                    continue;
            }
            auto it = arcs.find({u, v});
            if (it != arcs.end())
            {
                for (auto &sl : it->second)
                    sw.freeSlots.push_back(sl.first);
                arcs.erase(it);
            }
            tr.emit(doOp(real, json{{"e", "RemoveArc"}, {"u", u}, {"v", v}, {"col", col}}));
        }
        else if (r < 98)
        {
            tr.emit(doOp(real, json{{"e", "Clear"}}));
            arcs.clear();
            sw = SlotWeights();
            addV();
        }
    }
}

template <class G>
static void recordLpa(vt::Trace &tr, vt::Rng &rng, int ops, int maxV, int variant)
{
    LpaReal<G> real;
    const bool directed = real.directed;
    // vertices sit on a line; the heuristic is the distance to the target along the line (or zero, or
    // half of it) and every weight is at least the distance of its end points: consistent
    std::vector<int> pos;
    int n0 = 2 + rng.below(3);
    for (int i = 0; i < n0; ++i)
        pos.push_back(rng.below(9));
    int s = 0, t = 1 + rng.below(n0 - 1);
    auto hOf = [&](int v) {
        int dd = std::abs(pos[v] - pos[t]);
        return variant % 3 == 0 ? 0 : variant % 3 == 1 ? dd : dd / 2;
    };
    json h = json::array();
    for (int i = 0; i < n0; ++i)
        h.push_back(hOf(i));
    tr.emit(doOp(real, json{{"e", "Setup"}, {"k", directed ? "lpad" : "lpa"}, {"n", n0}, {"s", s}, {"t", t}, {"h", h}}));
    std::set<std::pair<int, int>> edges;
    std::vector<long long> lastPath;
    bool mustCompute = false;
    for (int i = 0; i < ops; ++i)
    {
        int n = real.nv;
        int r = mustCompute ? 99 : rng.below(100);
        if (r < 8 && n < maxV)
        {
            pos.push_back(rng.below(9));
            tr.emit(doOp(real, json{{"e", "AddVertex"}, {"h", hOf(n)}}));
        }
        else if (r < 50)
        {
            int u = rng.below(n), v = rng.below(n);
            if (u == v || edges.count({u, v}) || (!directed && edges.count({v, u})))
                continue;
            int c = std::max(1, std::abs(pos[u] - pos[v]) + (rng.below(3) ? rng.below(3) : rng.below(8)));
            edges.insert({u, v});
            tr.emit(doOp(real, json{{"e", directed ? "AddArc" : "AddEdge"}, {"u", u}, {"v", v}, {"c", c}}));
        }
        else if (r < 70)
        {
            if (edges.empty())
                continue;
            int u = -1, v = -1;
            if (lastPath.size() >= 2 && rng.below(3))
            {
                // LazyLBTRRT::closeBounds: an edge of the last reported path turned out invalid
                int k = rng.below((int)lastPath.size() - 1);
                u = (int)lastPath[k];
                v = (int)lastPath[k + 1];
                if (!edges.count({u, v}))
                    std::swap(u, v);
                if (!edges.count({u, v}))
                    u = -1;
            }
            if (u < 0)
            {
                auto it = edges.begin();
                std::advance(it, rng.below((int)edges.size()));
                u = it->first;
                v = it->second;
            }
            edges.erase({u, v});
            if (!directed && rng.below(2))
                std::swap(u, v);
            tr.emit(doOp(real, json{{"e", directed ? "RemoveArc" : "RemoveEdge"}, {"u", u}, {"v", v}}));
            // in the planner a removal is always followed by a search; keep that most of the time
            mustCompute = rng.below(4) != 0;
        }
        else
        {
            json ev = doOp(real, json{{"e", "Compute"}});
            lastPath = ev["path"].get<std::vector<long long>>();
            tr.emit(ev);
            mustCompute = false;
        }
    }
    tr.emit(doOp(real, json{{"e", "Compute"}}));
}

static void recordAdj(vt::Trace &tr, vt::Rng &rng, int ops, int maxV)
{
    AdjReal real;
    tr.emit(doOp(real, json{{"e", "Setup"}, {"k", "adj"}, {"n", 0}, {"s", 0}, {"t", 0}, {"h", json::array()}}));
    std::set<std::pair<int, int>> edges;
    for (int i = 0; i < ops; ++i)
    {
        int n = real.nv;
        int r = rng.below(100);
        if (n < 2 || (r < 10 && n < maxV))
            tr.emit(doOp(real, json{{"e", "AddVertex"}}, false, &rng));
        else if (r < 55)
        {
            int u = rng.below(n), v = rng.below(n);
            int c = rng.below(5) == 0 ? 0 : rng.below(30);
            json ev = doOp(real, json{{"e", "AdjAddEdge"}, {"u", u}, {"v", v}, {"c", c}}, false, &rng);
            if (ev["ret"] == 1)
                edges.insert({std::min(u, v), std::max(u, v)});
            tr.emit(ev);
        }
        else if (r < 75)
        {
            int u = rng.below(n), v = rng.below(n);
            if (!edges.empty() && rng.below(4))
            {
                auto it = edges.begin();
                std::advance(it, rng.below((int)edges.size()));
                u = it->first;
                v = it->second;
                if (rng.below(2))
                    std::swap(u, v);
            }
            // keep the component queries alive for a while: removals only in the second half
            if (i < ops / 2 && rng.below(8))
                continue;
            edges.erase({std::min(u, v), std::max(u, v)});
            tr.emit(doOp(real, json{{"e", "AdjRemoveEdge"}, {"u", u}, {"v", v}}, false, &rng));
        }
        else if (r < 97)
        {
            int u = rng.below(n), v = rng.below(n);
            if (!edges.empty() && rng.below(5))
            {
                auto it = edges.begin();
                std::advance(it, rng.below((int)edges.size()));
                u = it->first;
                v = it->second;
                if (rng.below(2))
                    std::swap(u, v);
            }
            tr.emit(doOp(real, json{{"e", "AdjSetWeight"}, {"u", u}, {"v", v}, {"c", rng.below(30)}}, false, &rng));
        }
        else if (r < 98)
        {
            tr.emit(doOp(real, json{{"e", "Clear"}}, false, &rng));
            edges.clear();
        }
    }
}

// ------------------------------------------------------------------ main
template <class D>
static int replayMain(const vt::Graph &g, char **argv)
{
    vt::Report rep;
    json extra{{"edges", g.edges.size()}, {"states", g.nStates}};
    replayGraph<D>(g, rep, std::string(argv[6]) == "edges", std::string(argv[7]) == "pairs" ? 1 : std::string(argv[7]) == "pairs2" ? 2 : 0, atol(argv[8]), atoi(argv[9]),
                   atof(argv[10]), extra);
    json f = json::object();
    for (auto &c : g_find.count)
        f[c.first] = c.second;
    extra["findings"] = f;
    json m = json::object();
    for (auto &c : g_metric)
        m[c.first] = c.second;
    extra["metrics"] = m;
    rep.summary(extra);
    return 0;
}

int main(int argc, char **argv)
{
    vt::installCrashHandlers();
    signal(SIGVTALRM, onHang);
    std::string mode = argc > 1 ? argv[1] : "";
    if (mode == "replay" && argc > 10)
    {
        std::string kind = argv[2];
        vt::Graph g(argv[3]);
        g_shard = atoi(argv[4]);
        g_nshards = std::max(1, atoi(argv[5]));
        if (kind == "sssp")
            return replayMain<SsspDriver>(g, argv);
        if (kind == "lpa")
            return replayMain<LpaDriver<UGraph>>(g, argv);
        if (kind == "lpad")
            return replayMain<LpaDriver<DGraph>>(g, argv);
        if (kind == "adj")
            return replayMain<AdjDriver>(g, argv);
    }
    if (mode == "record" && argc > 6)
    {
        std::string kind = argv[2];
        vt::Trace tr(argv[3]);
        int histories = atoi(argv[4]), ops = atoi(argv[5]), maxV = atoi(argv[6]);
        for (int k = 0; k < histories; ++k)
        {
            vt::Rng rng(vt::envSeed() * 7919 + k);
            arm(30);
            int mv = 3 + (k * 5) % std::max(1, maxV - 2);  // small and large graphs alternate
            if (kind == "sssp")
                recordSssp(tr, rng, ops, mv);
            else if (kind == "lpa")
                recordLpa<UGraph>(tr, rng, ops, mv, k);
            else if (kind == "lpad")
                recordLpa<DGraph>(tr, rng, ops, mv, k);
            else if (kind == "adj")
                recordAdj(tr, rng, ops, mv);
            disarm();
        }
        std::cout << "RECORDED " << tr.count() << std::endl;
        return 0;
    }
    if (mode == "scenario" && argc > 3)
    {
        std::ifstream in(argv[2]);
        json sc = json::parse(in);
        json ops = sc.contains("scenario") ? sc["scenario"] : sc;
        vt::Trace tr(argv[3]);
        std::string kind = ops.at(0).value("k", ops.at(0).value("kind", "sssp"));
        SsspReal rs;
        LpaReal<UGraph> ru;
        LpaReal<DGraph> rd;
        AdjReal ra;
        json hist = json::array();
        for (auto op : ops)
        {
            if (op.contains("a"))
            {
                json o = op["args"].is_object() ? op["args"] : json::object();
                o["e"] = op["a"];
                op = o;
            }
            if (op["e"] == "Setup")
            {
                op["k"] = kind;
                if (!op.contains("s"))
                    op["s"] = op.value("source", 0);
                if (!op.contains("t"))
                    op["t"] = op.value("target", 0);
                if (!op.contains("n"))
                    op["n"] = 0;
                if (!op.contains("h"))
                    op["h"] = json::array();
            }
            if (kind == "sssp" && !op.contains("col"))
                op["col"] = 1;
            hist.push_back(op);
            arm(5);
            g_now = "[" + op.dump();
            json ev = kind == "sssp" ? rs.apply(op) : kind == "lpa" ? ru.apply(op) : kind == "lpad" ? rd.apply(op) : ra.apply(op);
            disarm();
            tr.emit(ev);
            std::cout << ev.dump() << std::endl;
        }
        return 0;
    }
    fprintf(stderr, "usage: sssp replay <kind> <graph> <shard> <nshards> <edges|-> <pairs|-> <walks> <walklen> <pathBudget>\n"
                    "       sssp record <kind> <out> <histories> <ops> <maxV>\n"
                    "       sssp scenario <file.json> <out.ndjson>\n");
    return 2;
}

// AdjacencyList lives in libompl; it is compiled into the harness instead (no library build, the
// sanitizers see it, and source mutations of the .cpp are picked up).  Last, because the file
// defines macros named like members of the other two classes.
#include "ompl/datastructures/src/AdjacencyList.cpp"
