// C14 - turning one pose pair into the three recorded events (Dubins, symmetrised Dubins,
// Reeds-Shepp).  Every number enters the trace as a 32-bit fixed-point integer in units of
// 1e-8 * rho * max(1, d)  (d = straight-line distance / rho), headings in 1e-8 rad.
#pragma once
#include "c14_observe.h"
#include <array>

namespace c14
{
    static const double UNIT = 1e8;
    static const long long CAP = 1990000000LL;

    struct Scale
    {
        double sc;
        bool overflow{false};
        long long U(LD x)
        {
            if (!std::isfinite((double)x))
            {
                overflow = true;
                return CAP;
            }
            LD v = x / sc * UNIT;
            if (fabsl(v) >= CAP)
            {
                overflow = true;
                return v > 0 ? CAP : -CAP;
            }
            return llroundl(v);
        }
        static long long A(LD rad)  // heading error, 1e-8 rad
        {
            LD v = fabsl(rad) * UNIT;
            return v >= CAP ? CAP : llroundl(v);
        }
    };

    struct Meta
    {
        std::string fam;   // family the pair was generated for
        std::string bnd;   // decision node straddled ("" if none)
        int off{0};        // signed index of the offset from the boundary
        int qa{-1}, qb{-1}, ulp{0};
    };

    // statistics the measuring mode and the summaries aggregate (normalised units, not fixed point)
    struct Stat
    {
        std::map<std::string, LD> mx;
        std::map<std::string, long> n;
        std::map<std::string, std::string> where;
        const std::string *cur{nullptr};   // repro text of the pair being observed
        void see(const std::string &k, LD v)
        {
            LD a = fabsl(v);
            auto it = mx.find(k);
            if (it == mx.end() || a > it->second)
            {
                mx[k] = a;
                if (cur)
                    where[k] = *cur;
            }
            ++n[k];
            for (int i = 0; i < 4; ++i)
                if (a > THRESH[i])
                    ++big[k][i];
        }
        static constexpr double THRESH[4] = {1e-9, 1e-7, 1e-5, 1e-3};
        std::map<std::string, std::array<long, 4>> big;  // how many observations exceeded each threshold
    };

    inline int signOf(double v, double eps)
    {
        return v > eps ? 1 : v < -eps ? -1 : 0;
    }

    // oracle envelope of the six-word optimum over the library's documented input resolution
    struct Envelope
    {
        LD opt, lo, hi;
        int best;
    };
    // The targets within `delta` of the stated one: position moved by 0 / +-delta * rho along x and y, heading by
    // 0 / +-delta (27 targets).  delta = 2e-6 is the resolution the library documents for itself (DUBINS_EPS = 1e-6:
    // angles within 5e-7 of a full turn are snapped to 0, poses closer than 1e-6 are the same pose).
    inline bool within(const Pose &P, const Pose &B, double rho, LD delta)
    {
        return std::isfinite(P.x) && std::isfinite(P.y) && std::isfinite(P.th) && fabsl((LD)P.x - B.x) <= delta * rho &&
               fabsl((LD)P.y - B.y) <= delta * rho && fabsl(wrapPi((LD)P.th - B.th)) <= delta;
    }
    // `witness`: the pose at which the curve the library actually traced ends; when it lies within delta of the
    // target it is one more target the independent optimum is evaluated for (the library's trivial shortcut and its
    // angle snapping aim at such a pose, which a 3x3x3 grid does not contain).  backwards: the optimum of the
    // opposite direction (symmetrised space).
    inline Envelope envelope(const Pose &A, const Pose &B, double rho, const Pose *witness = nullptr, bool backwards = false,
                             LD delta = 2e-6L)
    {
        Envelope e;
        auto optOf = [&](const Pose &T, int *best)
        {
            Canon c = backwards ? canon(T, A, rho) : canon(A, T, rho);
            Six s = sixWords(c.d, c.alpha, c.beta);
            if (best)
                *best = s.best;
            return s.opt;
        };
        e.opt = e.lo = e.hi = optOf(B, &e.best);
        for (int k = 0; k < 27; ++k)
        {
            int i = k % 3 - 1, j = (k / 3) % 3 - 1, l = k / 9 - 1;
            if (i == 0 && j == 0 && l == 0)
                continue;
            Pose P{(double)(B.x + i * delta * rho), (double)(B.y + j * delta * rho), (double)(B.th + l * delta)};
            LD v = optOf(P, nullptr);
            e.lo = std::min(e.lo, v);
            e.hi = std::max(e.hi, v);
        }
        if (witness && within(*witness, B, rho, delta))
        {
            LD v = optOf(*witness, nullptr);
            e.lo = std::min(e.lo, v);
            e.hi = std::max(e.hi, v);
        }
        return e;
    }

    // an arc of (almost) a full turn: no shortest curve contains one, the library produces it when a float-precision
    // switching function is evaluated on the wrong side of the 0 / 2pi seam of an arc angle
    inline bool fullTurnArc(const ob::DubinsStateSpace::DubinsPath &p)
    {
        for (int k = 0; k < 3; ++k)
            if (p.type_->at(k) != ob::DubinsStateSpace::DUBINS_STRAIGHT && p.length_[k] > 2 * M_PI - 1e-5 && p.length_[k] < 1e3)
                return true;
        return false;
    }

    struct PairRecorder
    {
        const Tables &tb;
        Stat stat;           // error distributions (normalised), keyed by clause / interior flag
        std::map<std::string, long> hitInterior, hitAny, drift, bndSide, icase, qposHit, famCount, rsPairs;
        long events{0}, oracleDropped{0};
        explicit PairRecorder(const Tables &t) : tb(t)
        {
        }

        // ---------------------------------------------------------------- Dubins (asym / sym)
        json dubinsEvent(Spaces &S, bool sym, const Pose &A, const Pose &B, const Meta &meta, double interiorMargin)
        {
            auto &sp = sym ? S.sym : S.dub;
            const double rho = S.rho;
            St a(sp.get(), A), b(sp.get(), B), s(sp.get());
            Canon cf = canon(A, B, rho), cb = canon(B, A, rho);
            Scale sc{rho * std::max(1.0, (double)cf.d)};
            json e;
            e["e"] = "Pair";
            e["sp"] = sym ? "dubinsSym" : "dubins";
            e["fam"] = meta.fam;
            e["bnd"] = meta.bnd;
            e["off"] = meta.off;
            e["repro"] = repro(A, B, rho);
            e["rho"] = (long long)llround(rho * 1000);

            // --- what the real space reports
            double rep = sp->distance(a.s, b.s), repRev = sp->distance(b.s, a.s);
            bool first = true;
            ob::DubinsStateSpace::DubinsPath path;
            sp->interpolate(a.s, b.s, 0.5, first, path, s.s);
            if (first)  // not computed (cannot happen for 0 < t < 1)
                path = sp->dubins(a.s, b.s);
            int lw = dubinsWordIndex(path);
            bool rv = path.reverse_;
            std::vector<double> segOrd = rv ? std::vector<double>{path.length_[2], path.length_[1], path.length_[0]} :
                                              std::vector<double>{path.length_[0], path.length_[1], path.length_[2]};
            bool pathFinite = std::isfinite(path.length()) && path.length() < 1e6 * (1 + (double)cf.d);
            std::vector<Sample> smp;
            CurveObs cv;
            Pose endP{NAN, NAN, NAN};
            std::vector<long long> pre, preLo, preHi;
            std::vector<bool> preFta;
            std::vector<int> isegs;
            if (pathFinite)
            {
                std::vector<double> ts = grid(segOrd, 64, 16);
                double L = path.length();
                for (double t : ts)
                {
                    sp->interpolate(a.s, b.s, t, s.s);  // the public entry point, path recomputed every time
                    smp.push_back(Sample{t, s.get()});
                    if (t > 0 && t < 1)
                    {
                        double c = 0;
                        int k = 0;
                        for (; k < 3; ++k)
                        {
                            c += segOrd[k];
                            if (t * L < c)
                                break;
                        }
                        k = std::min(k, 2);
                        if (std::find(isegs.begin(), isegs.end(), k) == isegs.end())
                            isegs.push_back(k);
                    }
                }
                sp->interpolate(a.s, path, 1.0, s.s, rho);  // where the integrated word ends (t = 1 copies `to`)
                endP = s.get();
                smp.back().p = endP;
                cv = judgeCurve(smp, rho);
                for (int k = 1; k <= 7; ++k)
                {
                    sp->interpolate(a.s, b.s, k / 8.0, s.s);
                    pre.push_back(sc.U(sp->distance(a.s, s.s)));
                    // the six-word optimum (envelope over the library's input resolution) for the prefix's end point
                    Pose P = s.get(), W{NAN, NAN, NAN};
                    preFta.push_back(fullTurnArc(sp->dubins(a.s, s.s)) || (sym && fullTurnArc(sp->dubins(s.s, a.s))));
                    {
                        // where the curve the library traces to that point ends
                        bool f2 = true;
                        ob::DubinsStateSpace::DubinsPath pk;
                        St tmp(sp.get());
                        sp->interpolate(a.s, s.s, 0.5, f2, pk, tmp.s);
                        if (!f2 && std::isfinite(pk.length()) && pk.length() < 1e6 * (1 + (double)cf.d))
                        {
                            sp->interpolate(a.s, pk, 1.0, tmp.s, rho);
                            W = tmp.get();
                        }
                    }
                    Envelope ek = envelope(A, P, rho, &W);
                    if (sym)
                    {
                        Envelope er = envelope(A, P, rho, &W, true);
                        ek.lo = std::min(ek.lo, er.lo);
                        ek.hi = std::min(ek.hi, er.hi);
                    }
                    preLo.push_back(sc.U(ek.lo * rho));
                    preHi.push_back(sc.U(ek.hi * rho));
                }
            }
            else
                cv.finite = false;

            // --- the harness's own view: branch case and the six-word optimum
            Branch bf = dubinsBranch(cf, tb), bb;
            Envelope ef = envelope(A, B, rho, &endP), eb = ef;
            std::string br = bf.id, pw = bf.word >= 0 ? DWORD_NAME[bf.word] : "?";
            LD margin = bf.margin;
            LD opt = ef.opt, lo = ef.lo, hi = ef.hi;
            std::vector<std::string> trail = bf.trail;
            if (sym)
            {
                bb = dubinsBranch(cb, tb);
                eb = envelope(A, B, rho, &endP, true);
                bool prv = eb.opt < ef.opt;
                const Branch &ch = prv ? bb : bf;
                trail = {"sym", std::string("rev=") + (prv ? "T" : "F"), ch.word >= 0 ? DWORD_NAME[ch.word] : "?"};
                br = join(trail);
                pw = ch.word >= 0 ? DWORD_NAME[ch.word] : "?";
                margin = std::min({ch.margin, fabsl(eb.opt - ef.opt)});
                e["ibr"] = ch.id;
                opt = std::min(ef.opt, eb.opt);
                lo = std::min(ef.lo, eb.lo);
                hi = std::min(ef.hi, eb.hi);
            }
            bool interior = margin > (trail.size() == 1 ? 1e-7 : interiorMargin) && meta.bnd.empty();
            {
                const Branch &ch = (sym && eb.opt < ef.opt) ? bb : bf;
                e["kind"] = ch.defined ? ch.kind : "undefined";
                e["cls"] = ch.cls;
                std::vector<bool> outs = ch.outs;
                e["outs"] = outs;
            }
            e["br"] = br;
            e["inter"] = interior;
            e["pw"] = pw;
            e["lw"] = lw >= 0 ? DWORD_NAME[lw] : "?";
            e["rev"] = rv;
            e["qa"] = bf.qa;
            e["qb"] = bf.qb;
            e["ulp"] = meta.ulp;
            e["isLong"] = bf.trail.size() > 1 && bf.trail[1] == "long=T";

            // --- observations, fixed point
            e["rep"] = sc.U(rep);
            e["repRev"] = sc.U(repRev);
            e["opt"] = sc.U(opt * rho);
            e["optLo"] = sc.U(lo * rho);
            e["optHi"] = sc.U(hi * rho);
            e["sl"] = sc.U(cf.d * rho);
            e["arc"] = sc.U(cv.finite ? cv.arc : NAN);
            e["vres"] = sc.U(cv.finite ? cv.vres : NAN);
            e["lenSum"] = sc.U(path.length() * rho);
            LD endPos = hypotl((LD)endP.x - B.x, (LD)endP.y - B.y), endYaw = fabsl(wrapPi((LD)endP.th - B.th));
            e["endPos"] = sc.U(endPos);
            e["endYaw"] = Scale::A(endYaw);
            e["cusp"] = cv.cusps;
            e["wcusp"] = 0;
            e["tiny"] = 0;
            e["fwd"] = cv.fwd;
            e["back"] = cv.back;
            e["shape"] = cv.shape;
            e["pre"] = pre;
            e["preLo"] = preLo;
            e["preHi"] = preHi;
            e["preFta"] = preFta;
            e["fta"] = fullTurnArc(sp->dubins(a.s, b.s)) || (sym && fullTurnArc(sp->dubins(b.s, a.s)));
            e["nseg"] = 3;
            std::vector<int> nz;
            for (double v : segOrd)
                nz.push_back(v > 0 ? 1 : 0);
            e["nz"] = nz;
            e["isegs"] = isegs;
            e["finite"] = cv.finite && std::isfinite(rep) && std::isfinite(repRev) && !sc.overflow && pre.size() == 7;

            // --- bookkeeping for the gates and the measured distributions
            ++events;
            ++famCount[meta.fam];
            ++hitAny[br];
            if (interior)
                ++hitInterior[br];
            if (!sym && !bf.defined)
                ++drift["undefined-class"];
            if (lw >= 0 && pw != DWORD_NAME[lw])
                ++drift[std::string(sym ? "sym:" : "dub:") + (interior ? "interior" : "boundary")];
            if (!meta.bnd.empty())
                ++bndSide[meta.bnd + (meta.off < 0 ? ":-" : ":+")];
            if (meta.qa >= 0 && !sym)
                ++qposHit[std::to_string(bf.qa) + "," + std::to_string(bf.qb)];
            for (int k : isegs)
                ++icase[std::string(sym ? "sym:" : "dub:") + (lw >= 0 ? DWORD_NAME[lw] : "?") + (rv ? ":rev:" : ":fwd:") + std::to_string(k)];
            std::string rp = e["repro"];
            stat.cur = &rp;
            if (cv.finite)
            {
                std::string tag = std::string(sym ? "sym." : "dub.") + (interior ? "int." : "bnd.");
                LD n = sc.sc;
                stat.see(tag + "rep-opt", (rep - opt * rho) / n);
                if (rep - opt * rho > 0)
                    stat.see(tag + "excess", (rep - opt * rho) / n);
                if (rep < lo * rho)
                    stat.see(tag + "below-lo", (lo * rho - rep) / n);
                if (rep > hi * rho)
                    stat.see(tag + "above-hi", (rep - hi * rho) / n);
                stat.see(tag + "arc-rep", (cv.arc - rep) / n);
                stat.see(tag + "vres", cv.vres / n);
                stat.see(tag + "endPos", endPos / n);
                stat.see(tag + "endYaw", endYaw);
                stat.see(tag + "env", (hi - lo) * rho / n);
                for (int k = 1; k <= 7; ++k)
                {
                    LD df = (LD)pre[k - 1] / UNIT - (LD)k / 8 * rep / n;
                    stat.see(tag + (df < 0 ? "prefix-shorter" : "prefix-longer"), df);
                }
                for (int k = 1; k <= 7; ++k)
                {
                    LD tr = (LD)k / 8 * rep / n, lo_ = (LD)preLo[k - 1] / UNIT, hi_ = (LD)preHi[k - 1] / UNIT, pk = (LD)pre[k - 1] / UNIT;
                    if (pk > hi_)
                        stat.see(tag + "pre-above-env", pk - hi_);
                    if (pk < lo_)
                        stat.see(tag + "pre-below-env", lo_ - pk);
                    if (tr < lo_)
                        stat.see(tag + "prefixlen-below-env", lo_ - tr);
                    if (tr > hi_ && !sym)
                        stat.see(tag + "prefixlen-above-env", tr - hi_);
                }
                if (sym)
                    stat.see(tag + "sym", (rep - repRev) / n);
                if (rep < cf.d * rho)
                    stat.see(tag + "below-straight", (cf.d * rho - rep) / n);
            }
            return e;
        }

        // ---------------------------------------------------------------- Reeds-Shepp
        json rsEvent(Spaces &S, const Pose &A, const Pose &B, const Meta &meta, double interiorMargin, std::string *caseId = nullptr)
        {
            auto &sp = S.rs;
            const double rho = S.rho;
            St a(sp.get(), A), b(sp.get(), B), s(sp.get());
            Canon cf = canon(A, B, rho);
            Scale sc{rho * std::max(1.0, (double)cf.d)};
            json e;
            e["e"] = "Pair";
            e["sp"] = "rs";
            e["fam"] = meta.fam;
            e["bnd"] = meta.bnd;
            e["off"] = meta.off;
            e["repro"] = repro(A, B, rho);
            e["rho"] = (long long)llround(rho * 1000);
            double rep = sp->distance(a.s, b.s), repRev = sp->distance(b.s, a.s);
            auto path = sp->reedsShepp(a.s, b.s);
            int row = (int)((path.type_ - &ob::ReedsSheppStateSpace::reedsSheppPathType[0][0]) / 5);
            int nseg = 0;
            for (int k = 0; k < 5; ++k)
                if (path.type_[k] != ob::ReedsSheppStateSpace::RS_NOP)
                    nseg = k + 1;
            std::vector<double> segOrd(path.length_, path.length_ + 5);
            std::string signs;
            LD minSeg = INF;
            int wcusp = 0, last = 0;
            std::vector<int> nz;
            for (int k = 0; k < nseg; ++k)
            {
                int sg = signOf(path.length_[k], 0);
                signs += sg > 0 ? '+' : sg < 0 ? '-' : '0';
                minSeg = std::min(minSeg, (LD)fabs(path.length_[k]));
                nz.push_back(sg != 0);
                if (sg != 0)
                {
                    if (last != 0 && sg != last)
                        ++wcusp;
                    last = sg;
                }
            }
            std::string rc = std::to_string(row) + ":" + signs;
            if (caseId)
                *caseId = rc;
            bool pathFinite = std::isfinite(path.length()) && path.length() < 1e6 * (1 + (double)cf.d);
            std::vector<Sample> smp;
            CurveObs cv;
            Pose endP{NAN, NAN, NAN};
            std::vector<long long> pre;
            std::vector<int> isegs;
            if (pathFinite)
            {
                std::vector<double> ts = grid(segOrd, 64, 16);
                double L = path.length();
                for (double t : ts)
                {
                    sp->interpolate(a.s, b.s, t, s.s);
                    smp.push_back(Sample{t, s.get()});
                    if (t > 0 && t < 1)
                    {
                        double c = 0;
                        int k = 0;
                        for (; k < 5; ++k)
                        {
                            c += fabs(segOrd[k]);
                            if (t * L < c)
                                break;
                        }
                        k = std::min(k, std::max(nseg, 1) - 1);
                        if (std::find(isegs.begin(), isegs.end(), k) == isegs.end())
                            isegs.push_back(k);
                    }
                }
                sp->interpolate(a.s, path, 1.0, s.s);
                endP = s.get();
                smp.back().p = endP;
                cv = judgeCurve(smp, rho);
                for (int k = 1; k <= 7; ++k)
                {
                    sp->interpolate(a.s, b.s, k / 8.0, s.s);
                    pre.push_back(sc.U(sp->distance(a.s, s.s)));
                }
            }
            else
                cv.finite = false;
            St da(S.dub.get(), A), db(S.dub.get(), B);
            double dubF = S.dub->distance(da.s, db.s), dubB = S.dub->distance(db.s, da.s);
            bool interior = minSeg > interiorMargin && meta.bnd.empty();
            e["br"] = rc;
            e["inter"] = interior;
            e["row"] = row;
            e["signs"] = signs;
            {
                std::vector<std::string> sg;
                for (char ch : signs)
                    sg.push_back(std::string(1, ch));
                e["sg"] = sg;
            }
            e["rev"] = false;
            e["rep"] = sc.U(rep);
            e["repRev"] = sc.U(repRev);
            e["dubF"] = sc.U(dubF);
            e["dubB"] = sc.U(dubB);
            e["sl"] = sc.U(cf.d * rho);
            e["arc"] = sc.U(cv.finite ? cv.arc : NAN);
            e["vres"] = sc.U(cv.finite ? cv.vres : NAN);
            e["lenSum"] = sc.U(path.length() * rho);
            LD endPos = hypotl((LD)endP.x - B.x, (LD)endP.y - B.y), endYaw = fabsl(wrapPi((LD)endP.th - B.th));
            e["endPos"] = sc.U(endPos);
            e["endYaw"] = Scale::A(endYaw);
            e["cusp"] = cv.cusps;
            e["wcusp"] = wcusp;
            {
                int tiny = 0;  // non-zero segments too short for a change of direction to show in the samples
                for (int k = 0; k < nseg; ++k)
                    if (path.length_[k] != 0 && fabs(path.length_[k]) < 1e-6)
                        ++tiny;
                e["tiny"] = tiny;
            }
            // shortest non-zero segment in sampling steps (a cusp between two segments shorter than a step can hide)
            e["fwd"] = cv.fwd;
            e["back"] = cv.back;
            e["shape"] = cv.shape;
            e["pre"] = pre;
            e["nseg"] = nseg;
            e["nz"] = nz;
            e["isegs"] = isegs;
            e["finite"] = cv.finite && std::isfinite(rep) && std::isfinite(repRev) && !sc.overflow && pre.size() == 7;
            ++events;
            ++famCount[meta.fam];
            ++hitAny[rc];
            if (interior)
                ++hitInterior[rc];
            if (!tb.rsCase.empty() && !tb.rsCase.count(rc) && signs.find('0') == std::string::npos)
                ++drift["rs:case-not-in-table"];
            if (!meta.bnd.empty())
                ++bndSide[meta.bnd + (meta.off < 0 ? ":-" : ":+")];
            for (int k : isegs)
                ++icase["rs:" + std::to_string(row) + ":" + std::to_string(k)];
            std::string rp = e["repro"];
            stat.cur = &rp;
            if (cv.finite)
            {
                std::string tag = std::string("rs.") + (interior ? "int." : "bnd.");
                LD n = sc.sc;
                stat.see(tag + "arc-rep", (cv.arc - rep) / n);
                stat.see(tag + "vres", cv.vres / n);
                stat.see(tag + "endPos", endPos / n);
                stat.see(tag + "endYaw", endYaw);
                for (int k = 1; k <= 7; ++k)
                {
                    LD df = (LD)pre[k - 1] / UNIT - (LD)k / 8 * rep / n;
                    stat.see(tag + (df < 0 ? "prefix-shorter" : "prefix-longer"), df);
                }
                stat.see(tag + "sym", (rep - repRev) / n);
                if (rep > dubF)
                    stat.see(tag + "above-dubF", (rep - dubF) / n);
                if (rep > dubB)
                    stat.see(tag + "above-dubB", (rep - dubB) / n);
                if (rep < cf.d * rho)
                    stat.see(tag + "below-straight", (cf.d * rho - rep) / n);
                if (cv.cusps != wcusp)
                    stat.see(tag + "cusp-mismatch", 1);
            }
            return e;
        }
    };
}  // namespace c14
