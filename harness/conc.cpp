// C19 harness: drives the documented thread-safe surface from several real threads with the
// OMPL_VERIF access hooks switched on, and records (a) the hook events - thread, resource,
// read/write, atomic?, measured lockset, fork/join - for the happens-before / lockset race rule of
// specs/conc/SharedMemTrace.tla and (b) contract events (results that must equal those of some
// sequential order).
//
//   conc record <out.ndjson> <scenario> <threads> <calls>
//   scenarios: counters | terminate | gnat | solutions | rng | spaces | periodic | all
#include "vtrace.h"
#include <ompl/util/VerifHooks.h>
#include <ompl/base/SpaceInformation.h>
#include <ompl/base/ProblemDefinition.h>
#include <ompl/base/PlannerTerminationCondition.h>
#include <ompl/base/spaces/RealVectorStateSpace.h>
#include <ompl/base/spaces/SE2StateSpace.h>
#include <ompl/datastructures/NearestNeighborsGNAT.h>
#include <ompl/geometric/PathGeometric.h>
#include <ompl/util/RandomNumbers.h>
#include <ompl/util/Console.h>
#include <atomic>
#include <mutex>
#include <set>
#include <thread>

#ifndef OMPL_VERIF
#error "the C19 harness needs the OMPL_VERIF hooks"
#endif

namespace ob = ompl::base;
namespace og = ompl::geometric;
using vt::json;
using ompl::verif::Event;

// ---------------------------------------------------------------- event collection
struct Rec
{
    unsigned long long seq;
    Event ev;
};
static std::atomic<unsigned long long> g_seq{0};
static std::mutex g_recMutex;  // protects g_recs only (never held while library code runs)
static std::vector<Rec> g_recs;
static std::atomic<long> g_perThreadCap{400};
static thread_local long t_count = 0;
static std::atomic<long> g_dropped{0};

static void sinkFn(const Event &e)
{
    // keep fork/join always; cap accesses per thread so traces stay small (the cap keeps the FIRST
    // accesses of every thread: those are the ones unordered with the other threads' first accesses)
    if (e.kind == Event::ACCESS && ++t_count > g_perThreadCap.load(std::memory_order_relaxed))
    {
        g_dropped.fetch_add(1, std::memory_order_relaxed);
        return;
    }
    Rec r{g_seq.fetch_add(1), e};
    std::lock_guard<std::mutex> g(g_recMutex);
    g_recs.push_back(r);
}
static void sync(Event::Kind k, const void *token)
{
    Event e{k, "harness.thread", token, false, false, 0u, 0u, ompl::verif::tid()};
    Rec r{g_seq.fetch_add(1), e};
    std::lock_guard<std::mutex> g(g_recMutex);
    g_recs.push_back(r);
}
// run n harness threads with fork/begin/end/join events around them
template <class F>
static void parallel(int n, F body)
{
    std::vector<std::thread> ts;
    std::vector<char> tokens(n);
    for (int i = 0; i < n; ++i)
    {
        sync(Event::FORK, &tokens[i]);
        ts.emplace_back([&, i] {
            t_count = 0;
            sync(Event::BEGIN, &tokens[i]);
            body(i);
            sync(Event::END, &tokens[i]);
        });
    }
    for (int i = 0; i < n; ++i)
    {
        ts[i].join();
        sync(Event::JOIN, &tokens[i]);
    }
}

static void flush(vt::Trace &tr, const std::string &scenario)
{
    std::vector<Rec> recs;
    {
        std::lock_guard<std::mutex> g(g_recMutex);
        recs.swap(g_recs);
    }
    std::sort(recs.begin(), recs.end(), [](const Rec &a, const Rec &b) { return a.seq < b.seq; });
    std::map<long, int> tids;
    std::map<const void *, int> objs;
    auto tidOf = [&](long t) {
        auto it = tids.find(t);
        if (it == tids.end())
            it = tids.emplace(t, (int)tids.size() + 1).first;
        return it->second;
    };
    auto objOf = [&](const void *o) {
        auto it = objs.find(o);
        if (it == objs.end())
            it = objs.emplace(o, (int)objs.size() + 1).first;
        return it->second;
    };
    tr.emit(json{{"e", "Scenario"}, {"name", scenario}});
    for (auto &r : recs)
    {
        const Event &e = r.ev;
        json j;
        switch (e.kind)
        {
            case Event::ACCESS:
            {
                json held = json::array();
                for (unsigned i = 0; i < e.nlocks; ++i)
                    if (e.heldMask & (1u << i))
                        held.push_back((int)i + 1);
                j = json{{"e", "Access"}, {"t", tidOf(e.tid)}, {"res", std::string(e.name)}, {"obj", objOf(e.object)},
                         {"w", e.write}, {"a", e.atomic}, {"locks", held}, {"named", (int)e.nlocks}};
                break;
            }
            case Event::FORK:
                j = json{{"e", "Fork"}, {"t", tidOf(e.tid)}, {"tok", objOf(e.object)}};
                break;
            case Event::BEGIN:
                j = json{{"e", "Begin"}, {"t", tidOf(e.tid)}, {"tok", objOf(e.object)}};
                break;
            case Event::END:
                j = json{{"e", "End"}, {"t", tidOf(e.tid)}, {"tok", objOf(e.object)}};
                break;
            case Event::JOIN:
                j = json{{"e", "Join"}, {"t", tidOf(e.tid)}, {"tok", objOf(e.object)}};
                break;
            default:
                continue;
        }
        tr.emit(j);
    }
}

// ---------------------------------------------------------------- scenarios
static ob::SpaceInformationPtr makeSi()
{
    auto space = std::make_shared<ob::RealVectorStateSpace>(2);
    space->setBounds(0, 1);
    auto si = std::make_shared<ob::SpaceInformation>(space);
    si->setStateValidityChecker([](const ob::State *s) {
        const double *v = s->as<ob::RealVectorStateSpace::StateType>()->values;
        return !(v[0] > 0.4 && v[0] < 0.6 && v[1] < 0.7);
    });
    si->setup();
    return si;
}

// motion / state validity checks through one shared SpaceInformation: counters == number of calls
static void scenarioCounters(vt::Trace &tr, int threads, long calls)
{
    auto si = makeSi();
    si->getMotionValidator()->resetMotionCounter();
    std::atomic<long> validSeen{0};
    parallel(threads, [&](int i) {
        ob::ScopedState<> a(si), b(si);
        // a hot loop on short motions: the window between load and store of the counter is what matters
        a[0] = 0.1;
        a[1] = 0.1 + 0.001 * i;
        b[0] = 0.1;
        b[1] = 0.1 + 0.001 * i;
        long v = 0;
        for (long k = 0; k < calls; ++k)
        {
            if ((k & 1023) == 1023)
                b[0] = 0.9;  // an invalid motion now and then (crosses the obstacle)
            else
                b[0] = 0.1;
            if (si->checkMotion(a.get(), b.get()))
                ++v;
            si->isValid(a.get());
        }
        validSeen += v;
    });
    unsigned valid = si->getMotionValidator()->getValidMotionCount();
    unsigned invalid = si->getMotionValidator()->getInvalidMotionCount();
    flush(tr, "counters");
    tr.emit(json{{"e", "CountersFinal"}, {"threads", threads}, {"calls", vt::tlcInt((long long)threads * calls)},
                 {"counted", vt::tlcInt((long long)valid + invalid)}, {"validReturned", vt::tlcInt(validSeen.load())},
                 {"validCounted", vt::tlcInt(valid)}});
}

// terminate() from another thread while the first polls eval()
static void scenarioTerminate(vt::Trace &tr, int threads)
{
    for (int round = 0; round < 4; ++round)
    {
        ob::PlannerTerminationCondition ptc = round % 2 == 0 ? ob::plannerNonTerminatingCondition() :
                                                               ob::PlannerTerminationCondition([] { return false; });
        std::atomic<bool> go{false};
        std::atomic<long> pollsAfter{0};
        std::atomic<int> seen{0};
        std::atomic<bool> requested{false};
        parallel(threads, [&](int i) {
            if (i == 0)
            {
                while (!go)
                    std::this_thread::yield();
                ptc.terminate();
                requested = true;
            }
            else
            {
                go = true;
                long after = 0;
                bool s = false;
                for (long k = 0; k < 200000000L; ++k)
                {
                    if (ptc.eval())
                    {
                        s = true;
                        break;
                    }
                    if (requested)
                        ++after;
                }
                if (s)
                    ++seen;
                pollsAfter += after;
            }
        });
        bool sticky = ptc.eval() && ptc();
        flush(tr, "terminate");
        tr.emit(json{{"e", "TerminateSeen"}, {"pollers", threads - 1}, {"seen", seen.load()}, {"sticky", sticky}});
    }
}

// the periodically evaluated form: the evaluator thread is internal to the library
static void scenarioPeriodic(vt::Trace &tr, int threads)
{
    std::atomic<bool> flag{false};
    std::atomic<int> seen{0};
    {
        ob::PlannerTerminationCondition ptc([&] { return flag.load(); }, 0.002);
        parallel(threads, [&](int i) {
            if (i == 0)
            {
                std::this_thread::sleep_for(std::chrono::milliseconds(5));
                flag = true;
            }
            else
            {
                for (long k = 0; k < 2000000000L; ++k)
                    if (ptc.eval())
                    {
                        ++seen;
                        break;
                    }
            }
        });
    }  // destructor joins the evaluator thread
    flush(tr, "periodic");
    tr.emit(json{{"e", "TerminateSeen"}, {"pollers", threads - 1}, {"seen", seen.load()}, {"sticky", true}});
}

// terminate() from another thread on the PERIODIC form, landing while the evaluator thread is inside
// the predicate (made deterministic: the predicate blocks until terminate() has returned): once
// terminate() has returned, eval() must be true and stay true
static void scenarioPeriodicTerminate(vt::Trace &tr, int rounds)
{
    int seen = 0;
    bool sticky = true;
    for (int round = 0; round < rounds; ++round)
    {
        std::atomic<int> inPredicate{0};
        std::atomic<bool> terminated{false};
        long stickyPolls = 0;
        {
            ob::PlannerTerminationCondition ptc(
                [&] {
                    ++inPredicate;
                    // hold the evaluator thread inside the predicate until terminate() has returned
                    for (long spin = 0; !terminated && spin < 2000000000L; ++spin)
                        std::this_thread::yield();
                    return false;
                },
                0.001);
            parallel(2, [&](int i) {
                if (i == 0)
                {
                    while (inPredicate == 0)
                        std::this_thread::yield();
                    ptc.terminate();
                    terminated = true;
                }
                else
                {
                    while (!terminated)
                        std::this_thread::yield();
                    // give the evaluator thread time to leave the predicate and store its result
                    std::this_thread::sleep_for(std::chrono::milliseconds(3));
                    bool all = true;
                    for (int k = 0; k < 200; ++k)
                    {
                        all = all && ptc.eval();
                        ++stickyPolls;
                    }
                    if (all)
                        ++seen;
                    else
                        sticky = false;
                }
            });
        }
        (void)stickyPolls;
    }
    flush(tr, "periodic-terminate");
    tr.emit(json{{"e", "TerminateSeen"}, {"pollers", rounds}, {"seen", seen}, {"sticky", sticky}});
}

// queries on a shared thread-safe GNAT built beforehand
static void scenarioGnat(vt::Trace &tr, int threads, long calls)
{
    ompl::NearestNeighborsGNAT<int> nn(4, 2, 6, 6);
    nn.setDistanceFunction([](const int &a, const int &b) { return (double)std::abs(a - b); });
    vt::Rng rng(vt::envSeed());
    std::vector<int> pts;
    for (int i = 0; i < 300; ++i)
        pts.push_back(rng.below(2000));
    nn.add(pts);
    std::atomic<long> mismatch{0}, queries{0};
    parallel(threads, [&](int i) {
        vt::Rng r(vt::envSeed() * 31 + i);
        for (long k = 0; k < calls; ++k)
        {
            int q = r.below(2000);
            std::vector<int> got, bf = pts;
            std::size_t kk = 1 + r.below(8);
            if (r.below(2))
                nn.nearestK(q, kk, got);
            else
            {
                double rad = r.below(40);
                nn.nearestR(q, rad, got);
                bf.erase(std::remove_if(bf.begin(), bf.end(), [&](int p) { return std::abs(p - q) > rad; }), bf.end());
                kk = bf.size();
            }
            std::sort(bf.begin(), bf.end(), [&](int a, int b) { return std::abs(a - q) < std::abs(b - q); });
            bf.resize(std::min(kk, bf.size()));
            bool ok = got.size() == bf.size();
            for (std::size_t j = 0; ok && j < got.size(); ++j)
                ok = std::abs(got[j] - q) == std::abs(bf[j] - q);
            if (!ok)
                ++mismatch;
            ++queries;
        }
    });
    flush(tr, "gnat");
    tr.emit(json{{"e", "NNQueries"}, {"queries", vt::tlcInt(queries.load())}, {"mismatch", vt::tlcInt(mismatch.load())}});
}

// adding and reading solutions of a shared problem definition
static void scenarioSolutions(vt::Trace &tr, int threads, long calls)
{
    auto si = makeSi();
    auto pd = std::make_shared<ob::ProblemDefinition>(si);
    std::atomic<long> unranked{0}, added{0}, shrunk{0};
    parallel(threads, [&](int i) {
        vt::Rng r(vt::envSeed() * 77 + i);
        std::size_t last = 0;
        for (long k = 0; k < calls; ++k)
        {
            if (i % 2 == 0)
            {
                auto path = std::make_shared<og::PathGeometric>(si);
                ob::ScopedState<> a(si), b(si);
                a[0] = 0;
                a[1] = 0;
                b[0] = 0.001 * (1 + r.below(300));
                b[1] = 0;
                path->append(a.get());
                path->append(b.get());
                bool approx = r.below(4) == 0;
                pd->addSolutionPath(path, approx, approx ? 0.1 * (1 + r.below(5)) : 0.0, "t" + std::to_string(i));
                ++added;
            }
            else
            {
                auto sols = pd->getSolutions();
                for (std::size_t j = 0; j + 1 < sols.size(); ++j)
                    if (sols[j + 1] < sols[j])
                        ++unranked;
                if (sols.size() < last)
                    ++shrunk;
                last = sols.size();
                pd->hasExactSolution();
                pd->getSolutionPath();
            }
        }
    });
    auto sols = pd->getSolutions();
    std::set<int> idx;
    for (auto &s : sols)
        idx.insert(s.index_);
    flush(tr, "solutions");
    tr.emit(json{{"e", "SolutionsFinal"}, {"added", vt::tlcInt(added.load())}, {"held", (int)sols.size()},
                 {"distinctIndices", (int)idx.size()}, {"unrankedSnapshots", vt::tlcInt(unranked.load())},
                 {"shrunkSnapshots", vt::tlcInt(shrunk.load())}});
}

// creation of random generators from several threads: the set of local seeds equals the sequential one
static void scenarioRng(vt::Trace &tr, int threads, long calls)
{
    // runs in a fresh process: the seed is set before any generator exists
    ompl::RNG::setSeed(4711);
    std::mutex m;
    std::vector<long long> seeds;
    parallel(threads, [&](int) {
        std::vector<long long> mine;
        for (long k = 0; k < calls; ++k)
        {
            ompl::RNG r;
            mine.push_back(r.getLocalSeed());
        }
        std::lock_guard<std::mutex> g(m);
        seeds.insert(seeds.end(), mine.begin(), mine.end());
    });
    std::sort(seeds.begin(), seeds.end());
    // the sequential reference: reseeding the generator restarts the same sequence
    ompl::RNG::setSeed(4711);
    std::vector<long long> ref;
    for (std::size_t k = 0; k < seeds.size(); ++k)
    {
        ompl::RNG r;
        ref.push_back(r.getLocalSeed());
    }
    std::sort(ref.begin(), ref.end());
    long diff = 0;
    for (std::size_t k = 0; k < seeds.size(); ++k)
        if (seeds[k] != ref[k])
            ++diff;
    flush(tr, "rng");
    tr.emit(json{{"e", "SeedsConcurrent"}, {"n", (int)seeds.size()}, {"differFromSequential", vt::tlcInt(diff)}});
}

// creation of state spaces from several threads: automatically computed names are unique
static void scenarioSpaces(vt::Trace &tr, int threads, long calls)
{
    std::mutex m;
    std::vector<std::string> names;
    parallel(threads, [&](int i) {
        std::vector<std::string> mine;
        for (long k = 0; k < calls; ++k)
        {
            if ((k + i) % 2)
            {
                ob::RealVectorStateSpace s(2);
                mine.push_back(s.ob::StateSpace::getName());
            }
            else
            {
                ob::SE2StateSpace s;
                mine.push_back(s.ob::StateSpace::getName());
            }
        }
        std::lock_guard<std::mutex> g(m);
        names.insert(names.end(), mine.begin(), mine.end());
    });
    std::set<std::string> d(names.begin(), names.end());
    flush(tr, "spaces");
    tr.emit(json{{"e", "SpaceNames"}, {"n", (int)names.size()}, {"distinct", (int)d.size()}});
}

// logging from several threads while other threads switch the output handler and the log level.  The handler's own
// log() is the linearization point: the library calls it while it still holds the console lock, so what the handler
// sees there through the public getters IS the state its message was filtered against - it must be the installed
// handler, and the message must not lie below the level.  Handlers stall inside log() (the lock is held meanwhile), so
// that loggers and switchers queue up behind each other: a log call that decided before it owned the lock is overtaken.
struct ProbeHandler : public ompl::msg::OutputHandler
{
    std::atomic<long> delivered{0}, stale{0}, belowLevel{0}, overlap{0};
    std::atomic<int> inside{0};
    static std::atomic<int> &insideAny()
    {
        static std::atomic<int> v{0};
        return v;
    }
    void log(const std::string &text, ompl::msg::LogLevel level, const char *, int) override
    {
        if (insideAny().fetch_add(1) != 0)
            ++overlap;  // two handler calls at once: the handler I/O is not serialized
        ++delivered;
        if (ompl::msg::getOutputHandler() != this)
            ++stale;
        // (getLogLevel() takes the console lock itself and cannot be asked from in here; the level is judged against
        //  the lowest level any switcher ever sets)
        if (level < ompl::msg::LOG_INFO)
            ++belowLevel;
        if (!text.empty() && text[0] == 's')
            std::this_thread::sleep_for(std::chrono::microseconds(300));
        insideAny().fetch_sub(1);
    }
};

static void scenarioConsole(vt::Trace &tr, int threads, long calls)
{
    ProbeHandler h1, h2;
    ompl::msg::setLogLevel(ompl::msg::LOG_INFO);
    ompl::msg::useOutputHandler(&h1);
    std::atomic<long> switches{0}, logs{0};
    std::atomic<int> switchersDone{0};
    const int loggers = std::max(2, threads - 2);
    parallel(threads, [&](int i) {
        vt::Rng r(vt::envSeed() * 31 + i);
        if (i < loggers)
            // loggers keep logging for as long as the switchers work (a log call that is filtered out costs
            // nanoseconds: a fixed number of calls would be over before the second switch)
            for (long k = 0; switchersDone.load() < threads - loggers; ++k)
            {
                // 's' messages make the handler stall with the lock held; the levels straddle the threshold
                switch (r.below(4))
                {
                    case 0:
                        OMPL_INFORM("s%ld", k);
                        break;
                    case 1:
                        OMPL_WARN("w%ld", k);
                        break;
                    case 2:
                        OMPL_DEBUG("d%ld", k);
                        break;
                    default:
                        OMPL_ERROR("s%ld", k);
                }
                ++logs;
                if (k % 8 == 7)   // leave the lock alone now and then, or the switchers starve behind the stalls
                    std::this_thread::sleep_for(std::chrono::microseconds(150));
            }
        else
            for (long k = 0; k < calls; ++k)
            {
                switch (r.below(6))
                {
                    case 0:
                        ompl::msg::useOutputHandler(&h1);
                        break;
                    case 1:
                        ompl::msg::useOutputHandler(&h2);
                        break;
                    case 2:
                        ompl::msg::noOutputHandler();
                        break;
                    case 3:
                        ompl::msg::restorePreviousOutputHandler();
                        break;
                    case 4:
                        ompl::msg::setLogLevel(ompl::msg::LOG_WARN);
                        break;
                    default:
                        ompl::msg::setLogLevel(ompl::msg::LOG_INFO);
                }
                ++switches;
                std::this_thread::sleep_for(std::chrono::microseconds(50 + r.below(200)));
            }
        if (i >= loggers)
            ++switchersDone;
    });
    ompl::msg::noOutputHandler();
    ompl::msg::setLogLevel(ompl::msg::LOG_NONE);
    flush(tr, "console");
    tr.emit(json{{"e", "ConsoleLog"}, {"logs", vt::tlcInt(logs.load())}, {"switches", vt::tlcInt(switches.load())},
                 {"delivered", vt::tlcInt(h1.delivered + h2.delivered)}, {"stale", vt::tlcInt(h1.stale + h2.stale)},
                 {"belowLevel", vt::tlcInt(h1.belowLevel + h2.belowLevel)}, {"overlap", vt::tlcInt(h1.overlap + h2.overlap)}});
}

int main(int argc, char **argv)
{
    vt::installCrashHandlers();
    ompl::msg::setLogLevel(ompl::msg::LOG_NONE);
    if (argc < 6 || std::string(argv[1]) != "record")
    {
        fprintf(stderr, "usage: conc record <out> <scenario> <threads> <calls> [cap]\n");
        return 2;
    }
    vt::Trace tr(argv[2]);
    std::string sc = argv[3];
    int threads = atoi(argv[4]);
    long calls = atol(argv[5]);
    if (argc > 6)
        g_perThreadCap = atol(argv[6]);
    ompl::verif::sink().store(&sinkFn);
    if (sc == "counters")
        scenarioCounters(tr, threads, calls);
    else if (sc == "terminate")
        scenarioTerminate(tr, threads);
    else if (sc == "periodic")
        scenarioPeriodic(tr, threads);
    else if (sc == "periodic-terminate")
        scenarioPeriodicTerminate(tr, threads);
    else if (sc == "gnat")
        scenarioGnat(tr, threads, calls);
    else if (sc == "solutions")
        scenarioSolutions(tr, threads, calls);
    else if (sc == "console")
        scenarioConsole(tr, threads, calls);
    else if (sc == "rng")
        scenarioRng(tr, threads, calls);
    else if (sc == "spaces")
        scenarioSpaces(tr, threads, calls);
    else
    {
        fprintf(stderr, "unknown scenario\n");
        return 2;
    }
    ompl::verif::sink().store(nullptr);
    std::cout << "RECORDED " << tr.count() << " dropped " << g_dropped.load() << std::endl;
    return 0;
}
