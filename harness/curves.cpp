// C14 - Dubins and Reeds-Shepp distances are the lengths of real, optimal curves.
//
//   curves record  <tables.ndjson> <out.ndjson> <quick|thorough> [part]   find pose pairs for every branch case of the
//                                                                   model, straddle every decision node, special
//                                                                   families; record observations of the real spaces
//   curves measure <tables.ndjson> <n> [regime]                     error distributions over n random pairs (no trace)
//   curves one     <tables.ndjson> <out.ndjson> <ax ay ath bx by bth rho>   (hex doubles) record one pair
//
// The harness never judges: it records fixed-point observations; specs/spaces/CurveContractTrace.tla decides.
#include "c14_events.h"
#include <ompl/util/Console.h>
#include <set>

using namespace c14;

static const double RHOS[5] = {0.1, 0.5, 1.0, 2.5, 10.0};

struct P3
{
    LD a, b, c;  // Dubins: (d, alpha, beta)   Reeds-Shepp: (x, y, phi)
};
static P3 lerp(const P3 &p, const P3 &q, LD t)
{
    return P3{p.a + (q.a - p.a) * t, p.b + (q.b - p.b) * t, p.c + (q.c - p.c) * t};
}
static LD dist(const P3 &p, const P3 &q)
{
    return sqrtl((p.a - q.a) * (p.a - q.a) + (p.b - q.b) * (p.b - q.b) + (p.c - q.c) * (p.c - q.c));
}
static double wrapD(double x)
{
    double r = remainder(x, 2 * M_PI);
    if (r > M_PI)
        r = M_PI;
    if (r < -M_PI)
        r = -M_PI;
    return r;
}

// Dubins parameters -> poses.  theta = direction of the line from A to B.
static void dubinsPair(const P3 &p, double rho, double theta, double x0, double y0, Pose &A, Pose &B)
{
    A = Pose{x0, y0, wrapD(theta + (double)p.b)};
    B = Pose{x0 + rho * (double)p.a * cos(theta), y0 + rho * (double)p.a * sin(theta), wrapD(theta + (double)p.c)};
    if (theta == 0)
        B.y = y0;
}
// Reeds-Shepp parameters (target in the frame of the start, unit radius) -> poses
static void rsPair(const P3 &p, double rho, double th0, double x0, double y0, Pose &A, Pose &B)
{
    A = Pose{x0, y0, th0};
    double c = cos(th0), s = sin(th0);
    B = Pose{x0 + rho * ((double)p.a * c - (double)p.b * s), y0 + rho * ((double)p.a * s + (double)p.b * c), wrapD(th0 + (double)p.c)};
}

struct Gen
{
    vt::Rng rng;
    explicit Gen(unsigned long long seed) : rng(seed)
    {
    }
    double u()
    {
        return rng.unit();
    }
    double ang()
    {
        return u() * 2 * M_PI;
    }
    // Dubins parameter regimes
    P3 dubins(int regime)
    {
        LD a = ang(), b = ang();
        LD lq = fabsl(sinl(a)) + fabsl(sinl(b)) + sqrtl(std::max<LD>(0, 4 - powl(cosl(a) + cosl(b), 2)));
        switch (regime % 6)
        {
            case 0:  // just long
                return P3{lq + 0.002 + u() * 3, a, b};
            case 1:  // long, moderate
                return P3{lq + u() * 25, a, b};
            case 2:  // short: closer than four radii, all six words compete
                return P3{u() * lq, a, b};
            case 3:  // short, small
                return P3{u() * u() * 2, a, b};
            case 4:  // far: up to 1e3 radii, log-uniform
                return P3{powl(10, 0.7 + 2.3 * u()), a, b};
            default:  // headings nearly equal / opposite
            {
                LD e = (u() - .5) * 0.2;
                return P3{u() * 12, a, m2(a + (rng.below(2) ? PI : 0) + e)};
            }
        }
    }
    P3 rs(int regime)
    {
        switch (regime % 4)
        {
            case 0:
                return P3{(u() - .5) * 8, (u() - .5) * 8, (u() - .5) * 2 * M_PI};
            case 1:
                return P3{(u() - .5) * 3, (u() - .5) * 3, (u() - .5) * 2 * M_PI};
            case 2:
                return P3{(u() - .5) * 30, (u() - .5) * 30, (u() - .5) * 2 * M_PI};
            default:
            {
                LD r = powl(10, 0.7 + 2.3 * u()), t = ang();
                return P3{r * cosl(t), r * sinl(t), (u() - .5) * 2 * M_PI};
            }
        }
    }
};

struct Ctx
{
    Tables tb;
    PairRecorder rec;
    std::unique_ptr<vt::Trace> trace;
    std::vector<std::unique_ptr<Spaces>> spaces;
    Gen gen;
    long pairs{0};
    double interiorMargin{1e-3};
    Ctx(const std::string &tables, unsigned long long seed) : rec(tb), gen(seed)
    {
        tb.load(tables);
        for (double r : RHOS)
            spaces.emplace_back(new Spaces(r));
    }
    Spaces &sp(int k)
    {
        return *spaces[((k % 5) + 5) % 5];
    }
    // record the three events of one pose pair; which space the boundary tag belongs to is in `who`
    void pair(Spaces &S, const Pose &A, const Pose &B, Meta meta, const std::string &who)
    {
        ++pairs;
        Meta plain = meta;
        plain.bnd.clear();
        plain.off = 0;
        json e1 = rec.dubinsEvent(S, false, A, B, who == "dubins" ? meta : plain, interiorMargin);
        json e2 = rec.dubinsEvent(S, true, A, B, who == "sym" ? meta : plain, interiorMargin);
        json e3 = rec.rsEvent(S, A, B, who == "rs" ? meta : plain, interiorMargin);
        if (trace)
        {
            trace->emit(e1);
            trace->emit(e2);
            trace->emit(e3);
        }
    }
};

static json statJson(const Stat &s)
{
    json j = json::object();
    for (auto &kv : s.mx)
    {
        std::array<long, 4> b{};
        if (s.big.count(kv.first))
            b = s.big.at(kv.first);
        j[kv.first] = {(double)kv.second, s.n.at(kv.first), s.where.count(kv.first) ? s.where.at(kv.first) : std::string(), b};
    }
    return j;
}
template <class M>
static json mapJson(const M &m)
{
    json j = json::object();
    for (auto &kv : m)
        j[kv.first] = kv.second;
    return j;
}

// ------------------------------------------------------------------------------------------ measure
static int measure(int argc, char **argv)
{
    Ctx cx(argv[2], vt::envSeed());
    long n = atol(argv[3]);
    int only = argc > 4 ? atoi(argv[4]) : -1;
    for (long k = 0; k < n; ++k)
    {
        Spaces &S = cx.sp((int)k);
        Pose A, B;
        Meta meta;
        if (k % 3 != 2)
        {
            int rg = only >= 0 ? only : (int)(k % 6);
            P3 p = cx.gen.dubins(rg);
            dubinsPair(p, S.rho, cx.gen.ang(), (cx.gen.u() - .5) * 20, (cx.gen.u() - .5) * 20, A, B);
            meta.fam = "random-d" + std::to_string(rg);
        }
        else
        {
            int rg = only >= 0 ? only : (int)(k % 4);
            P3 p = cx.gen.rs(rg);
            rsPair(p, S.rho, cx.gen.ang() - M_PI, (cx.gen.u() - .5) * 20, (cx.gen.u() - .5) * 20, A, B);
            meta.fam = "random-r" + std::to_string(rg);
        }
        cx.pair(S, A, B, meta, "");
    }
    json out;
    out["pairs"] = cx.pairs;
    out["stat"] = statJson(cx.rec.stat);
    out["hitInterior"] = mapJson(cx.rec.hitInterior);
    out["drift"] = mapJson(cx.rec.drift);
    out["icase"] = mapJson(cx.rec.icase);
    printf("SUMMARY %s\n", out.dump().c_str());
    return 0;
}

// ------------------------------------------------------------------------------------------ record
struct Rep
{
    P3 p;
    std::vector<std::string> trail;
};

// bisection between two parameter points whose keys differ; returns the last two points
template <class KeyFn>
static bool bisect(KeyFn key, P3 lo, P3 hi, P3 &outLo, P3 &outHi, int iters = 70)
{
    auto klo = key(lo), khi = key(hi);
    if (klo == khi)
        return false;
    for (int i = 0; i < iters && dist(lo, hi) > 1e-14L * (1 + fabsl(lo.a)); ++i)
    {
        P3 mid = lerp(lo, hi, 0.5L);
        auto km = key(mid);
        if (km == klo)
            lo = mid;
        else
        {
            hi = mid;
            khi = km;
        }
    }
    outLo = lo;
    outHi = hi;
    return true;
}

static const LD FAN[8] = {1e-12L, 1e-9L, 1e-7L, 3e-7L, 1e-6L, 3e-6L, 1e-5L, 1e-4L};

static int record(int argc, char **argv)
{
    if (argc < 5)
        return 2;
    const bool thorough = std::string(argv[4]) == "thorough";
    const int part = argc > 5 ? atoi(argv[5]) : 0;   // several recorders run side by side, each with its own stream
    Ctx cx(argv[2], vt::envSeed() * 1000003ULL + 7919ULL * part + 1);
    cx.trace.reset(new vt::Trace(argv[3]));
    const int K = thorough ? 12 : 2;                  // interior pairs per branch case
    const long poolBudget = thorough ? 40000000 : 3000000;
    const int fanPerNode = thorough ? 6 : 1;          // boundary points per decision node
    const long randomPairs = thorough ? 30000 : 1500;
    Gen &g = cx.gen;
    int rr = 0;  // radius round-robin
    json summary;

    auto dkey = [&](const P3 &p, std::vector<std::string> *trail, LD *margin)
    {
        Pose A, B;
        dubinsPair(p, 1.0, 0, 0, 0, A, B);
        Branch br = dubinsBranch(canon(A, B, 1.0), cx.tb);
        if (trail)
            *trail = br.trail;
        if (margin)
            *margin = br.margin;
        return br.id;
    };

    // ---- A. one pool of parameter points per branch case of the model (Dubins, forward)
    std::map<std::string, std::vector<Rep>> pool;
    {
        size_t want = 0;
        for (auto &kv : cx.tb.word)
            if (kv.first.compare(0, 3, "sym") != 0 && !cx.tb.excluded.count(kv.first))
                ++want;
        long tries = 0;
        size_t full = 0;
        for (; tries < poolBudget && full < want; ++tries)
        {
            P3 p = g.dubins((int)(tries % 6));
            if (tries % 97 == 0)  // the trivial case: same place, same heading
            {
                LD a = g.ang();
                p = P3{g.u() * 8e-7, a, m2(a + (g.u() - .5) * 1.6e-6)};
            }
            std::vector<std::string> tr;
            LD m;
            std::string id = dkey(p, &tr, &m);
            bool triv = tr.size() == 1;
            if (m <= (triv ? 1e-7 : cx.interiorMargin * 2))
                continue;
            auto &v = pool[id];
            if ((int)v.size() < K + 2)
            {
                v.push_back(Rep{p, tr});
                if ((int)v.size() == K + 2 && cx.tb.word.count(id) && !cx.tb.excluded.count(id))
                    ++full;
            }
        }
        summary["poolTries"] = tries;
    }
    for (auto &kv : pool)
        for (int k = 0; k < (int)kv.second.size() && k < K; ++k)
        {
            Spaces &S = cx.sp(rr++);
            Pose A, B;
            dubinsPair(kv.second[k].p, S.rho, g.ang(), (g.u() - .5) * 20, (g.u() - .5) * 20, A, B);
            Meta meta;
            meta.fam = "branch-case";
            cx.pair(S, A, B, meta, "");
        }

    // ---- B. every decision node straddled: bisect between pool points of two cases, then a fan of
    //         offsets on both sides of the boundary (1e-12 ... 1e-4, i.e. below and above the float resolution
    //         the library's switching functions are evaluated with)
    std::map<std::string, int> nodeDone;
    {
        std::vector<std::pair<const Rep *, const Rep *>> cand;
        std::vector<const Rep *> all;
        for (auto &kv : pool)
            for (auto &r : kv.second)
                all.push_back(&r);
        for (const std::string &node : cx.tb.nodes)
        {
            if (node == "sym")
                continue;
            int found = 0;
            // pool points of two cases whose decisions first differ at this node
            cand.clear();
            for (const Rep *p : all)
                for (const Rep *q : all)
                    if (p < q && firstDiff(p->trail, q->trail) == node)
                        cand.emplace_back(p, q);
            for (int attempt = 0; attempt < 400 && found < fanPerNode && !cand.empty(); ++attempt)
            {
                auto pq = cand[g.rng.below((int)cand.size())];
                const Rep *p = pq.first, *q = pq.second;
                P3 lo, hi;
                std::vector<std::string> tlo, thi;
                if (!bisect([&](const P3 &x) { return dkey(x, nullptr, nullptr); }, p->p, q->p, lo, hi))
                    continue;
                dkey(lo, &tlo, nullptr);
                dkey(hi, &thi, nullptr);
                if (firstDiff(tlo, thi) != node)
                    continue;
                ++found;
                P3 x = lerp(lo, hi, 0.5L);
                LD len = dist(p->p, q->p);
                P3 u{(q->p.a - p->p.a) / len, (q->p.b - p->p.b) / len, (q->p.c - p->p.c) / len};
                Spaces &S = cx.sp(rr++);
                for (int side = -1; side <= 1; side += 2)
                    for (int k = 0; k < 8; ++k)
                    {
                        LD eps = side * FAN[k];
                        P3 y{x.a + u.a * eps, x.b + u.b * eps, x.c + u.c * eps};
                        if (y.a < 0)
                            continue;
                        Pose A, B;
                        dubinsPair(y, S.rho, 0, 0, 0, A, B);
                        Meta meta;
                        meta.fam = "boundary";
                        meta.bnd = node;
                        meta.off = side * (k + 1);
                        cx.pair(S, A, B, meta, "dubins");
                    }
            }
            nodeDone[node] = found;
        }
        // the symmetric choice: forward and backward optimum change places
        int found = 0;
        auto skey = [&](const P3 &p)
        {
            Pose A, B;
            dubinsPair(p, 1.0, 0, 0, 0, A, B);
            return sixWords(canon(B, A, 1.0).d, canon(B, A, 1.0).alpha, canon(B, A, 1.0).beta).opt <
                   sixWords(canon(A, B, 1.0).d, canon(A, B, 1.0).alpha, canon(A, B, 1.0).beta).opt;
        };
        for (int attempt = 0; attempt < 4000 && found < std::max(2, fanPerNode); ++attempt)
        {
            const Rep *p = all[g.rng.below((int)all.size())], *q = all[g.rng.below((int)all.size())];
            P3 lo, hi;
            if (!bisect(skey, p->p, q->p, lo, hi))
                continue;
            ++found;
            P3 x = lerp(lo, hi, 0.5L);
            LD len = dist(p->p, q->p);
            P3 u{(q->p.a - p->p.a) / len, (q->p.b - p->p.b) / len, (q->p.c - p->p.c) / len};
            Spaces &S = cx.sp(rr++);
            for (int side = -1; side <= 1; side += 2)
                for (int k = 0; k < 8; ++k)
                {
                    LD eps = side * FAN[k];
                    P3 y{x.a + u.a * eps, x.b + u.b * eps, x.c + u.c * eps};
                    if (y.a < 0)
                        continue;
                    Pose A, B;
                    dubinsPair(y, S.rho, 0, 0, 0, A, B);
                    Meta meta;
                    meta.fam = "boundary";
                    meta.bnd = "sym";
                    meta.off = side * (k + 1);
                    cx.pair(S, A, B, meta, "sym");
                }
        }
        nodeDone["sym"] = found;
    }

    // ---- C. headings on the quadrant boundaries of the classification table, exactly and one ulp off
    {
        const double h = M_PI / 2;
        // double headings whose normalised value is exactly 0, pi/2, pi, 3pi/2 (the line A->B is the x axis)
        const double exact[8] = {0., NAN, h, NAN, M_PI, NAN, -h, NAN};
        for (int pa = 0; pa < 8; ++pa)
            for (int pb = 0; pb < 8; ++pb)
                for (int ulp = -1; ulp <= 1; ++ulp)
                {
                    if (ulp != 0 && pa % 2 == 1 && pb % 2 == 1)
                        continue;
                    for (int rep = 0; rep < (thorough ? 6 : 1); ++rep)
                    {
                        auto pick = [&](int pos)
                        {
                            if (pos % 2 == 0)
                            {
                                double v = exact[pos];
                                if (ulp > 0)
                                    v = nextafter(v, 10.);
                                if (ulp < 0)
                                    v = nextafter(v, -10.);
                                return v;
                            }
                            double lo = (pos / 2) * h;
                            return wrapD(lo + (0.02 + 0.96 * g.u()) * h);
                        };
                        Spaces &S = cx.sp(rr++);
                        double a = pick(pa), b = pick(pb);
                        double d = 4.6 + g.u() * (rep % 2 ? 40 : 4);
                        Pose A{0, 0, a}, B{S.rho * d, 0, b};
                        Meta meta;
                        meta.fam = ulp == 0 ? "quadrant-boundary" : "quadrant-boundary-ulp";
                        meta.qa = pa;
                        meta.qb = pb;
                        meta.ulp = ulp;
                        cx.pair(S, A, B, meta, "");
                    }
                }
    }

    // ---- D. special families of the quantifier
    {
        const int reps = thorough ? 40 : 6;
        const double quad[5] = {0., M_PI / 2, M_PI, -M_PI / 2, -M_PI};
        for (int r = 0; r < reps; ++r)
        {
            // identical positions, different headings
            for (int k = 0; k < 8; ++k)
            {
                Spaces &S = cx.sp(rr++);
                double x = (g.u() - .5) * 10, y = (g.u() - .5) * 10;
                double a = k < 5 ? quad[k] : g.ang() - M_PI, b = k < 3 ? quad[(k + 1 + r) % 5] : g.ang() - M_PI;
                if (k == 7)
                    b = wrapD(a + (g.u() - .5) * 1e-5);
                Meta meta;
                meta.fam = "same-position";
                cx.pair(S, Pose{x, y, a}, Pose{x, y, b}, meta, "");
            }
            // collinear: both headings along (or against) the joining line
            for (int k = 0; k < 8; ++k)
            {
                Spaces &S = cx.sp(rr++);
                double th = (k & 4) ? quad[r % 4] : g.ang() - M_PI, d = (k & 4) ? 1 + (r % 7) : g.u() * (r % 2 ? 3.5 : 30);
                double a = wrapD(th + ((k & 1) ? M_PI : 0)), b = wrapD(th + ((k & 2) ? M_PI : 0));
                Meta meta;
                meta.fam = "collinear";
                cx.pair(S, Pose{0.5, -0.25, a}, Pose{0.5 + S.rho * d * cos(th), -0.25 + S.rho * d * sin(th), b}, meta, "");
            }
            // closer than four radii (CCC words win), including nearly coincident positions
            for (int k = 0; k < 8; ++k)
            {
                Spaces &S = cx.sp(rr++);
                double d = k < 4 ? g.u() * 4 : pow(10, -9 + 8 * g.u());
                P3 p{d, g.ang(), g.ang()};
                Pose A, B;
                dubinsPair(p, S.rho, g.ang(), (g.u() - .5) * 4, (g.u() - .5) * 4, A, B);
                Meta meta;
                meta.fam = k < 4 ? "within-four-radii" : "nearly-coincident";
                cx.pair(S, A, B, meta, "");
            }
            // headings exact multiples of pi/2 on lattice positions
            for (int k = 0; k < 8; ++k)
            {
                Spaces &S = cx.sp(rr++);
                Meta meta;
                meta.fam = "lattice-headings";
                Pose A{0, 0, quad[g.rng.below(5)]}, B{S.rho * (g.rng.below(13) - 6), S.rho * (g.rng.below(13) - 6), quad[g.rng.below(5)]};
                cx.pair(S, A, B, meta, "");
            }
            // a CSC word whose first or last arc is tiny (1e-7 .. 2e-6 rad): next to the 0 / 2pi seam of the arc angles
            // the switching functions read, around the 5e-7 below which the library snaps an angle to 0
            for (int k = 0; k < 16; ++k)
            {
                static const double tiny[8] = {3e-7, 4.9e-7, 5.02e-7, 5.05e-7, 5.08e-7, 5.15e-7, 5.3e-7, 1e-6};
                Spaces &S = cx.sp(rr++);
                const char *w = DWORD_SEG[2 + (k + r) % 2];   // RSL, LSR: the words the end-arc switching functions decide against
                LD x = 0, y = 0, th = g.ang() - M_PI, th0 = th;
                LD t = 0.2 + 2.6 * g.u(), p = 1 + 15 * g.u() * g.u(), q = tiny[k % 8];
                if (k / 8)
                    std::swap(t, q);
                advance(x, y, th, w[0], t);
                advance(x, y, th, w[1], p);
                advance(x, y, th, w[2], q);
                Meta meta;
                meta.fam = "tiny-end-arc";
                Pose A{0, 0, wrapD((double)th0)}, B{(double)(x * S.rho), (double)(y * S.rho), wrapD((double)th)};
                cx.pair(S, A, B, meta, "");
                cx.pair(S, B, A, meta, "");
            }
            // far apart: 1e3 radii
            for (int k = 0; k < 4; ++k)
            {
                Spaces &S = cx.sp(rr++);
                P3 p{1000 * (0.5 + g.u()), g.ang(), g.ang()};
                Pose A, B;
                dubinsPair(p, S.rho, g.ang(), 0, 0, A, B);
                Meta meta;
                meta.fam = "far-apart";
                cx.pair(S, A, B, meta, "");
            }
        }
        for (long k = 0; k < randomPairs; ++k)
        {
            Spaces &S = cx.sp(rr++);
            Pose A, B;
            Meta meta;
            if (k % 2)
            {
                dubinsPair(g.dubins((int)(k / 2 % 6)), S.rho, g.ang(), (g.u() - .5) * 20, (g.u() - .5) * 20, A, B);
                meta.fam = "random-dubins";
            }
            else
            {
                rsPair(g.rs((int)(k / 2 % 4)), S.rho, g.ang() - M_PI, (g.u() - .5) * 20, (g.u() - .5) * 20, A, B);
                meta.fam = "random-rs";
            }
            cx.pair(S, A, B, meta, "");
            if (k % 4 < 2)
            {
                // the end point of a prefix of the reported curve as a target of its own: the degenerate geometry
                // (a word with a zero-length last segment) every planner produces by interpolating
                ob::StateSpace *sp = k % 4 == 0 ? (ob::StateSpace *)S.dub.get() : (ob::StateSpace *)S.rs.get();
                St a(sp, A), b(sp, B), s(sp);
                sp->interpolate(a.s, b.s, (1 + g.rng.below(7)) / 8.0, s.s);
                meta.fam = k % 4 == 0 ? "prefix-target-dubins" : "prefix-target-rs";
                Pose P = s.get();
                if (std::isfinite(P.x) && std::isfinite(P.y) && std::isfinite(P.th))
                    cx.pair(S, A, P, meta, "");
            }
        }
    }

    // ---- E. Reeds-Shepp: the case (table row + segment signs) is what the real space reports; a pool per
    //         case, then bisection between cases for pairs just on either side of every change of word
    {
        Spaces &S1 = cx.sp(2);  // rho = 1 for the search
        St a(S1.rs.get()), b(S1.rs.get());
        auto rkey = [&](const P3 &p)
        {
            Pose A, B;
            rsPair(p, 1.0, 0, 0, 0, A, B);
            a.set(A);
            b.set(B);
            auto path = S1.rs->reedsShepp(a.s, b.s);
            int row = (int)((path.type_ - &ob::ReedsSheppStateSpace::reedsSheppPathType[0][0]) / 5);
            std::string s = std::to_string(row) + ":";
            LD mn = INF;
            for (int k = 0; k < 5; ++k)
                if (path.type_[k] != ob::ReedsSheppStateSpace::RS_NOP)
                {
                    s += path.length_[k] > 0 ? '+' : path.length_[k] < 0 ? '-' : '0';
                    mn = std::min(mn, (LD)fabs(path.length_[k]));
                }
            return std::make_pair(s, mn);
        };
        std::map<std::string, std::vector<P3>> rpool;
        size_t want = cx.tb.rsCase.size(), full = 0;
        long tries = 0;
        const long budget = thorough ? 20000000 : 1500000;
        for (; tries < budget && (want == 0 || full < want); ++tries)
        {
            P3 p = g.rs((int)(tries % 3));
            auto k = rkey(p);
            if (k.second <= cx.interiorMargin * 2)
                continue;
            auto &v = rpool[k.first];
            if ((int)v.size() < K + 2)
            {
                v.push_back(p);
                if ((int)v.size() == K + 2 && cx.tb.rsCase.count(k.first))
                    ++full;
            }
        }
        summary["rsPoolTries"] = tries;
        std::vector<std::pair<std::string, P3>> all;
        for (auto &kv : rpool)
            for (int k = 0; k < (int)kv.second.size(); ++k)
            {
                all.emplace_back(kv.first, kv.second[k]);
                if (k >= K)
                    continue;
                Spaces &S = cx.sp(rr++);
                Pose A, B;
                rsPair(kv.second[k], S.rho, g.ang() - M_PI, (g.u() - .5) * 20, (g.u() - .5) * 20, A, B);
                Meta meta;
                meta.fam = "branch-case-rs";
                cx.pair(S, A, B, meta, "");
            }
        std::map<std::string, int> straddled;
        const int perCase = thorough ? 6 : 1;
        for (auto &kv : rpool)
        {
            int found = 0;
            for (int attempt = 0; attempt < 200 && found < perCase; ++attempt)
            {
                const P3 &p = kv.second[g.rng.below((int)kv.second.size())];
                auto &other = all[g.rng.below((int)all.size())];
                if (other.first == kv.first)
                    continue;
                P3 lo, hi;
                if (!bisect([&](const P3 &x) { return rkey(x).first; }, p, other.second, lo, hi))
                    continue;
                std::string c1 = rkey(lo).first, c2 = rkey(hi).first;
                if (c1 != kv.first || c1.find('0', c1.find(':')) != std::string::npos || c2.find('0', c2.find(':')) != std::string::npos)
                    continue;
                ++found;
                std::string node = "rs:" + std::min(c1, c2) + "|" + std::max(c1, c2);
                ++cx.rec.rsPairs[node];
                P3 x = lerp(lo, hi, 0.5L);
                LD len = dist(p, other.second);
                P3 u{(other.second.a - p.a) / len, (other.second.b - p.b) / len, (other.second.c - p.c) / len};
                Spaces &S = cx.sp(rr++);
                for (int side = -1; side <= 1; side += 2)
                    for (int k = 0; k < 8; k += 1)
                    {
                        LD eps = side * FAN[k];
                        P3 y{x.a + u.a * eps, x.b + u.b * eps, x.c + u.c * eps};
                        Pose A, B;
                        rsPair(y, S.rho, 0, 0, 0, A, B);
                        Meta meta;
                        meta.fam = "boundary-rs";
                        meta.bnd = node;
                        meta.off = side * (k + 1);
                        cx.pair(S, A, B, meta, "rs");
                    }
            }
            straddled[kv.first] = found;
        }
        summary["rsStraddled"] = mapJson(straddled);
    }

    cx.trace->close();
    summary["pairs"] = cx.pairs;
    summary["events"] = cx.rec.events;
    summary["hitInterior"] = mapJson(cx.rec.hitInterior);
    summary["hitAny"] = mapJson(cx.rec.hitAny);
    summary["nodes"] = mapJson(nodeDone);
    summary["bndSide"] = mapJson(cx.rec.bndSide);
    summary["qpos"] = mapJson(cx.rec.qposHit);
    summary["icase"] = mapJson(cx.rec.icase);
    summary["drift"] = mapJson(cx.rec.drift);
    summary["fam"] = mapJson(cx.rec.famCount);
    summary["rsPairs"] = mapJson(cx.rec.rsPairs);
    summary["stat"] = statJson(cx.rec.stat);
    printf("SUMMARY %s\n", summary.dump().c_str());
    return 0;
}

// how often each combination of the five running-minimum comparisons of dubinsExhaustive occurs over the short
// region (oracle only, no library call): the evidence behind the list of excluded combinations
static int scan(int argc, char **argv)
{
    Ctx cx(argv[2], vt::envSeed());
    long n = atol(argv[3]);
    std::map<std::string, long> cnt, interior;
    for (long k = 0; k < n; ++k)
    {
        P3 p = cx.gen.dubins(k % 2 ? 2 : 3);
        Pose A, B;
        dubinsPair(p, 1.0, 0, 0, 0, A, B);
        Branch br = dubinsBranch(canon(A, B, 1.0), cx.tb);
        if (br.kind != "short")
            continue;
        ++cnt[br.id];
        if (br.margin > 1e-3)
            ++interior[br.id];
    }
    printf("SUMMARY %s\n", json{{"n", n}, {"any", mapJson(cnt)}, {"interior", mapJson(interior)}}.dump().c_str());
    return 0;
}

static int one(int argc, char **argv)
{
    if (argc < 11)
        return 2;
    Ctx cx(argv[2], 1);
    cx.trace.reset(new vt::Trace(argv[3]));
    double v[7];
    for (int i = 0; i < 7; ++i)
        v[i] = strtod(argv[4 + i], nullptr);
    Spaces S(v[6]);
    Meta meta;
    meta.fam = "replay";
    cx.pair(S, Pose{v[0], v[1], v[2]}, Pose{v[3], v[4], v[5]}, meta, "");
    cx.trace->close();
    printf("SUMMARY %s\n", json{{"pairs", 1}, {"events", cx.rec.events}, {"stat", statJson(cx.rec.stat)}}.dump().c_str());
    return 0;
}

int main(int argc, char **argv)
{
    vt::installCrashHandlers();
    ompl::msg::setLogLevel(ompl::msg::LOG_NONE);
    if (argc < 3)
    {
        fprintf(stderr, "usage: curves record|measure|one ...\n");
        return 2;
    }
    std::string mode = argv[1];
    if (mode == "measure")
        return measure(argc, argv);
    if (mode == "record")
        return record(argc, argv);
    if (mode == "one")
        return one(argc, argv);
    if (mode == "scan")
        return scan(argc, argv);
    return 2;
}
