// C09 helpers: build a real ompl state space from a shape emitted by specs/base/StateLayout.tla,
// fill / read back states through the typed members only ("dumb projection"), capture console
// output.  Included by storage.cpp and storage_xkind.cpp.
#pragma once
#include "vtrace.h"
#include <ompl/base/StateSpace.h>
#include <ompl/base/ScopedState.h>
#include <ompl/base/spaces/RealVectorStateSpace.h>
#include <ompl/base/spaces/SO2StateSpace.h>
#include <ompl/base/spaces/SO3StateSpace.h>
#include <ompl/base/spaces/SE2StateSpace.h>
#include <ompl/base/spaces/SE3StateSpace.h>
#include <ompl/base/spaces/TimeStateSpace.h>
#include <ompl/base/spaces/DiscreteStateSpace.h>
#include <ompl/base/spaces/WrapperStateSpace.h>
#include <ompl/util/Console.h>
#include <cmath>
#include <memory>
#include <set>

namespace ob = ompl::base;
using vt::json;

namespace c09
{
    // ------------------------------------------------------------ console capture
    struct Capture : ompl::msg::OutputHandler
    {
        int err{0}, warn{0};
        std::string last;
        void log(const std::string &text, ompl::msg::LogLevel level, const char *, int) override
        {
            if (level == ompl::msg::LOG_ERROR)
            {
                ++err;
                last = text;
            }
            else if (level == ompl::msg::LOG_WARN)
            {
                ++warn;
                last = text;
            }
        }
        void reset()
        {
            err = warn = 0;
            last.clear();
        }
        int reported() const
        {
            return err + warn;
        }
    };
    inline Capture &capture()
    {
        static Capture c;
        return c;
    }
    inline void installCapture()
    {
        ompl::msg::useOutputHandler(&capture());
        ompl::msg::setLogLevel(ompl::msg::LOG_WARN);
    }

    struct FrameworkFailure : std::runtime_error
    {
        using std::runtime_error::runtime_error;
    };

    // ------------------------------------------------------------ shapes
    struct NodeInfo
    {
        std::vector<int> path;
        std::string name, k;
        int off, len, v0, nv;
        bool leaf;
        int lo, hi;
    };

    inline std::string pathKey(const std::vector<int> &p)
    {
        std::string s = "/";
        for (int i : p)
            s += std::to_string(i) + "/";
        return s;
    }

    struct Shape
    {
        std::string id;
        json shape;
        bool wrapped{false}, unique{false}, pair{false};
        std::vector<int> sig;
        int len{0}, nvals{0}, dim{0};
        std::vector<NodeInfo> nodes;
        std::vector<std::pair<std::vector<int>, int>> vorder;
        ob::StateSpacePtr root;   // what the user holds (the wrapper, if wrapped)
        ob::StateSpacePtr inner;  // the space below the wrapper (== root otherwise)
        std::string drift;        // non-empty: the library's SE2/SE3 definition differs from the model's

        std::vector<const NodeInfo *> leaves() const
        {
            std::vector<const NodeInfo *> r;
            for (auto &n : nodes)
                if (n.leaf)
                    r.push_back(&n);
            return r;
        }
        const NodeInfo *nodeAt(const std::vector<int> &p) const
        {
            for (auto &n : nodes)
                if (n.path == p)
                    return &n;
            return nullptr;
        }
    };

    inline ob::StateSpacePtr buildNode(const json &sh, std::vector<int> &path, const std::map<std::string, std::string> &names,
                                       bool unique, std::string &drift)
    {
        const std::string k = sh["k"].get<std::string>();
        const int n = sh["n"].get<int>(), lo = sh["lo"].get<int>(), hi = sh["hi"].get<int>();
        auto nameOf = [&](const std::vector<int> &p) {
            auto it = names.find(pathKey(p));
            if (it == names.end())
                throw FrameworkFailure("shape row has no node for path " + pathKey(p));
            return unique ? it->second : it->second + "@" + pathKey(p);
        };
        ob::StateSpacePtr sp;
        if (k == "RV")
        {
            auto rv = std::make_shared<ob::RealVectorStateSpace>(n);
            ob::RealVectorBounds b(n);
            b.setLow(-(1000.0 + lo));
            b.setHigh(1000.0 + hi);
            rv->setBounds(b);
            sp = rv;
        }
        else if (k == "SO2")
            sp = std::make_shared<ob::SO2StateSpace>();
        else if (k == "SO3")
            sp = std::make_shared<ob::SO3StateSpace>();
        else if (k == "T")
            sp = std::make_shared<ob::TimeStateSpace>();
        else if (k == "D")
            sp = std::make_shared<ob::DiscreteStateSpace>(lo, hi);
        else if (k == "C")
        {
            auto c = std::make_shared<ob::CompoundStateSpace>();
            for (std::size_t i = 0; i < sh["ch"].size(); ++i)
            {
                path.push_back((int)i);
                auto child = buildNode(sh["ch"][i], path, names, unique, drift);
                path.pop_back();
                c->addSubspace(child, sh["w"][i].get<int>() / 2.0);
            }
            sp = c;
        }
        else if (k == "SE2" || k == "SE3")
        {
            std::shared_ptr<ob::CompoundStateSpace> c;
            if (k == "SE2")
            {
                auto se = std::make_shared<ob::SE2StateSpace>();
                ob::RealVectorBounds b(2);
                b.setLow(-1000);
                b.setHigh(1000);
                se->setBounds(b);
                c = se;
            }
            else
            {
                auto se = std::make_shared<ob::SE3StateSpace>();
                ob::RealVectorBounds b(3);
                b.setLow(-1000);
                b.setHigh(1000);
                se->setBounds(b);
                c = se;
            }
            if (c->getSubspaceCount() != sh["ch"].size())
                drift = k + " has " + std::to_string(c->getSubspaceCount()) + " components";
            else
                for (unsigned int i = 0; i < c->getSubspaceCount(); ++i)
                {
                    path.push_back((int)i);
                    c->getSubspace(i)->setName(nameOf(path));
                    path.pop_back();
                }
            sp = c;
        }
        else
            throw FrameworkFailure("unknown shape kind " + k);
        sp->setName(nameOf(path));
        return sp;
    }

    inline std::shared_ptr<Shape> makeShape(const json &row)
    {
        auto s = std::make_shared<Shape>();
        s->id = row["id"].get<std::string>();
        s->shape = row["shape"];
        s->wrapped = row["wrapped"].get<bool>();
        s->unique = row["unique"].get<bool>();
        s->pair = row["pair"].get<bool>();
        s->sig = row["sig"].get<std::vector<int>>();
        s->len = row["len"].get<int>();
        s->nvals = row["nvals"].get<int>();
        s->dim = row["dim"].get<int>();
        std::map<std::string, std::string> names;
        for (auto &n : row["nodes"])
        {
            NodeInfo ni{n["path"].get<std::vector<int>>(), n["name"].get<std::string>(), n["k"].get<std::string>(),
                        n["off"].get<int>(),               n["len"].get<int>(),          n["v0"].get<int>(),
                        n["nv"].get<int>(),                n["leaf"].get<bool>(),        n["lo"].get<int>(),
                        n["hi"].get<int>()};
            names[pathKey(ni.path)] = ni.name;
            s->nodes.push_back(std::move(ni));
        }
        for (auto &v : row["vorder"])
            s->vorder.emplace_back(v["path"].get<std::vector<int>>(), v["idx"].get<int>());
        std::vector<int> path;
        const json &innerShape = s->wrapped ? s->shape["ch"][0] : s->shape;
        s->inner = buildNode(innerShape, path, names, s->unique, s->drift);
        // value / substate locations without setup(): setup() refuses spaces of zero extent
        s->inner->computeLocations();
        s->root = s->wrapped ? std::make_shared<ob::WrapperStateSpace>(s->inner) : s->inner;
        return s;
    }

    // ------------------------------------------------------------ navigation (typed members only)
    inline ob::State *unwrap(const Shape &s, ob::State *st)
    {
        return s.wrapped ? st->as<ob::WrapperStateSpace::StateType>()->getState() : st;
    }
    inline const ob::State *unwrap(const Shape &s, const ob::State *st)
    {
        return s.wrapped ? st->as<ob::WrapperStateSpace::StateType>()->getState() : st;
    }
    inline ob::State *substate(const Shape &s, ob::State *st, const std::vector<int> &path)
    {
        st = unwrap(s, st);
        for (int i : path)
            st = st->as<ob::CompoundState>()->components[i];
        return st;
    }
    inline const ob::State *substate(const Shape &s, const ob::State *st, const std::vector<int> &path)
    {
        return substate(s, const_cast<ob::State *>(st), path);
    }
    inline const ob::StateSpace *subspace(const Shape &s, const std::vector<int> &path)
    {
        const ob::StateSpace *sp = s.inner.get();
        for (int i : path)
            sp = sp->as<ob::CompoundStateSpace>()->getSubspace(i).get();
        return sp;
    }
    inline double *leafDouble(const NodeInfo &n, ob::State *leaf, int i)
    {
        if (n.k == "RV")
            return leaf->as<ob::RealVectorStateSpace::StateType>()->values + i;
        if (n.k == "SO2")
            return &leaf->as<ob::SO2StateSpace::StateType>()->value;
        if (n.k == "T")
            return &leaf->as<ob::TimeStateSpace::StateType>()->position;
        if (n.k == "SO3")
        {
            auto *q = leaf->as<ob::SO3StateSpace::StateType>();
            return i == 0 ? &q->x : i == 1 ? &q->y : i == 2 ? &q->z : &q->w;
        }
        throw FrameworkFailure("leafDouble on " + n.k);
    }

    // ------------------------------------------------------------ sentinel values
    struct Values
    {
        std::vector<double> d;  // by value index (the model's value order)
        std::vector<int> z;     // discrete components in leaf order
        bool operator==(const Values &o) const
        {
            return d.size() == o.d.size() && z == o.z &&
                   (d.empty() || memcmp(d.data(), o.d.data(), d.size() * sizeof(double)) == 0);
        }
        bool operator!=(const Values &o) const
        {
            return !(*this == o);
        }
        std::string str() const
        {
            std::ostringstream o;
            o.precision(17);
            o << "d=[";
            for (double x : d)
                o << x << " ";
            o << "] z=[";
            for (int x : z)
                o << x << " ";
            o << "]";
            return o.str();
        }
    };
    inline double raw(int m, int salt)
    {
        return 0.25 + 1.75 * m + 0.0625 * salt + 0.001 * m * salt;
    }
    // the values a state of this shape holds when filled with `salt`
    inline Values expected(const Shape &s, int salt)
    {
        Values v;
        v.d.assign(s.nvals, 0.0);
        int ordinal = 0;
        for (const NodeInfo *n : s.leaves())
        {
            if (n->k == "D")
            {
                v.z.push_back(n->lo + (salt * 7 + ordinal * 3) % (n->hi - n->lo + 1));
                ++ordinal;
                continue;
            }
            if (n->k == "SO3")
            {
                double q[4], norm = 0;
                for (int i = 0; i < 4; ++i)
                {
                    q[i] = raw(n->v0 + i, salt);
                    norm += q[i] * q[i];
                }
                norm = std::sqrt(norm);
                for (int i = 0; i < 4; ++i)
                    v.d[n->v0 + i] = q[i] / norm;
            }
            else if (n->k == "SO2")
            {
                double r = raw(n->v0, salt);
                v.d[n->v0] = 3.0 * r / (1.0 + std::fabs(r)) - 1.5;
            }
            else
                for (int i = 0; i < n->nv; ++i)
                    v.d[n->v0 + i] = raw(n->v0 + i, salt);
        }
        return v;
    }
    inline void write(const Shape &s, ob::State *st, const Values &v)
    {
        int ordinal = 0;
        for (const NodeInfo *n : s.leaves())
        {
            ob::State *leaf = substate(s, st, n->path);
            if (n->k == "D")
                leaf->as<ob::DiscreteStateSpace::StateType>()->value = v.z[ordinal++];
            else
                for (int i = 0; i < n->nv; ++i)
                    *leafDouble(*n, leaf, i) = v.d[n->v0 + i];
        }
    }
    inline void fill(const Shape &s, ob::State *st, int salt)
    {
        write(s, st, expected(s, salt));
    }
    inline Values project(const Shape &s, const ob::State *cst)
    {
        auto *st = const_cast<ob::State *>(cst);
        Values v;
        v.d.assign(s.nvals, 0.0);
        for (const NodeInfo *n : s.leaves())
        {
            ob::State *leaf = substate(s, st, n->path);
            if (n->k == "D")
                v.z.push_back(leaf->as<ob::DiscreteStateSpace::StateType>()->value);
            else
                for (int i = 0; i < n->nv; ++i)
                    v.d[n->v0 + i] = *leafDouble(*n, leaf, i);
        }
        return v;
    }
    // the byte image the model's layout prescribes for these values
    inline std::string imageOf(const Shape &s, const Values &v)
    {
        std::string img(s.len, '\0');
        int ordinal = 0;
        for (const NodeInfo *n : s.leaves())
        {
            if (n->k == "D")
                memcpy(&img[n->off], &v.z[ordinal++], sizeof(int));
            else
                for (int i = 0; i < n->nv; ++i)
                    memcpy(&img[n->off + 8 * i], &v.d[n->v0 + i], sizeof(double));
        }
        return img;
    }
    inline std::string serializeState(const ob::StateSpace *sp, const ob::State *st)
    {
        const unsigned int l = sp->getSerializationLength();
        std::string buf(l + 32, '\xAB');
        sp->serialize(&buf[16], st);
        for (int i = 0; i < 16; ++i)
            if (buf[i] != '\xAB' || buf[16 + l + i] != '\xAB')
                return std::string("GUARD");
        return buf.substr(16, l);
    }
    inline bool distinctSentinels(const Values &v)
    {
        std::set<double> s(v.d.begin(), v.d.end());
        return s.size() == v.d.size();
    }

    struct Holder  // RAII state
    {
        const ob::StateSpace *sp;
        ob::State *st;
        explicit Holder(const ob::StateSpacePtr &s) : sp(s.get()), st(s->allocState())
        {
        }
        Holder(const Holder &) = delete;
        ~Holder()
        {
            sp->freeState(st);
        }
    };
}
