// C18 harness: binds specs/base/{PTC,PTCTrace,CostConvergence,PTCTimedTrace}.tla to the real
// termination conditions of ompl::base.
//
//   ptc replay   <graph.ndjson> <edges|pairs> <walks>   replay TLC's state graph (spec -> impl)
//   ptc record   <out.ndjson> <sample|all> <n> <len>    random histories on real terms (impl -> spec)
//   ptc costconv <scenarios.ndjson>                     cost sequences through the real callback
//   ptc timed    <out.ndjson> <nexec> <jobs> [races]    timed / periodic forms with timestamps;
//                                                       races: rounds of terminate() during an in-flight predicate
//
// Terms are built exclusively from the library's factory functions; user predicates read harness
// flags and count their invocations.
#include "vtrace.h"
#include "ompl/base/PlannerTerminationCondition.h"
#include "ompl/base/ProblemDefinition.h"
#include "ompl/base/SpaceInformation.h"
#include "ompl/base/spaces/RealVectorStateSpace.h"
#include "ompl/base/objectives/PathLengthOptimizationObjective.h"
#include "ompl/base/terminationconditions/IterationTerminationCondition.h"
#include "ompl/base/terminationconditions/CostConvergenceTerminationCondition.h"
#include "ompl/geometric/PathGeometric.h"
#include "ompl/util/Console.h"
#include "ompl/util/Time.h"
#include <atomic>
#include <chrono>
#include <memory>
#include <mutex>
#include <thread>

namespace ob = ompl::base;
using vt::json;
using PTC = ob::PlannerTerminationCondition;

static ob::SpaceInformationPtr g_si;
static ob::PathPtr g_path;

static void initSpace()
{
    ompl::msg::setLogLevel(ompl::msg::LOG_ERROR);
    auto space = std::make_shared<ob::RealVectorStateSpace>(1);
    space->setBounds(0.0, 1.0);
    g_si = std::make_shared<ob::SpaceInformation>(space);
    g_path = std::make_shared<ompl::geometric::PathGeometric>(g_si);
}

// ------------------------------------------------------------------ terms
struct NodeDesc
{
    std::string k;
    int a{0}, l{0}, r{0};
};

// state the user predicates read; lives on the heap so that lambdas may keep it alive
struct Env
{
    bool flag[3]{false, false, false};
    long calls[3]{0, 0, 0};
};

struct Term
{
    std::vector<NodeDesc> desc;                // 1-based: desc[0] unused
    std::vector<std::unique_ptr<PTC>> obj;     // the real condition behind each node
    std::shared_ptr<Env> env{std::make_shared<Env>()};
    ob::ProblemDefinitionPtr pdef;
    std::vector<bool> terminated;

    void build(int n)
    {
        if (obj[n])
            return;
        const NodeDesc &d = desc[n];
        if (d.k == "pred")
        {
            auto e = env;
            int p = d.a;
            ob::PlannerTerminationConditionFn fn([e, p] {
                ++e->calls[p];
                return e->flag[p];
            });
            // the direct form has three spellings: no period, period 0 and a negative period ("period > 0:
            // evaluated in a separate thread" - anything else is evaluated by the caller, call for call)
            switch ((n + p) % 3)
            {
                case 0:
                    obj[n] = std::make_unique<PTC>(fn);
                    break;
                case 1:
                    obj[n] = std::make_unique<PTC>(fn, 0.0);
                    break;
                default:
                    obj[n] = std::make_unique<PTC>(fn, -0.5);
            }
        }
        else if (d.k == "always")
            obj[n] = std::make_unique<PTC>(ob::plannerAlwaysTerminatingCondition());
        else if (d.k == "never")
            obj[n] = std::make_unique<PTC>(ob::plannerNonTerminatingCondition());
        else if (d.k == "iter")
        {
            ob::IterationTerminationCondition it((unsigned int)d.a);
            obj[n] = std::make_unique<PTC>(static_cast<PTC>(it));
        }
        else if (d.k == "exact")
        {
            if (!pdef)
                pdef = std::make_shared<ob::ProblemDefinition>(g_si);
            obj[n] = std::make_unique<PTC>(ob::exactSolnPlannerTerminationCondition(pdef));
        }
        else if (d.k == "or" || d.k == "and")
        {
            build(d.l);
            build(d.r);
            // the SAME objects are handed over when an operand occurs twice
            obj[n] = std::make_unique<PTC>(d.k == "or" ? ob::plannerOrTerminationCondition(*obj[d.l], *obj[d.r]) :
                                                         ob::plannerAndTerminationCondition(*obj[d.l], *obj[d.r]));
        }
    }
    void create(const std::vector<NodeDesc> &nodes)
    {
        desc.assign(1, NodeDesc());
        desc.insert(desc.end(), nodes.begin(), nodes.end());
        obj.clear();
        obj.resize(desc.size());
        terminated.assign(desc.size(), false);
        for (std::size_t n = 1; n < desc.size(); ++n)
            if (desc[n].k != "none")
                build((int)n);
    }
    bool live(int n) const
    {
        return n >= 1 && n < (int)desc.size() && desc[n].k != "none";
    }
    // the three spellings of "evaluate" are the same call
    bool eval(int n, int variant)
    {
        const PTC &c = *obj[n];
        switch (variant % 4)
        {
            case 0:
                return c.eval();
            case 1:
                return c();
            case 2:
                return static_cast<bool>(c);
            default:
            {
                PTC cp(c);  // a copy is the same condition (planners receive and copy them freely)
                return cp.eval();
            }
        }
    }
    void terminate(int n, int variant)
    {
        if (variant % 2)
        {
            PTC cp(*obj[n]);
            cp.terminate();
        }
        else
            obj[n]->terminate();
        terminated[n] = true;
    }
    void addSol(bool approx)
    {
        if (!pdef)
            pdef = std::make_shared<ob::ProblemDefinition>(g_si);
        pdef->addSolutionPath(g_path, approx, approx ? 0.5 : -1.0, "harness");
    }
    void clearSol()
    {
        if (pdef)
            pdef->clearSolutionPaths();
    }
};

// mirror of PTC!Tab: the node table of an encoded term
static NodeDesc leafRec(int c)
{
    NodeDesc d;
    if (c == 0 || c == 1)
    {
        d.k = "pred";
        d.a = c + 1;
    }
    else if (c == 2)
        d.k = "always";
    else if (c == 3)
        d.k = "never";
    else if (c >= 4 && c <= 6)
    {
        d.k = "iter";
        d.a = c - 4;
    }
    else
        d.k = "exact";
    return d;
}
static NodeDesc binRec(int op, int l, int r)
{
    NodeDesc d;
    d.k = op == 0 ? "or" : "and";
    d.l = l;
    d.r = r;
    return d;
}
static NodeDesc noneRec()
{
    NodeDesc d;
    d.k = "none";
    return d;
}
static NodeDesc head1(int c, int pos)
{
    return c < 8 ? leafRec(c) : binRec((c - 8) / 64, 2 * pos, 2 * pos + 1);
}
static std::vector<NodeDesc> tableOf(int t)
{
    std::vector<NodeDesc> v(7, noneRec());
    auto L1 = [](int c) { return ((c - 8) % 64) / 8; };
    auto R1 = [](int c) { return (c - 8) % 8; };
    if (t >= 50000)
    {
        auto leaf = [](const char *k, int a) {
            NodeDesc d;
            d.k = k;
            d.a = a;
            return d;
        };
        switch (t)
        {
            case 50001:
                v[0] = binRec(0, 2, 2), v[1] = leaf("iter", 1);
                break;
            case 50002:
                v[0] = binRec(1, 2, 2), v[1] = leaf("iter", 0);
                break;
            case 50003:
                v[0] = binRec(1, 2, 3), v[1] = binRec(0, 4, 5), v[2] = binRec(0, 6, 5), v[3] = leaf("pred", 1),
                v[4] = leaf("iter", 2), v[5] = leaf("pred", 2);
                break;
            case 50004:
                v[0] = binRec(0, 2, 3), v[1] = binRec(1, 3, 4), v[2] = leaf("pred", 1), v[3] = leaf("pred", 2);
                break;
            case 50005:
                v[0] = binRec(1, 2, 3), v[1] = leaf("pred", 1), v[2] = binRec(0, 2, 4), v[3] = leaf("iter", 1);
                break;
            default:
                v[0] = binRec(0, 2, 3), v[1] = binRec(1, 4, 5), v[2] = binRec(1, 5, 4), v[3] = leaf("iter", 1),
                v[4] = leaf("exact", 0);
                break;
        }
        return v;
    }
    if (t < 8)
        v[0] = leafRec(t);
    else if (t < 136)
    {
        v[0] = head1(t, 1);
        v[1] = leafRec(L1(t));
        v[2] = leafRec(R1(t));
    }
    else
    {
        int u = t - 136, o = u / (136 * 136), x = (u % (136 * 136)) / 136, y = u % 136;
        v[0] = binRec(o, 2, 3);
        v[1] = head1(x, 2);
        v[2] = head1(y, 3);
        if (x >= 8)
            v[3] = leafRec(L1(x)), v[4] = leafRec(R1(x));
        if (y >= 8)
            v[5] = leafRec(L1(y)), v[6] = leafRec(R1(y));
    }
    return v;
}
static std::vector<int> universe()
{
    std::vector<int> u;
    for (int t = 0; t < 136; ++t)
        u.push_back(t);
    for (int o = 0; o < 2; ++o)
        for (int x = 0; x < 136; ++x)
            for (int y = 0; y < 136; ++y)
                if (x >= 8 || y >= 8)
                    u.push_back(136 + o * 136 * 136 + x * 136 + y);
    for (int t = 50001; t <= 50006; ++t)
        u.push_back(t);
    return u;
}

// ------------------------------------------------------------------ replay of the state graph
static std::map<std::string, long> g_taken;  // action -> steps executed (vacuity evidence)
static long g_evalTrue = 0, g_evalFalse = 0, g_stickyChecks = 0;

struct Driver
{
    Term term;
    std::string err;
    long nstep{0};

    bool fail(const std::string &cat, const std::string &w)
    {
        if (err.empty())
            err = "[" + cat + "] " + w;
        return false;
    }
    bool step(const vt::Edge &e, bool /*observe*/)
    {
        // results are compared on every step: a prefix that misbehaves invalidates the scenario
        ++nstep;
        ++g_taken[e.a];
        const json &a = e.args;
        if (e.a == "Choose")
        {
            std::vector<NodeDesc> nodes;
            for (auto &j : a["nodes"])
            {
                NodeDesc d;
                d.k = j["k"].get<std::string>();
                d.a = j["a"];
                d.l = j["l"];
                d.r = j["r"];
                nodes.push_back(d);
            }
            term.create(nodes);
        }
        else if (e.a == "FlipPred")
        {
            int p = a["p"];
            term.env->flag[p] = a["v"].get<bool>();
        }
        else if (e.a == "AddSol")
            term.addSol(a["approx"].get<bool>());
        else if (e.a == "ClearSol")
            term.clearSol();
        else if (e.a == "Terminate")
        {
            int n = a["n"];
            term.terminate(n, (int)nstep);
        }
        else if (e.a == "Eval")
        {
            int n = a["n"];
            const std::string &kind = term.desc[n].k;
            term.env->calls[1] = term.env->calls[2] = 0;
            bool r = term.eval(n, (int)nstep);
            (r ? g_evalTrue : g_evalFalse)++;
            bool er = e.exp["r"].get<bool>();
            if (r != er)
                return fail("result:" + kind, "eval() of a '" + kind + "' node returned " + (r ? "true" : "false") +
                                                  ", the specification says " + (er ? "true" : "false"));
            long c1 = e.exp["calls"][0], c2 = e.exp["calls"][1];
            if (term.env->calls[1] != c1 || term.env->calls[2] != c2)
                return fail("calls:" + kind, "eval() of a '" + kind + "' node invoked the predicates (" +
                                                 std::to_string(term.env->calls[1]) + "," +
                                                 std::to_string(term.env->calls[2]) + ") times, the specification says (" +
                                                 std::to_string(c1) + "," + std::to_string(c2) + ")");
        }
        else
            return fail("framework", "unknown action " + e.a);
        return true;
    }
    // contract, independent of the model: every node on which terminate() was called reports true
    bool finish()
    {
        for (std::size_t n = 1; n < term.desc.size(); ++n)
            if (term.terminated[n])
            {
                ++g_stickyChecks;
                for (int v = 0; v < 4; ++v)
                    if (!term.eval((int)n, v))
                        return fail("sticky:" + term.desc[n].k, "a '" + term.desc[n].k +
                                                                    "' node reports false after terminate() was requested");
            }
        return true;
    }
};

static int replayMain(const std::string &path, const std::string &mode, long walks)
{
    vt::Graph g(path);
    vt::Report rep;
    auto make = []() { return Driver(); };
    vt::walkEveryEdge<Driver>(g, rep, make);
    if (mode == "pairs")
        vt::walkEveryPair<Driver>(g, rep, make, [](const vt::Edge &e) { return e.a == "Eval" || e.a == "Terminate"; });
    vt::walkRandom<Driver>(g, rep, make, walks, 40, vt::envSeed());
    json taken = json::object();
    for (auto &t : g_taken)
        taken[t.first] = t.second;
    rep.summary(json{{"edges", g.edges.size()},
                     {"states", g.nStates},
                     {"taken", taken},
                     {"evalTrue", g_evalTrue},
                     {"evalFalse", g_evalFalse},
                     {"stickyChecks", g_stickyChecks}});
    return rep.failures ? 1 : 0;
}

// ------------------------------------------------------------------ recorded random histories
static int recordMain(const std::string &out, const std::string &mode, long n, int len)
{
    vt::Trace tr(out);
    vt::Rng rng(vt::envSeed() * 7919ULL + 13);
    std::vector<int> uni = universe();
    long hist = mode == "all" ? (long)uni.size() : n;
    long evals = 0, trues = 0;
    std::map<std::string, long> rootKinds;
    for (long h = 0; h < hist; ++h)
    {
        int t = mode == "all" ? uni[h] : uni[rng.below((int)uni.size())];
        Term term;
        term.create(tableOf(t));
        std::vector<int> live, preds;
        bool hasExact = false;
        for (int i = 1; i <= 7; ++i)
            if (term.live(i))
            {
                live.push_back(i);
                if (term.desc[i].k == "pred" && std::find(preds.begin(), preds.end(), term.desc[i].a) == preds.end())
                    preds.push_back(term.desc[i].a);
                hasExact = hasExact || term.desc[i].k == "exact";
            }
        tr.emit(json{{"e", "Reset"}});
        tr.emit(json{{"e", "Choose"}, {"t", t}});
        ++rootKinds[term.desc[1].k];
        for (int s = 0; s < len; ++s)
        {
            int op = rng.below(100);
            if (op < 20 && !preds.empty())
            {
                int p = preds[rng.below((int)preds.size())];
                term.env->flag[p] = !term.env->flag[p];
                tr.emit(json{{"e", "Flip"}, {"p", p}});
            }
            else if (op < 32 && hasExact)
            {
                int w = rng.below(3);
                if (w == 2)
                {
                    term.clearSol();
                    tr.emit(json{{"e", "ClearSol"}});
                }
                else
                {
                    term.addSol(w == 0);
                    tr.emit(json{{"e", "AddSol"}, {"approx", w == 0}});
                }
            }
            else if (op < 40)
            {
                int nn = live[rng.below((int)live.size())];
                term.terminate(nn, s);
                tr.emit(json{{"e", "Terminate"}, {"n", nn}});
            }
            else
            {
                // the root twice as often as any other node
                int nn = rng.below(3) == 0 ? 1 : live[rng.below((int)live.size())];
                term.env->calls[1] = term.env->calls[2] = 0;
                bool r = term.eval(nn, s);
                ++evals;
                trues += r;
                tr.emit(json{{"e", "Eval"},
                             {"n", nn},
                             {"r", r},
                             {"c", json::array({term.env->calls[1], term.env->calls[2]})}});
            }
        }
    }
    json rk = json::object();
    for (auto &k : rootKinds)
        rk[k.first] = k.second;
    std::cout << "RECORDED " << json{{"events", tr.count()}, {"histories", hist}, {"evals", evals}, {"true", trues}, {"roots", rk}}.dump()
              << std::endl;
    return 0;
}

// ------------------------------------------------------------------ cost convergence
static int costconvMain(const std::string &path)
{
    vt::Report rep;
    auto pdef = std::make_shared<ob::ProblemDefinition>(g_si);
    pdef->setOptimizationObjective(std::make_shared<ob::PathLengthOptimizationObjective>(g_si));
    const std::vector<const ob::State *> dummy;
    long compared = 0, skippedExact = 0, firedSeen = 0, neverFired = 0;
    for (auto &sc : vt::readNdjson(path))
    {
        const std::size_t w = sc["w"].get<std::size_t>();
        const double eps = 1.0 / sc["ed"].get<double>();
        const auto costs = sc["costs"].get<std::vector<int>>();
        const auto fired = sc["fired"].get<std::vector<bool>>();
        const int firedAt = sc["firedAt"], exactAt = sc["exactAt"];
        // from the first exact hit of a threshold on (unless the rule fired earlier) doubles may
        // legitimately decide either way
        const int stopAt = (exactAt > 0 && (firedAt == 0 || exactAt <= firedAt)) ? exactAt : (int)costs.size() + 1;
        if (stopAt <= (int)costs.size())
            ++skippedExact;
        (firedAt ? firedSeen : neverFired)++;
        for (int style = 0; style < 2; ++style)
        {
            ++rep.scenarios;
            std::string why;
            {
                ob::CostConvergenceTerminationCondition cond(pdef, w, eps);
                const PTC &asBase = cond;  // planners see it as a plain termination condition
                PTC copy = cond;           // ... or as a copy of it
                if (cond() || asBase.eval() || copy())
                    why = "[costconv:initial] condition true before any solution was reported";
                // style 0: call through the problem definition each time (BIT*, AIT*, EIT*)
                // style 1: copy the callback once at the start of solve() (RRT*, RRTXstatic, SST)
                const ob::ReportIntermediateSolutionFn held =
                    style == 1 ? pdef->getIntermediateSolutionCallback() : ob::ReportIntermediateSolutionFn();
                for (int i = 1; i <= (int)costs.size() && why.empty() && i < stopAt; ++i)
                {
                    ++rep.steps;
                    if (style == 0)
                        pdef->getIntermediateSolutionCallback()(nullptr, dummy, ob::Cost((double)costs[i - 1]));
                    else
                        held(nullptr, dummy, ob::Cost((double)costs[i - 1]));
                    bool r = asBase();
                    bool r2 = copy.eval();
                    ++compared;
                    bool er = fired[i - 1];
                    if (r != r2)
                        why = "[costconv:copy] a copy of the condition disagrees with the condition";
                    else if (r != er)
                        why = std::string(r ? "[costconv:early]" : "[costconv:late]") + " after report " + std::to_string(i) +
                              " the condition is " + (r ? "true" : "false") + ", the rule says " + (er ? "true" : "false");
                }
            }
            // the callback holds a copy of the condition, which holds the problem definition
            pdef->setIntermediateSolutionCallback(ob::ReportIntermediateSolutionFn());
            if (!why.empty())
            {
                json s = sc;
                s["style"] = style;
                rep.fail(s, why);
            }
        }
    }
    rep.summary(json{{"compared", compared}, {"skippedExact", skippedExact}, {"fired", firedSeen}, {"neverFired", neverFired}});
    return rep.failures ? 1 : 0;
}

// ------------------------------------------------------------------ timed and periodic forms
using Steady = std::chrono::steady_clock;
static ompl::time::point g_sysEpoch;
static Steady::time_point g_steadyEpoch;
// per worker thread: steady us at which a destruction began, 0 = none pending (read by the watchdog)
static std::vector<std::atomic<long>> g_destroySlots(64);
static thread_local std::atomic<long> *t_destroyBegan = &g_destroySlots[0];

static long long sysUs()
{
    return std::chrono::duration_cast<std::chrono::microseconds>(ompl::time::now() - g_sysEpoch).count();
}
static long long steadyUs()
{
    return std::chrono::duration_cast<std::chrono::microseconds>(Steady::now() - g_steadyEpoch).count();
}

// One execution: its own event buffer and a guard that notices a stepped wall clock.  ompl's
// clock is the system clock; every reading is bracketed by two monotonic readings, which bounds
// the offset between both clocks from both sides.  If the bounds ever contradict each other by
// more than a millisecond the wall clock was stepped and the execution is discarded.
struct Exec
{
    std::vector<json> ev;
    long long offLo{-(1LL << 60)}, offHi{1LL << 60}, last{-(1LL << 60)};
    bool disturbed{false};
    long long stamp()
    {
        long long s1 = steadyUs(), t = sysUs(), s2 = steadyUs();
        offLo = std::max(offLo, t - s2);
        offHi = std::min(offHi, t - s1);
        if (offLo > offHi + 1000 || t < last)
            disturbed = true;
        last = t;
        return t;
    }
    static long long floorMs(long long us)
    {
        return vt::tlcInt(us / 1000);
    }
    static long long ceilMs(long long us)
    {
        return vt::tlcInt((us + 999) / 1000);
    }
};

static void napUs(long us)
{
    if (us > 0)
        std::this_thread::sleep_for(std::chrono::microseconds(us));
}
static long slackMs(long x)
{
    return std::max(10 * x, 1000L);
}

static void timedExec(Exec &x, vt::Rng &rng)
{
    static const int durs[] = {20, 35, 50, 80, 125, 200};
    const int d = durs[rng.below(6)];
    const int form = rng.below(3);  // 0: seconds as double, 1: time::duration, 2: checked in a thread
    int iv = 0;
    if (form == 2)
    {
        static const int num[] = {1, 1, 1, 3, 0};  // d/10, d/4, d/2, 3d (clamped to d by the library), 0
        static const int den[] = {10, 4, 2, 1, 1};
        int k = rng.below(5);
        // interval 0: no evaluator thread, the caller evaluates (the direct form: false-after-duration applies)
        iv = k == 4 ? 0 : std::max(1, d * num[k] / den[k]);
    }
    const int effIv = std::min(iv, d);
    long long cs = x.stamp();
    std::unique_ptr<PTC> c;
    if (form == 0)
        c = std::make_unique<PTC>(ob::timedPlannerTerminationCondition(d / 1000.0));
    else if (form == 1)
        c = std::make_unique<PTC>(ob::timedPlannerTerminationCondition(
            std::chrono::duration_cast<ompl::time::duration>(std::chrono::milliseconds(d))));
    else
        c = std::make_unique<PTC>(ob::timedPlannerTerminationCondition(d / 1000.0, iv / 1000.0));
    long long ce = x.stamp();
    x.ev.push_back(json{{"e", "CreateTimed"}, {"d", d}, {"iv", effIv}, {"cs", Exec::floorMs(cs)}, {"ce", Exec::ceilMs(ce)}});
    // optional early terminate()
    long long termAt = rng.below(10) < 3 ? ce + (long long)rng.below(d) * 1000 : -1;
    // poll until true (at the latest until the bound the specification tolerates has passed)
    const long long giveUp = ce + (long long)(d + (form == 2 && effIv > 0 ? effIv + slackMs(effIv) : 0) + 25 + rng.below(20)) * 1000;
    int after = 0;
    bool terminated = false;
    PTC copy = *c;  // evaluations through a copy are evaluations of the same condition
    for (;;)
    {
        long long tb = x.stamp();
        bool r = (rng.below(2) ? c->eval() : copy());
        long long ta = x.stamp();
        x.ev.push_back(json{{"e", "Eval"}, {"tb", Exec::floorMs(tb)}, {"ta", Exec::ceilMs(ta)}, {"r", r}});
        if (r && ++after > 3)
            break;
        if (!r && ta > giveUp)
            break;
        if (termAt >= 0 && !terminated && ta >= termAt)
        {
            (rng.below(2) ? *c : copy).terminate();
            terminated = true;
            x.ev.push_back(json{{"e", "Terminate"}});
        }
        int pause = rng.below(4);
        napUs(pause == 0 ? 0 : pause == 1 ? 300 : pause == 2 ? 1500 : 1000L * (1 + rng.below(std::max(2, d / 8))));
    }
    *t_destroyBegan = steadyUs() + 1;
    c.reset();
    copy = ob::plannerNonTerminatingCondition();  // drops the last reference: joins the thread
    *t_destroyBegan = 0;
}

struct PState
{
    std::atomic<bool> flag{false};
    std::atomic<int> calls{0}, firstTrue{0}, callerCalls{0};
    std::thread::id caller;
};

static void periodicExec(Exec &x, vt::Rng &rng)
{
    static const int periods[] = {1, 2, 5, 10, 25, 50};
    const int p = periods[rng.below(6)];
    auto st = std::make_shared<PState>();
    st->caller = std::this_thread::get_id();
    ob::PlannerTerminationConditionFn fn = [st] {
        int k = ++st->calls;
        if (std::this_thread::get_id() == st->caller)
            ++st->callerCalls;
        bool v = st->flag.load();
        if (v)
        {
            int z = 0;
            st->firstTrue.compare_exchange_strong(z, k);
        }
        return v;
    };
    long long cs = x.stamp();
    auto c = std::make_unique<PTC>(fn, p / 1000.0);
    long long ce = x.stamp();
    x.ev.push_back(json{{"e", "CreatePeriodic"}, {"p", p}, {"cs", Exec::floorMs(cs)}, {"ce", Exec::ceilMs(ce)}});
    std::unique_ptr<PTC> copy;
    if (rng.below(2))
        copy = std::make_unique<PTC>(*c);
    auto evalOnce = [&]() {
        int ft = st->firstTrue.load();
        int cb = st->calls.load();
        long long tb = x.stamp();
        bool r = (copy && rng.below(2)) ? copy->eval() : (*c)();
        long long ta = x.stamp();
        int fa = st->firstTrue.load();
        int cc = st->callerCalls.load();
        x.ev.push_back(json{{"e", "Eval"}, {"tb", Exec::floorMs(tb)}, {"ta", Exec::ceilMs(ta)}, {"r", r},
                            {"ft", ft}, {"cb", cb}, {"fa", fa}, {"cc", cc}});
        return r;
    };
    // before the flip
    int pre = 1 + rng.below(4);
    for (int i = 0; i < pre; ++i)
    {
        evalOnce();
        napUs(rng.below(p * 1000 + 1));
    }
    const bool termFirst = rng.below(5) == 0;
    if (termFirst)
    {
        (copy && rng.below(2) ? *copy : *c).terminate();
        x.ev.push_back(json{{"e", "Terminate"}});
        for (int i = 0; i < 3; ++i)
        {
            evalOnce();
            napUs(rng.below(p * 500 + 1));
        }
    }
    long long fb = x.stamp();
    st->flag.store(true);
    long long fa = x.stamp();
    x.ev.push_back(json{{"e", "Flip"}, {"tb", Exec::floorMs(fb)}, {"ta", Exec::ceilMs(fa)}});
    const long long giveUp = fa + (long long)(p + slackMs(p) + 25) * 1000;
    // keep evaluating until the evaluator thread has demonstrably polled again after the poll
    // that saw the flag (the premise of the stale-after-poll fact), then a few more times
    int after = 0;
    for (;;)
    {
        bool r = evalOnce();
        int ft = st->firstTrue.load();
        bool polledAgain = ft > 0 && st->calls.load() > ft;
        if ((polledAgain || termFirst) && ++after > 3)
            break;
        if (x.last > giveUp)
            break;
        (void)r;
        napUs(std::max(100L, (long)rng.below(p * 400 + 1)));
    }
    // destruction: the evaluator thread is joined when the last reference goes away
    long long db = x.stamp();
    *t_destroyBegan = steadyUs() + 1;
    if (rng.below(2))
    {
        c.reset();
        copy.reset();
    }
    else
    {
        copy.reset();
        c.reset();
    }
    *t_destroyBegan = 0;
    long long da = x.stamp();
    int c1 = st->calls.load();
    napUs(3000L * p + 2000);
    int c2 = st->calls.load();
    x.ev.push_back(json{{"e", "Destroy"}, {"tb", Exec::floorMs(db)}, {"ta", Exec::ceilMs(da)}, {"c1", c1}, {"c2", c2},
                        {"threadCalls", c2 - st->callerCalls.load()}});
}

// terminate() landing while the evaluator thread is INSIDE the predicate.  The ordering is forced by
// the predicate itself, not by the clock: its armed invocation announces itself, then waits until a
// second thread's terminate() has RETURNED, and only then returns false.  Afterwards the caller waits
// until the evaluator thread has exited (so whatever it stores after the predicate has been stored)
// and polls: every eval() after terminate() returned must be true, also through or(never, c) and
// and(always, c).  All waits are bounded; a round whose bound expires is discarded, never judged.
struct RState
{
    std::atomic<int> calls{0}, callerCalls{0};
    std::atomic<bool> inPred{false}, termDone{false}, gaveUp{false}, threadExited{false};
    int armAt{1};
    std::thread::id caller;
};
struct ExitFlag
{
    std::shared_ptr<RState> st;
    ~ExitFlag()
    {
        if (st)
            st->threadExited = true;
    }
};
static bool waitFor(const std::atomic<bool> &f, long maxMs)
{
    long long t0 = steadyUs();
    for (long k = 0; !f.load(); ++k)
    {
        if (steadyUs() - t0 > maxMs * 1000LL)
            return false;
        if (k % 64 == 63)
            napUs(100);
        else
            std::this_thread::yield();
    }
    return true;
}

static bool raceExec(Exec &x, vt::Rng &rng)
{
    const int p = 1;
    auto st = std::make_shared<RState>();
    st->caller = std::this_thread::get_id();
    st->armAt = 1 + rng.below(3);
    ob::PlannerTerminationConditionFn fn = [st] {
        static thread_local ExitFlag onExit;
        int k = ++st->calls;
        if (std::this_thread::get_id() == st->caller)
            ++st->callerCalls;
        else
            onExit.st = st;
        if (k == st->armAt)
        {
            st->inPred = true;                 // "I am being computed"
            if (!waitFor(st->termDone, 20000))  // ... until terminate() has returned
                st->gaveUp = true;
        }
        return false;
    };
    long long cs = x.stamp();
    auto c = std::make_unique<PTC>(fn, p / 1000.0);
    long long ce = x.stamp();
    PTC orN = ob::plannerOrTerminationCondition(ob::plannerNonTerminatingCondition(), *c);
    PTC andA = ob::plannerAndTerminationCondition(ob::plannerAlwaysTerminatingCondition(), *c);
    x.ev.push_back(json{{"e", "CreatePeriodic"}, {"p", p}, {"cs", Exec::floorMs(cs)}, {"ce", Exec::ceilMs(ce)}, {"race", true}});
    auto evalVia = [&](int via) {
        int cb = st->calls.load();
        long long tb = x.stamp();
        bool r = via == 0 ? c->eval() : via == 1 ? orN() : andA();
        long long ta = x.stamp();
        x.ev.push_back(json{{"e", "Eval"}, {"tb", Exec::floorMs(tb)}, {"ta", Exec::ceilMs(ta)}, {"r", r}, {"ft", 0},
                            {"cb", cb}, {"fa", 0}, {"cc", st->callerCalls.load()},
                            {"via", via == 0 ? "self" : via == 1 ? "or(never,c)" : "and(always,c)"}});
    };
    // a second thread requests termination as soon as the armed predicate invocation is in flight
    std::atomic<bool> t2ok{false};
    std::thread t2([&] {
        if (!waitFor(st->inPred, 20000))
            return;
        PTC cp(*c);
        (rng.below(2) ? cp : *c).terminate();
        t2ok = true;
        st->termDone = true;   // terminate() has returned: release the predicate
    });
    // meanwhile the caller evaluates: false until terminate (the predicate never returns true)
    for (int i = 0; i < 3 && !st->inPred.load(); ++i)
        evalVia(i % 3);
    t2.join();
    st->termDone = true;  // never leave the predicate waiting
    bool conclusive = t2ok.load() && !st->gaveUp.load();
    if (conclusive)
    {
        x.ev.push_back(json{{"e", "Terminate"}, {"during", "predicate in flight"}, {"call", st->armAt}});
        // the evaluator leaves its loop once it sees the request; after it exited nothing is stored any more
        bool exited = waitFor(st->threadExited, 5000);
        napUs(2000);
        for (int k = 0; k < 200; ++k)
        {
            evalVia(0);
            evalVia(1);
            evalVia(2);
            if (k % 25 == 24)
                napUs(300);
        }
        x.ev.back()["threadExited"] = exited;
    }
    long long db = x.stamp();
    *t_destroyBegan = steadyUs() + 1;
    orN = ob::plannerNonTerminatingCondition();
    andA = ob::plannerNonTerminatingCondition();
    c.reset();
    *t_destroyBegan = 0;
    long long da = x.stamp();
    int c1 = st->calls.load();
    napUs(3000);
    int c2 = st->calls.load();
    x.ev.push_back(json{{"e", "Destroy"}, {"tb", Exec::floorMs(db)}, {"ta", Exec::ceilMs(da)}, {"c1", c1}, {"c2", c2}});
    return conclusive;
}

static int timedMain(const std::string &out, long nexec, int jobs, long races)
{
    g_sysEpoch = ompl::time::now();
    g_steadyEpoch = Steady::now();
    const long plain = nexec;
    nexec += races;   // the race rounds come last
    std::vector<Exec> ex(nexec);
    std::vector<char> inconclusive(nexec, 0);
    std::atomic<long> next{0};
    std::atomic<bool> done{false};
    const unsigned long long seed = vt::envSeed();
    // a destructor that never returns is the ThreadStops violation; it must not look like a hang
    // of the machinery: one minute for a join that takes a millisecond is not a slow machine
    std::thread watchdog([&] {
        while (!done)
        {
            std::this_thread::sleep_for(std::chrono::milliseconds(200));
            for (auto &slot : g_destroySlots)
            {
                long b = slot.load();
                if (b > 0 && steadyUs() - b > 60L * 1000 * 1000)
                {
                    fprintf(stdout, "HANG destroy\n");
                    fflush(stdout);
                    _exit(71);
                }
            }
        }
    });
    std::vector<std::thread> th;
    jobs = std::max(1, std::min(jobs, 64));
    for (int j = 0; j < jobs; ++j)
        th.emplace_back([&, j] {
            t_destroyBegan = &g_destroySlots[j];
            for (;;)
            {
                long i = next++;
                if (i >= nexec)
                    break;
                vt::Rng rng(seed * 1000003ULL + (unsigned long long)i * 7919ULL + 5);
                if (i >= plain)
                    inconclusive[i] = !raceExec(ex[i], rng);
                else if (i % 2 == 0)
                    timedExec(ex[i], rng);
                else
                    periodicExec(ex[i], rng);
            }
        });
    for (auto &t : th)
        t.join();
    done = true;
    watchdog.join();
    vt::Trace tr(out);
    long kept = 0, disturbed = 0, evals = 0, trues = 0, raceRounds = 0, raceInconclusive = 0;
    for (long i = 0; i < nexec; ++i)
    {
        Exec &x = ex[i];
        if (inconclusive[i])
        {
            ++raceInconclusive;   // a bounded wait expired: the forced ordering did not happen
            continue;
        }
        if (x.disturbed)
        {
            ++disturbed;
            continue;
        }
        ++kept;
        if (i >= plain)
            ++raceRounds;
        tr.emit(json{{"e", "Reset"}});
        for (auto &e : x.ev)
        {
            if (e["e"] == "Eval")
            {
                ++evals;
                trues += e["r"].get<bool>();
            }
            tr.emit(e);
        }
    }
    std::cout << "RECORDED " << json{{"events", tr.count()}, {"executions", kept}, {"clockDisturbed", disturbed},
                                      {"evals", evals}, {"true", trues}, {"raceRounds", raceRounds},
                                      {"raceInconclusive", raceInconclusive}}.dump()
              << std::endl;
    return 0;
}

int main(int argc, char **argv)
{
    vt::installCrashHandlers();
    initSpace();
    std::string mode = argc > 1 ? argv[1] : "";
    if (mode == "replay" && argc > 2)
        return replayMain(argv[2], argc > 3 ? argv[3] : "edges", argc > 4 ? atol(argv[4]) : 1000);
    if (mode == "record" && argc > 5)
        return recordMain(argv[2], argv[3], atol(argv[4]), atoi(argv[5]));
    if (mode == "costconv" && argc > 2)
        return costconvMain(argv[2]);
    if (mode == "timed" && argc > 4)
        return timedMain(argv[2], atol(argv[3]), atoi(argv[4]), argc > 5 ? atol(argv[5]) : 0);
    fprintf(stderr, "usage: ptc replay <graph> <edges|pairs> <walks> | record <out> <sample|all> <n> <len> | "
                    "costconv <scenarios> | timed <out> <nexec> <jobs> [races]\n");
    return 2;
}
