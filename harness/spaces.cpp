// C06 / C07 harness: binds specs/base/SpaceAlgebra.tla (lattice cases with exact expectations,
// spec -> impl) and specs/base/SpaceLawsTrace.tla (recorded observations, impl -> spec) to the
// real ompl state spaces.
//
//   spaces replay06 <cases.ndjson>         distance / equalStates / extent / flags on every lattice case
//   spaces replay07 <cases.ndjson>         interpolate / satisfiesBounds / aliasing / laws on every lattice case
//   spaces record06 <out.ndjson> <n> [space-name-filter]   adversarial triples, fixed-point observations
//   spaces record07 <out.ndjson> <n> [space-name-filter]   adversarial interpolation probes
//   spaces list                            names of the spaces record06/record07 drive
//
// Spaces with laws of their own (Space.fam in the trace): the 3-D Dubins airplane spaces Owen / Vana / VanaOwen
// (Triple events carry the straight-line distances of the positions; Interp events the length of getPath(), whether
// interpolate(from,to,t) is the point of that same path, chords between consecutive interpolants, pitch excess,
// heading flags, and whether a path was found at all), SpaceTimeStateSpace (STPair: ordered pairs with the component
// distances, timeToCoverDistance and the infinite flags; InterpBasic for pairs beyond the speed limit), the
// constrained spaces over R^3 with the unit sphere (CInterp: distances of the interpolants from `from` / to `to`,
// aliasing as distances, discreteGeodesic() outcome before and after), EmptyStateSpace (ordinary events).
//
// The harness never decides a law on recorded observations (TLC does, against SpaceLaws); in replay
// mode it compares the real result with the expectation TLC computed from the lattice model.
#include "vtrace.h"
#include <ompl/base/StateSpace.h>
#include <ompl/base/spaces/RealVectorStateSpace.h>
#include <ompl/base/spaces/SO2StateSpace.h>
#include <ompl/base/spaces/SO3StateSpace.h>
#include <ompl/base/spaces/SE2StateSpace.h>
#include <ompl/base/spaces/SE3StateSpace.h>
#include <ompl/base/spaces/TimeStateSpace.h>
#include <ompl/base/spaces/DiscreteStateSpace.h>
#include <ompl/base/spaces/WrapperStateSpace.h>
#include <ompl/base/spaces/DubinsStateSpace.h>
#include <ompl/base/spaces/ReedsSheppStateSpace.h>
#include <ompl/base/spaces/special/TorusStateSpace.h>
#include <ompl/base/spaces/special/SphereStateSpace.h>
#include <ompl/base/spaces/special/MobiusStateSpace.h>
#include <ompl/base/spaces/special/KleinBottleStateSpace.h>
#include <ompl/base/spaces/OwenStateSpace.h>
#include <ompl/base/spaces/VanaStateSpace.h>
#include <ompl/base/spaces/VanaOwenStateSpace.h>
#include <ompl/base/spaces/SpaceTimeStateSpace.h>
#include <ompl/base/spaces/EmptyStateSpace.h>
#include <ompl/base/Constraint.h>
#include <ompl/base/ConstrainedSpaceInformation.h>
#include <ompl/base/spaces/constraint/ProjectedStateSpace.h>
#include <ompl/base/spaces/constraint/AtlasStateSpace.h>
#include <ompl/base/spaces/constraint/TangentBundleStateSpace.h>
#include <ompl/util/Console.h>
#include <cmath>
#include <cfloat>
#include <limits>
#include <set>
#include <unordered_set>

namespace ob = ompl::base;
using vt::json;
static const double PI = 3.14159265358979323846;
static const double FINE = 64.0;

// ------------------------------------------------------------------ space tree
struct Node
{
    std::string k;  // RV SO2 SO3 Time Disc Comp Wrap Torus Sphere Mobius Klein Dubins RS
    ob::StateSpacePtr sp;
    std::vector<Node> sub;  // component layout of compound(-derived) spaces; wrapped space in sub[0] for Wrap
    int n{0};               // RV dimension
    int N{0};               // SO2 lattice: angles are multiples of pi/N
    double unit{1.0};       // RV / Time lattice unit
    std::vector<double> lo, hi;  // real bounds (RV per dimension; Time, Disc: one entry)
    bool bounded{true};
    bool plain{false};  // the distance is CompoundStateSpace::distance (generic compound, SE2, SE3)
    // families with laws of their own (everything else is "std"):
    //   airplane     Owen / Vana / VanaOwen: distance = length of the computed 3-D Dubins path
    //   spacetime    SpaceTimeStateSpace: infinite distance beyond the speed limit
    //   constrained  Projected / Atlas / TangentBundle state space over R^3 with the unit sphere as constraint
    std::string fam{"std"};
    double vmaxN{1}, vmaxD{1};        // spacetime: vMax = vmaxN / vmaxD
    double delta{0}, conTol{0};       // constrained: geodesic resolution, constraint tolerance
    std::string con;                  // constrained: PJ | AT | TB
    std::shared_ptr<void> keep;       // constrained: the SpaceInformation the space needs
    bool leaf() const
    {
        return sub.empty();
    }
};

static double unitOf(const json &d)
{
    return d.contains("u") ? d["u"][0].get<double>() / d["u"][1].get<double>() : 1.0;
}

// the constraint of the constrained catalogue entries: the sphere |x| = r in R^3, written as a user would
class SphereConstraint : public ob::Constraint
{
public:
    explicit SphereConstraint(double r) : ob::Constraint(3, 1), r_(r)
    {
    }
    void function(const Eigen::Ref<const Eigen::VectorXd> &x, Eigen::Ref<Eigen::VectorXd> out) const override
    {
        out[0] = x.norm() - r_;
    }
    void jacobian(const Eigen::Ref<const Eigen::VectorXd> &x, Eigen::Ref<Eigen::MatrixXd> out) const override
    {
        out = x.transpose().normalized();
    }

private:
    double r_;
};

static Node build(const json &d, ob::StateSpacePtr have = nullptr)
{
    Node nd;
    nd.k = d["k"].get<std::string>();
    const std::string &k = nd.k;
    if (k == "RV")
    {
        nd.n = d.value("n", 1);
        nd.unit = unitOf(d);
        if (!have && d.value("real", std::string()) == "Empty")
            have = std::make_shared<ob::EmptyStateSpace>();   // dimension 0: nothing to bound
        const int grow = d.value("grow", 0);
        if (!have && grow > 0 && grow < nd.n)
        {
            // a space that GROWS after it was set up: n - grow bounded dimensions, setup() (caches whatever the
            // space derives from its bounds), then addDimension(lo, hi) `grow` times - the documented way to extend
            // a real vector space; everything it reports afterwards must describe all n dimensions
            auto sp = std::make_shared<ob::RealVectorStateSpace>(nd.n - grow);
            ob::RealVectorBounds b0(nd.n - grow);
            b0.setLow(d["lo"].get<double>() * nd.unit);
            b0.setHigh(d["hi"].get<double>() * nd.unit);
            sp->setBounds(b0);
            sp->setup();
            (void)sp->getMaximumExtent();
            for (int i = 0; i < grow; ++i)
                sp->addDimension(d["lo"].get<double>() * nd.unit, d["hi"].get<double>() * nd.unit);
            have = sp;
        }
        if (!have)
            have = std::make_shared<ob::RealVectorStateSpace>(nd.n);
        auto *rv = have->as<ob::RealVectorStateSpace>();
        nd.n = (int)rv->getDimension();
        if (d.contains("lo") && nd.n > 0 && grow == 0)
        {
            ob::RealVectorBounds b(nd.n);
            b.setLow(d["lo"].get<double>() * nd.unit);
            b.setHigh(d["hi"].get<double>() * nd.unit);
            rv->setBounds(b);
        }
        nd.lo = rv->getBounds().low;
        nd.hi = rv->getBounds().high;
    }
    else if (k == "SO2")
    {
        nd.N = d.value("N", 8);
        if (!have)
            have = std::make_shared<ob::SO2StateSpace>();
    }
    else if (k == "SO3")
    {
        if (!have)
            have = std::make_shared<ob::SO3StateSpace>();
    }
    else if (k == "Time")
    {
        nd.unit = unitOf(d);
        auto t = std::make_shared<ob::TimeStateSpace>();
        nd.bounded = !d.value("unbounded", false);
        if (nd.bounded)
        {
            t->setBounds(d["lo"].get<double>() * nd.unit, d["hi"].get<double>() * nd.unit);
            nd.lo = {t->getMinTimeBound()};
            nd.hi = {t->getMaxTimeBound()};
        }
        else
        {
            nd.lo = {-5.0};
            nd.hi = {5.0};
        }
        have = t;
    }
    else if (k == "Disc")
    {
        auto s = std::make_shared<ob::DiscreteStateSpace>(d["lo"].get<int>(), d["hi"].get<int>());
        nd.lo = {(double)s->getLowerBound()};
        nd.hi = {(double)s->getUpperBound()};
        have = s;
    }
    else if (k == "Wrap")
    {
        nd.sub.push_back(build(d["of"]));
        have = std::make_shared<ob::WrapperStateSpace>(nd.sub[0].sp);
    }
    else if (k == "SpaceTime")
    {
        // SpaceTimeStateSpace(space, vMax, timeWeight): weights (1 - timeWeight, timeWeight); the time component is
        // created by the class and bounded through setTimeBounds(); updateEpsilon() as its header asks
        nd.sub.push_back(build(d["sub"][0]));
        nd.vmaxN = d["v"][0].get<double>();
        nd.vmaxD = d["v"][1].get<double>();
        const double tw = d["w"][1][0].get<double>() / d["w"][1][1].get<double>();
        if (std::fabs(d["w"][0][0].get<double>() / d["w"][0][1].get<double>() + tw - 1.0) > 0)
            throw std::runtime_error("SpaceTime weights must add up to 1");
        auto st = std::make_shared<ob::SpaceTimeStateSpace>(nd.sub[0].sp, nd.vmaxN / nd.vmaxD, tw);
        const json &td = d["sub"][1];
        Node tn;
        tn.k = "Time";
        tn.unit = unitOf(td);
        tn.sp = st->getSubspace(1);
        st->setTimeBounds(td["lo"].get<double>() * tn.unit, td["hi"].get<double>() * tn.unit);
        tn.lo = {st->getTimeComponent()->getMinTimeBound()};
        tn.hi = {st->getTimeComponent()->getMaxTimeBound()};
        nd.sub.push_back(tn);
        st->updateEpsilon();
        nd.fam = "spacetime";
        have = st;
    }
    else if (k == "Constrained")
    {
        // the construction order of demos/constraint/ConstrainedPlanningCommon.h, library defaults for delta / lambda
        Node amb = build(json{{"k", "RV"}, {"n", 3}, {"lo", -2}, {"hi", 2}});
        auto con = std::make_shared<SphereConstraint>(1.0);
        nd.con = d["kind"].get<std::string>();
        std::shared_ptr<ob::ConstrainedStateSpace> css;
        std::shared_ptr<ob::ConstrainedSpaceInformation> csi;
        if (nd.con == "PJ")
        {
            css = std::make_shared<ob::ProjectedStateSpace>(amb.sp, con);
            csi = std::make_shared<ob::ConstrainedSpaceInformation>(css);
        }
        else if (nd.con == "AT")
        {
            css = std::make_shared<ob::AtlasStateSpace>(amb.sp, con);
            csi = std::make_shared<ob::ConstrainedSpaceInformation>(css);
        }
        else if (nd.con == "TB")
        {
            css = std::make_shared<ob::TangentBundleStateSpace>(amb.sp, con);
            csi = std::make_shared<ob::TangentBundleSpaceInformation>(css);
        }
        else
            throw std::runtime_error("unknown constrained space kind " + nd.con);
        css->setup();
        csi->setStateValidityChecker([](const ob::State *) { return true; });
        csi->setup();
        nd.k = "Wrap";   // a ConstrainedStateSpace is a WrapperStateSpace: the generic walkers look through it
        nd.sub.push_back(amb);
        nd.fam = "constrained";
        nd.delta = css->getDelta();
        nd.conTol = con->getTolerance();
        nd.keep = csi;
        have = css;
    }
    else if (k == "Comp")
    {
        std::string real = d.value("real", "Compound");
        if (real == "Compound")
        {
            auto c = std::make_shared<ob::CompoundStateSpace>();
            for (std::size_t i = 0; i < d["sub"].size(); ++i)
            {
                nd.sub.push_back(build(d["sub"][i]));
                c->addSubspace(nd.sub.back().sp, d["w"][i][0].get<double>() / d["w"][i][1].get<double>());
            }
            have = c;
        }
        else
        {
            if (real == "SE2")
                have = std::make_shared<ob::SE2StateSpace>();
            else if (real == "SE3")
                have = std::make_shared<ob::SE3StateSpace>();
            else
                throw std::runtime_error("unknown compound class " + real);
            auto *c = have->as<ob::CompoundStateSpace>();
            for (std::size_t i = 0; i < d["sub"].size(); ++i)
            {
                nd.sub.push_back(build(d["sub"][i], c->getSubspace(i)));
                // the shipped class, re-weighted through the public API when the descriptor says so
                double w = d["w"][i][0].get<double>() / d["w"][i][1].get<double>();
                if (w != c->getSubspaceWeight(i))
                    c->setSubspaceWeight(i, w);
            }
        }
        nd.plain = true;
    }
    else
    {
        // compound-derived special spaces: layout known, subspaces taken from the real object
        json layout;
        if (k == "Torus")
        {
            have = std::make_shared<ob::TorusStateSpace>();
            int N = d.value("N", 8);
            layout = json::array({json{{"k", "SO2"}, {"N", N}}, json{{"k", "SO2"}, {"N", N}}});
            nd.N = N;
        }
        else if (k == "Sphere")
        {
            have = std::make_shared<ob::SphereStateSpace>(d.value("r", 1.0));
            layout = json::array({json{{"k", "SO2"}}, json{{"k", "RV"}}});
        }
        else if (k == "Mobius")
        {
            have = std::make_shared<ob::MobiusStateSpace>(d.value("vmax", 1.0), d.value("r", 1.0));
            layout = json::array({json{{"k", "SO2"}}, json{{"k", "RV"}}});
        }
        else if (k == "Klein")
        {
            have = std::make_shared<ob::KleinBottleStateSpace>();
            layout = json::array({json{{"k", "RV"}}, json{{"k", "SO2"}}});
        }
        else if (k == "Dubins" || k == "RS")
        {
            if (k == "Dubins")
                have = std::make_shared<ob::DubinsStateSpace>(d.value("rho", 1.0), d.value("sym", false));
            else
                have = std::make_shared<ob::ReedsSheppStateSpace>(d.value("rho", 1.0));
            layout = json::array({json{{"k", "RV"}, {"lo", d["lo"]}, {"hi", d["hi"]}}, json{{"k", "SO2"}}});
        }
        else if (k == "Owen" || k == "Vana" || k == "VanaOwen")
        {
            // R^3 (x SO(2)) resp. R^4 = (x, y, z, pitch) (x SO(2)): the user bounds the position, the class the pitch
            const double rho = d.value("rho", 1.0), mp = d.value("maxPitch", PI / 6);
            ob::RealVectorBounds b(3);
            b.setLow(d["lo"].get<double>());
            b.setHigh(d["hi"].get<double>());
            b.setLow(2, d.value("zlo", d["lo"].get<double>()));   // altitude range
            b.setHigh(2, d.value("zhi", d["hi"].get<double>()));
            if (k == "Owen")
            {
                auto sp = std::make_shared<ob::OwenStateSpace>(rho, mp);
                sp->setBounds(b);
                have = sp;
            }
            else if (k == "Vana")
            {
                auto sp = std::make_shared<ob::VanaStateSpace>(rho, mp);
                sp->setBounds(b);
                have = sp;
            }
            else
            {
                auto sp = std::make_shared<ob::VanaOwenStateSpace>(rho, mp);
                sp->setBounds(b);
                have = sp;
            }
            layout = json::array({json{{"k", "RV"}}, json{{"k", "SO2"}}});   // bounds read back from the real space
            nd.fam = "airplane";
        }
        else
            throw std::runtime_error("unknown space kind " + k);
        auto *c = have->as<ob::CompoundStateSpace>();
        for (std::size_t i = 0; i < layout.size(); ++i)
            nd.sub.push_back(build(layout[i], c->getSubspace(i)));
    }
    nd.sp = have;
    return nd;
}

template <class F>
static void walk(const Node &nd, ob::State *s, F &&f)
{
    if (nd.k == "Wrap")
        return walk(nd.sub[0], s->as<ob::WrapperStateSpace::StateType>()->getState(), f);
    if (!nd.leaf())
    {
        auto *c = s->as<ob::CompoundState>();
        for (std::size_t i = 0; i < nd.sub.size(); ++i)
            walk(nd.sub[i], c->components[i], f);
        return;
    }
    f(nd, s);
}
template <class F>
static void walk2(const Node &nd, ob::State *s, const ob::State *o, F &&f)
{
    if (nd.k == "Wrap")
        return walk2(nd.sub[0], s->as<ob::WrapperStateSpace::StateType>()->getState(),
                     o->as<ob::WrapperStateSpace::StateType>()->getState(), f);
    if (!nd.leaf())
    {
        auto *c = s->as<ob::CompoundState>();
        auto *co = o->as<ob::CompoundState>();
        for (std::size_t i = 0; i < nd.sub.size(); ++i)
            walk2(nd.sub[i], c->components[i], co->components[i], f);
        return;
    }
    f(nd, s, o);
}

static double *slots(const Node &nd, ob::State *s, int &cnt)
{
    if (nd.k == "RV")
    {
        cnt = nd.n;
        return s->as<ob::RealVectorStateSpace::StateType>()->values;
    }
    if (nd.k == "SO2")
    {
        cnt = 1;
        return &s->as<ob::SO2StateSpace::StateType>()->value;
    }
    if (nd.k == "SO3")
    {
        cnt = 4;
        return &s->as<ob::SO3StateSpace::StateType>()->x;
    }
    if (nd.k == "Time")
    {
        cnt = 1;
        return &s->as<ob::TimeStateSpace::StateType>()->position;
    }
    cnt = 0;
    return nullptr;
}

static std::vector<double> flatten(const Node &nd, const ob::State *s)
{
    std::vector<double> out;
    walk(nd, const_cast<ob::State *>(s), [&](const Node &l, ob::State *ls) {
        if (l.k == "Disc")
        {
            out.push_back(ls->as<ob::DiscreteStateSpace::StateType>()->value);
            return;
        }
        int c;
        double *p = slots(l, ls, c);
        for (int i = 0; i < c; ++i)
            out.push_back(p[i]);
    });
    return out;
}

static std::string show(const Node &nd, const ob::State *s)
{
    char buf[64];
    std::string r = "(";
    for (double v : flatten(nd, s))
    {
        snprintf(buf, sizeof buf, "%.17g", v);
        if (r.size() > 1)
            r += ", ";
        r += buf;
    }
    return r + ")";
}

struct Scoped
{
    const ob::StateSpace *sp;
    ob::State *s;
    explicit Scoped(const Node &nd) : sp(nd.sp.get()), s(nd.sp->allocState())
    {
    }
    ~Scoped()
    {
        sp->freeState(s);
    }
    Scoped(const Scoped &) = delete;
    ob::State *operator()() const
    {
        return s;
    }
};

// ------------------------------------------------------------------ lattice values (replay)
static void setLattice(const Node &nd, const json &v, ob::State *s)
{
    if (nd.k == "Wrap")
        return setLattice(nd.sub[0], v, s->as<ob::WrapperStateSpace::StateType>()->getState());
    if (!nd.leaf())
    {
        auto *c = s->as<ob::CompoundState>();
        for (std::size_t i = 0; i < nd.sub.size(); ++i)
            setLattice(nd.sub[i], v[i], c->components[i]);
        return;
    }
    if (nd.k == "RV")
        for (int i = 0; i < nd.n; ++i)
            s->as<ob::RealVectorStateSpace::StateType>()->values[i] = v[i].get<double>() * nd.unit / FINE;
    else if (nd.k == "SO2")
        s->as<ob::SO2StateSpace::StateType>()->value = (v.get<double>() / (FINE * nd.N)) * PI;
    else if (nd.k == "SO3")
    {
        auto *q = s->as<ob::SO3StateSpace::StateType>();
        q->x = v[0].get<double>() / 2.0;
        q->y = v[1].get<double>() / 2.0;
        q->z = v[2].get<double>() / 2.0;
        q->w = v[3].get<double>() / 2.0;
    }
    else if (nd.k == "Time")
        s->as<ob::TimeStateSpace::StateType>()->position = v.get<double>() * nd.unit / FINE;
    else if (nd.k == "Disc")
        s->as<ob::DiscreteStateSpace::StateType>()->value = v.get<int>();
}

static double evalSum(const json &sum)
{
    double r = 0;
    for (auto &t : sum)
    {
        double c = t["c"][0].get<double>() / t["c"][1].get<double>();
        double n = t["n"].get<double>();
        const std::string f = t["f"].get<std::string>();
        if (f == "s")
            r += c * std::sqrt(n);
        else if (f == "p")
            r += c * PI * n;
        else if (f == "i")
            r += c * n;
        else if (f == "sp")
            r += c * PI * std::sqrt(n);
        else if (f == "inf")
            r += std::numeric_limits<double>::infinity();   // SpaceTime: no motion within the speed limit
        else
            throw std::runtime_error("unknown term kind " + f);
    }
    return r;
}

static bool close(double x, double y)
{
    if (x == y)
        return true;   // also two infinities
    if (!std::isfinite(x) || !std::isfinite(y))
        return false;  // (the relative bound below would be infinite)
    return std::fabs(x - y) <= 1e-12 + 1e-12 * std::max(std::fabs(x), std::fabs(y));
}

// expected leaf value -> doubles (SO3: the quaternion the model's geodesic point denotes)
static std::vector<double> leafExpected(const Node &l, const json &v, int sgOverride = 0)
{
    std::vector<double> out;
    if (l.k == "RV")
        for (int i = 0; i < l.n; ++i)
            out.push_back(v[i].get<double>() * l.unit / FINE);
    else if (l.k == "SO2")
        out.push_back((v.get<double>() / (FINE * l.N)) * PI);
    else if (l.k == "Time")
        out.push_back(v.get<double>() * l.unit / FINE);
    else if (l.k == "Disc")
        out.push_back(v.get<double>());
    else if (l.k == "SO3")
    {
        if (v.is_array())
            for (int i = 0; i < 4; ++i)
                out.push_back(v[i].get<double>() / 2.0);
        else
        {
            double q1[4], q2[4], dot = 0;
            for (int i = 0; i < 4; ++i)
            {
                q1[i] = v["q1"][i].get<double>() / 2.0;
                q2[i] = v["q2"][i].get<double>() / 2.0;
                dot += q1[i] * q2[i];
            }
            double th = std::acos(std::fabs(dot));
            double phi = v["pos"].get<double>() * PI / (6.0 * FINE);
            double sg = sgOverride ? sgOverride : v["sg"].get<double>();
            for (int i = 0; i < 4; ++i)
                out.push_back((std::sin(th - phi) * q1[i] + sg * std::sin(phi) * q2[i]) / std::sin(th));
        }
    }
    return out;
}

// |real leaf - expected| (SO3: up to the sign of the quaternion)
static double leafError(const Node &l, const ob::State *ls, const json &v)
{
    std::vector<double> e = leafExpected(l, v);
    std::vector<double> r;
    if (l.k == "Disc")
        r.push_back(ls->as<ob::DiscreteStateSpace::StateType>()->value);
    else
    {
        int c;
        double *p = slots(l, const_cast<ob::State *>(ls), c);
        r.assign(p, p + c);
    }
    double err = 0, errNeg = 0;
    for (std::size_t i = 0; i < e.size(); ++i)
    {
        err = std::max(err, std::fabs(r[i] - e[i]));
        errNeg = std::max(errNeg, std::fabs(r[i] + e[i]));
    }
    if (l.k == "SO2")
        // angles are compared on the circle: pi - ulp and -pi are the same angle up to rounding
        // (whether a representative is in bounds is judged by satisfiesBounds, not here)
        return std::min(err, 2 * PI - err);
    return l.k == "SO3" ? std::min(err, errNeg) : err;
}

// ------------------------------------------------------------------ reporting
struct Keyed
{
    std::map<std::string, long> count;
    std::map<std::string, json> first;
    long failures{0};
    void fail(const std::string &key, const std::string &why, const json &cs)
    {
        ++failures;
        if (count[key]++ == 0)
        {
            first[key] = json{{"key", key}, {"why", why}, {"case", cs}};
            std::cout << "FAIL " << first[key].dump() << std::endl;
        }
    }
};

static std::uint64_t fnv(const std::string &s)
{
    std::uint64_t h = 1469598103934665603ULL;
    for (unsigned char c : s)
    {
        h ^= c;
        h *= 1099511628211ULL;
    }
    return h;
}

static bool nontrivialClass(const json &cls)
{
    for (auto &c : cls)
    {
        std::string s = c.get<std::string>();
        if (s.find("generic") == std::string::npos && s.find("direct") == std::string::npos &&
            s.find("near") == std::string::npos)
            return true;
    }
    return false;
}

static void plainParts(const Node &nd, double w, const ob::State *a, const ob::State *b, std::vector<double> &weights,
                       std::vector<double> *dists);

// ------------------------------------------------------------------ replay06
static int replay06(const std::string &path)
{
    Keyed rep;
    std::map<std::string, long> classes, drift;
    std::unordered_set<std::uint64_t> nontrivial;
    long cases = 0, evals = 0, unequalPairs = 0, triangles = 0;
    json spaces = json::array();
    Node cur;
    std::string id;
    bool metric = false, sym = false, have = false;
    double ext = 0;
    std::ifstream in(path);
    std::string line;
    while (std::getline(in, line))
    {
        if (line.empty())
            continue;
        json c = json::parse(line);
        const std::string k = c["k"].get<std::string>();
        if (k == "space")
        {
            cur = build(c["sp"]);
            cur.sp->setup();
            id = c["id"].get<std::string>();
            metric = cur.sp->isMetricSpace();
            sym = cur.sp->hasSymmetricDistance();
            ext = cur.sp->getMaximumExtent();
            have = true;
            double mext = evalSum(c["ext"]);
            if (!close(ext, mext))
                ++drift[id + ":extent-differs-from-model"];
            if (metric != c["metric"].get<bool>() || sym != c["sym"].get<bool>())
                ++drift[id + ":claims-differ-from-model"];
            spaces.push_back(json{{"id", id}, {"metric", metric}, {"symmetric", sym}, {"extent", ext}, {"model_extent", mext}});
            continue;
        }
        if (!have)
            throw std::runtime_error("case before space header");
        ++cases;
        for (auto &cl : c["cls"])
            ++classes[cl.get<std::string>()];
        if (nontrivialClass(c["cls"]))
            nontrivial.insert(fnv(id + line));
        json brief = json{{"space", id}, {"case", c}};
        auto dist = [&](const ob::State *x, const ob::State *y) {
            ++evals;
            return cur.sp->distance(x, y);
        };
        auto checkPair = [&](const ob::State *a, const ob::State *b, const json &expect, const char *nm) {
            double e = evalSum(expect);
            double d = dist(a, b);
            if (!(d >= 0.0))
                rep.fail("c06:" + id + ":non-negative", std::string(nm) + " = " + std::to_string(d), brief);
            if (!close(d, e))
            {
                char buf[200];
                snprintf(buf, sizeof buf, "distance %s = %.17g, the lattice model says %.17g", nm, d, e);
                rep.fail("c06:" + id + ":distance-value", buf, brief);
            }
            if (d > ext + 1e-12 + 1e-12 * ext)
                rep.fail("c06:" + id + ":extent", std::string(nm) + " exceeds getMaximumExtent()", brief);
            if (sym)
            {
                double r = dist(b, a);
                if (!close(d, r))
                    rep.fail("c06:" + id + ":symmetry", std::string(nm) + " differs from the reverse distance", brief);
            }
            bool eq = cur.sp->equalStates(a, b);
            if (!eq)
            {
                ++unequalPairs;
                if (!(d > 0.0))
                    rep.fail("c06:" + id + ":positivity", std::string(nm) + " is zero between states that are not equal", brief);
            }
            return d;
        };
        Scoped a(cur), b(cur);
        setLattice(cur, c["a"], a());
        setLattice(cur, c["b"], b());
        if (!cur.sp->satisfiesBounds(a()) || !cur.sp->satisfiesBounds(b()))
            throw std::runtime_error("lattice state out of bounds: " + line);
        if (k == "pair")
        {
            double d = checkPair(a(), b(), c["d"], "d(a,b)");
            bool eq = cur.sp->equalStates(a(), b());
            if (eq != c["eq"].get<bool>())
                ++drift[id + ":equalStates-differs-from-model"];
            if (cur.fam == "spacetime")
            {
                // the time the library says the motion needs at vMax, against the model's
                ++evals;
                double ttc = cur.sp->as<ob::SpaceTimeStateSpace>()->timeToCoverDistance(a(), b()), e = evalSum(c["ttc"]);
                if (!close(ttc, e))
                {
                    char buf[200];
                    snprintf(buf, sizeof buf, "timeToCoverDistance(a,b) = %.17g, the lattice model says %.17g", ttc, e);
                    rep.fail("c06:" + id + ":time-to-cover", buf, brief);
                }
            }
            if (c["a"] == c["b"])
            {
                Scoped a2(cur);
                cur.sp->copyState(a2(), a());
                if (dist(a(), a()) != 0.0 || dist(a(), a2()) != 0.0)
                    rep.fail("c06:" + id + ":identity", "distance from a state to itself is not zero", brief);
            }
            // compound = weighted sum of the component distances (generic compound, SE2, SE3)
            const Node *cn = &cur;
            const ob::State *ca = a(), *cb = b();
            while (cn->k == "Wrap")
            {
                ca = ca->as<ob::WrapperStateSpace::StateType>()->getState();
                cb = cb->as<ob::WrapperStateSpace::StateType>()->getState();
                cn = &cn->sub[0];
            }
            if (cn->plain)
            {
                // down to the parts that are not themselves weighted-sum compounds (nested SE2 / SE3 included)
                std::vector<double> ws, ds;
                plainParts(cur, 1.0, a(), b(), ws, &ds);
                double sum = 0;
                for (std::size_t i = 0; i < ws.size(); ++i)
                {
                    ++evals;
                    sum += ws[i] * ds[i];
                }
                if (!close(d, sum))
                    rep.fail("c06:" + id + ":compound-sum", "compound distance is not the weighted sum of the component distances", brief);
            }
        }
        else if (k == "tri")
        {
            Scoped cc(cur);
            setLattice(cur, c["c"], cc());
            double dab = checkPair(a(), b(), c["dab"], "d(a,b)");
            double dbc = checkPair(b(), cc(), c["dbc"], "d(b,c)");
            double dac = checkPair(a(), cc(), c["dac"], "d(a,c)");
            if (metric)
            {
                ++triangles;
                if (dac > dab + dbc + 1e-12 + 1e-12 * dac)
                    rep.fail("c06:" + id + ":triangle", "d(a,c) > d(a,b) + d(b,c)", brief);
            }
        }
    }
    json keys = json::object();
    for (auto &kv : rep.count)
        keys[kv.first] = kv.second;
    std::cout << "SUMMARY "
              << json{{"cases", cases}, {"evaluations", evals}, {"nontrivial", nontrivial.size()}, {"failures", rep.failures},
                      {"keys", keys}, {"classes", classes}, {"drift", drift}, {"spaces", spaces},
                      {"unequal_pairs", unequalPairs}, {"triangles", triangles}}
                     .dump()
              << std::endl;
    return rep.failures ? 1 : 0;
}

// ------------------------------------------------------------------ replay07
// match the real interpolants against the model's admissible alternatives, leaf by leaf
struct Match
{
    bool ok{true};
    bool plusPi{false};  // an SO2 leaf is +pi where the model says -pi
    std::string why;
};
static void matchTree(const Node &nd, const json &exp, const ob::State *p1, const ob::State *p2, Match &m)
{
    if (nd.k == "Wrap")
        return matchTree(nd.sub[0], exp, p1->as<ob::WrapperStateSpace::StateType>()->getState(),
                         p2 ? p2->as<ob::WrapperStateSpace::StateType>()->getState() : nullptr, m);
    if (exp.contains("sub"))
    {
        for (std::size_t i = 0; i < nd.sub.size(); ++i)
            matchTree(nd.sub[i], exp["sub"][i], p1->as<ob::CompoundState>()->components[i],
                      p2 ? p2->as<ob::CompoundState>()->components[i] : nullptr, m);
        return;
    }
    // leaf of the model (Torus is a model leaf with a two-component value)
    auto errOf = [&](const json &v, const ob::State *s) {
        if (nd.k == "Torus")
            return std::max(leafError(nd.sub[0], s->as<ob::CompoundState>()->components[0], v[0]),
                            leafError(nd.sub[1], s->as<ob::CompoundState>()->components[1], v[1]));
        return leafError(nd, s, v);
    };
    auto tolOf = [&](const json &v) {
        double mx = 1.0;
        if (nd.k == "Torus" || nd.k == "SO2")
            mx = PI;
        else if (nd.k != "SO3")
            for (double x : leafExpected(nd, v))
                mx = std::max(mx, std::fabs(x));
        return 1e-12 + 1e-12 * mx;
    };
    double best = 1e300;
    for (auto &alt : exp["alts"])
    {
        double e = errOf(alt[0], p1);
        double tol = tolOf(alt[0]);
        if (p2 && alt.size() > 1)
            e = std::max(e, errOf(alt[1], p2));
        best = std::min(best, e);
        if (e <= tol)
            return;
    }
    m.ok = false;
    // is it the +pi representative of -pi?
    auto isPlusPi = [&](const Node &l, const ob::State *s, const json &v) {
        return l.k == "SO2" && v.get<long>() == -(long)(FINE * l.N) &&
               std::fabs(s->as<ob::SO2StateSpace::StateType>()->value - PI) <= 1e-12;
    };
    for (auto &alt : exp["alts"])
    {
        for (int which = 0; which < 2; ++which)
        {
            const ob::State *s = which == 0 ? p1 : p2;
            if (!s || (int)alt.size() <= which)
                continue;
            if (nd.k == "Torus")
            {
                for (int i = 0; i < 2; ++i)
                    if (isPlusPi(nd.sub[i], s->as<ob::CompoundState>()->components[i], alt[which][i]))
                        m.plusPi = true;
            }
            else if (isPlusPi(nd, s, alt[which]))
                m.plusPi = true;
        }
    }
    char buf[160];
    snprintf(buf, sizeof buf, "%s leaf: no admissible interpolant within tolerance (best error %.3g)", nd.k.c_str(), best);
    if (m.why.empty())
        m.why = buf;
}

static bool hasPlusPiLeaf(const Node &nd, const ob::State *s)
{
    bool r = false;
    walk(nd, const_cast<ob::State *>(s), [&](const Node &l, ob::State *ls) {
        if (l.k == "SO2" && ls->as<ob::SO2StateSpace::StateType>()->value >= PI &&
            ls->as<ob::SO2StateSpace::StateType>()->value <= PI + 1e-12)
            r = true;
    });
    return r;
}

static bool sameBits(const Node &nd, const ob::State *x, const ob::State *y)
{
    std::vector<double> a = flatten(nd, x), b = flatten(nd, y);
    return a.size() == b.size() && (a.empty() || memcmp(a.data(), b.data(), a.size() * sizeof(double)) == 0);
}

static int replay07(const std::string &path)
{
    Keyed rep;
    std::map<std::string, long> classes, drift;
    std::unordered_set<std::uint64_t> nontrivial;
    long cases = 0, evals = 0, propChecked = 0, repChecked = 0;
    json spaces = json::array();
    Node cur;
    std::string id;
    bool have = false, exempt = false;
    std::ifstream in(path);
    std::string line;
    while (std::getline(in, line))
    {
        if (line.empty())
            continue;
        json c = json::parse(line);
        const std::string k = c["k"].get<std::string>();
        if (k == "space")
        {
            cur = build(c["sp"]);
            cur.sp->setup();
            id = c["id"].get<std::string>();
            exempt = c["exempt"].get<bool>();
            bool realExempt = cur.sp->isDiscrete() || cur.sp->isHybrid();
            if (realExempt != exempt)
                ++drift[id + ":discrete-or-hybrid-flag-differs-from-model"];
            have = true;
            spaces.push_back(json{{"id", id}, {"exempt", exempt}, {"isDiscrete", cur.sp->isDiscrete()}, {"isHybrid", cur.sp->isHybrid()}});
            continue;
        }
        if (!have || k != "interp")
            throw std::runtime_error("unexpected line " + line);
        ++cases;
        for (auto &cl : c["cls"])
            ++classes[cl.get<std::string>()];
        if (nontrivialClass(c["cls"]))
            nontrivial.insert(fnv(id + line));
        json brief = json{{"space", id}, {"case", c}};
        const int i = c["i"].get<int>(), j = c["j"].get<int>();
        const double s = i / 8.0, u = j / 8.0;
        Scoped a(cur), b(cur), p1(cur), p2(cur);
        setLattice(cur, c["a"], a());
        setLattice(cur, c["b"], b());
        if (!cur.sp->satisfiesBounds(a()) || !cur.sp->satisfiesBounds(b()))
            throw std::runtime_error("lattice state out of bounds: " + line);
        ++evals;
        cur.sp->interpolate(a(), b(), s, p1());
        // aliasing first (does not depend on values)
        {
            Scoped af(cur), bt(cur);
            cur.sp->copyState(af(), a());
            cur.sp->copyState(bt(), b());
            cur.sp->interpolate(af(), b(), s, af());
            cur.sp->interpolate(a(), bt(), s, bt());
            evals += 2;
            if (!sameBits(cur, af(), p1()))
                rep.fail("c07:" + id + ":alias-from", "interpolate(from, to, t, from) differs from the non-aliased result", brief);
            if (!sameBits(cur, bt(), p1()))
                rep.fail("c07:" + id + ":alias-to", "interpolate(from, to, t, to) differs from the non-aliased result", brief);
        }
        Match m;
        if (!exempt)
        {
            ++evals;
            cur.sp->interpolate(p1(), b(), u, p2());
        }
        bool in1 = cur.sp->satisfiesBounds(p1());
        bool in2 = exempt || cur.sp->satisfiesBounds(p2());
        if (exempt)
        {
            // discrete / hybrid: endpoints, bounds, aliasing only; leaf agreement is a drift metric
            matchTree(cur, c["exp"], p1(), nullptr, m);
            if (!m.ok && i != 0 && i != 8)
            {
                ++drift[id + ":interpolant-differs-from-model"];
                m.ok = true;
            }
        }
        else
            matchTree(cur, c["exp"], p1(), p2(), m);
        if ((!in1 && hasPlusPiLeaf(cur, p1())) || (!in2 && hasPlusPiLeaf(cur, p2())))
        {
            // D2: the interpolant is the angle +pi, which satisfiesBounds() rejects; everything derived
            // from it in this case is a consequence, so the case is reported once under this key
            char buf[240];
            snprintf(buf, sizeof buf, "interpolate() produced the angle +pi (satisfiesBounds: p1 %d, p2 %d) at s=%d/8 u=%d/8; first interpolant %s",
                     in1, in2, i, j, show(cur, p1()).c_str());
            rep.fail("so2-interpolate-plus-pi", buf, brief);
            continue;
        }
        if (!in1 || !in2)
            rep.fail("c07:" + id + ":in-bounds", "interpolant violates satisfiesBounds(): " + show(cur, in1 ? p2() : p1()), brief);
        if (!m.ok)
            rep.fail("c07:" + id + (i == 0 ? ":endpoint-0" : i == 8 ? ":endpoint-1" : ":interpolant-value"), m.why, brief);
        if (i == 0 && !(cur.sp->distance(p1(), a()) <= 1e-12))
            rep.fail("c07:" + id + ":endpoint-0", "interpolate(a, b, 0) is not a", brief);
        if (i == 8 && !(cur.sp->distance(p1(), b()) <= 1e-12))
            rep.fail("c07:" + id + ":endpoint-1", "interpolate(a, b, 1) is not b", brief);
        if (!exempt)
        {
            // geodesic proportionality with the real distance against the model's expectation
            ++propChecked;
            ++evals;
            double dp = cur.sp->distance(a(), p1()), e = evalSum(c["dp"]);
            if (!close(dp, e))
            {
                char buf[200];
                snprintf(buf, sizeof buf, "d(a, I(a,b,%d/8)) = %.17g, expected t*d(a,b) = %.17g", i, dp, e);
                rep.fail("c07:" + id + ":proportionality", buf, brief);
            }
            // re-parameterisation with the real code on both sides
            ++repChecked;
            Scoped q(cur);
            double T = s + (1.0 - s) * u;
            cur.sp->interpolate(a(), b(), T, q());
            evals += 2;
            double dr = cur.sp->distance(p2(), q());
            // antipodal ties may be resolved differently only if the model allows both: then p2 was
            // already matched against the model above; the direct comparison is skipped for ties at s=0
            bool tie = false;
            for (auto &cl : c["cls"])
            {
                std::string sc = cl.get<std::string>();
                if (sc == "so2:antipodal" || sc == "so3:orthogonal")
                    tie = true;
            }
            if (!(dr <= 1e-9) && !tie)
                rep.fail("c07:" + id + ":reparameterisation", "I(I(a,b,s),b,u) differs from I(a,b,s+(1-s)u) by distance " + std::to_string(dr), brief);
        }
    }
    json keys = json::object();
    for (auto &kv : rep.count)
        keys[kv.first] = kv.second;
    std::cout << "SUMMARY "
              << json{{"cases", cases}, {"evaluations", evals}, {"nontrivial", nontrivial.size()}, {"failures", rep.failures},
                      {"keys", keys}, {"classes", classes}, {"drift", drift}, {"spaces", spaces},
                      {"proportionality_checked", propChecked}, {"reparameterisation_checked", repChecked}}
                     .dump()
              << std::endl;
    return rep.failures ? 1 : 0;
}

// ------------------------------------------------------------------ recorded observations
struct Shipped
{
    std::string name;
    json sp;
    bool geo;          // interpolation follows the space's own geodesic (property C07's list)
    bool extChecked;   // extent clause applies (bounded)
    bool floatPrec;    // distance computed in float
};

static std::vector<Shipped> shipped()
{
    auto J = [](const char *s) { return json::parse(s); };
    std::vector<Shipped> v;
    v.push_back({"RV1", J(R"({"k":"RV","n":1,"lo":-3,"hi":5,"u":[1,2]})"), true, true, false});
    v.push_back({"RV3", J(R"({"k":"RV","n":3,"lo":-2,"hi":3,"u":[1,1]})"), true, true, false});
    v.push_back({"RV6", J(R"({"k":"RV","n":6,"lo":-1,"hi":1,"u":[3,1]})"), true, true, false});
    // spaces extended with addDimension() after a first setup()
    v.push_back({"RV3Grown", J(R"({"k":"RV","n":3,"lo":-2,"hi":3,"u":[1,1],"grow":2})"), true, true, false});
    v.push_back({"CompoundGrown",
                 J(R"({"k":"Comp","real":"Compound","sub":[{"k":"RV","n":3,"lo":-1,"hi":2,"u":[1,1],"grow":1},{"k":"SO2"}],"w":[[2,1],[1,2]]})"),
                 true, true, false});
    v.push_back({"SO2", J(R"({"k":"SO2"})"), true, true, false});
    v.push_back({"SO3", J(R"({"k":"SO3"})"), true, true, false});
    v.push_back({"SE2", J(R"({"k":"Comp","real":"SE2","sub":[{"k":"RV","n":2,"lo":-2,"hi":3,"u":[1,1]},{"k":"SO2"}],"w":[[1,1],[1,2]]})"), true, true, false});
    v.push_back({"SE3", J(R"({"k":"Comp","real":"SE3","sub":[{"k":"RV","n":3,"lo":-1,"hi":2,"u":[1,1]},{"k":"SO3"}],"w":[[1,1],[1,1]]})"), true, true, false});
    v.push_back({"Time", J(R"({"k":"Time","lo":-1,"hi":7,"u":[1,2]})"), true, true, false});
    v.push_back({"TimeUnbounded", J(R"({"k":"Time","unbounded":true})"), true, false, false});
    v.push_back({"Discrete", J(R"({"k":"Disc","lo":-2,"hi":4})"), false, true, false});
    v.push_back({"Torus", J(R"({"k":"Torus"})"), true, true, false});
    v.push_back({"Sphere", J(R"({"k":"Sphere","r":1.0})"), false, true, true});
    v.push_back({"SphereR3", J(R"({"k":"Sphere","r":3.0})"), false, true, true});
    v.push_back({"Mobius", J(R"({"k":"Mobius","vmax":1.0,"r":1.0})"), false, true, false});
    v.push_back({"KleinBottle", J(R"({"k":"Klein"})"), false, true, false});
    v.push_back({"Dubins", J(R"({"k":"Dubins","rho":1.0,"sym":false,"lo":-4,"hi":4})"), false, true, false});
    v.push_back({"DubinsSym", J(R"({"k":"Dubins","rho":1.0,"sym":true,"lo":-4,"hi":4})"), false, true, false});
    v.push_back({"ReedsShepp", J(R"({"k":"RS","rho":1.0,"lo":-4,"hi":4})"), false, true, false});
    v.push_back({"WrapperSE2", J(R"({"k":"Wrap","of":{"k":"Comp","real":"SE2","sub":[{"k":"RV","n":2,"lo":-1,"hi":1,"u":[1,1]},{"k":"SO2"}],"w":[[1,1],[1,2]]}})"), true, true, false});
    v.push_back({"WrapperSO3", J(R"({"k":"Wrap","of":{"k":"SO3"}})"), true, true, false});
    v.push_back({"WrapperMobius", J(R"({"k":"Wrap","of":{"k":"Mobius","vmax":1.0,"r":1.0}})"), false, true, false});
    v.push_back({"CompoundNested",
                 J(R"({"k":"Comp","real":"Compound","sub":[
                      {"k":"Comp","real":"SE2","sub":[{"k":"RV","n":2,"lo":0,"hi":2,"u":[1,1]},{"k":"SO2"}],"w":[[1,1],[1,2]]},
                      {"k":"Time","lo":0,"hi":3,"u":[1,1]},
                      {"k":"Comp","real":"Compound","sub":[{"k":"SO2"},{"k":"RV","n":1,"lo":-1,"hi":1,"u":[1,2]}],"w":[[1,4],[4,1]]}],
                      "w":[[2,1],[1,2],[1,1]]})"),
                 true, true, false});
    v.push_back({"CompoundRotations",
                 J(R"({"k":"Comp","real":"Compound","sub":[{"k":"SO3"},{"k":"Torus"},{"k":"Wrap","of":{"k":"SO2"}}],"w":[[3,2],[1,4],[1,1]]})"),
                 true, true, false});
    v.push_back({"CompoundHybrid",
                 J(R"({"k":"Comp","real":"Compound","sub":[{"k":"RV","n":2,"lo":-1,"hi":1,"u":[1,1]},{"k":"Disc","lo":0,"hi":3},{"k":"SO2"}],"w":[[1,1],[2,1],[1,2]]})"),
                 false, true, false});
    // shipped compound classes re-weighted with setSubspaceWeight(): standalone, nested, wrapped
    v.push_back({"SE2Reweighted", J(R"({"k":"Comp","real":"SE2","sub":[{"k":"RV","n":2,"lo":-2,"hi":2,"u":[1,1]},{"k":"SO2"}],"w":[[3,1],[2,1]]})"), true, true, false});
    v.push_back({"SE3Reweighted", J(R"({"k":"Comp","real":"SE3","sub":[{"k":"RV","n":3,"lo":-1,"hi":1,"u":[1,1]},{"k":"SO3"}],"w":[[1,1],[1,16]]})"), true, true, false});
    v.push_back({"CompoundReweightedNested",
                 J(R"({"k":"Comp","real":"Compound","sub":[
                      {"k":"Comp","real":"SE2","sub":[{"k":"RV","n":2,"lo":0,"hi":2,"u":[1,1]},{"k":"SO2"}],"w":[[1,4],[1,1]]},
                      {"k":"Comp","real":"SE3","sub":[{"k":"RV","n":3,"lo":0,"hi":1,"u":[1,1]},{"k":"SO3"}],"w":[[2,1],[1,2]]},
                      {"k":"Time","lo":0,"hi":2,"u":[1,1]}],
                      "w":[[3,2],[1,2],[1,1]]})"),
                 true, true, false});
    v.push_back({"WrapperSE2Reweighted", J(R"({"k":"Wrap","of":{"k":"Comp","real":"SE2","sub":[{"k":"RV","n":2,"lo":-1,"hi":1,"u":[1,1]},{"k":"SO2"}],"w":[[1,1],[1,16]]}})"), true, true, false});
    v.push_back({"CompoundSE3Time",
                 J(R"({"k":"Comp","real":"Compound","sub":[{"k":"Comp","real":"SE3","sub":[{"k":"RV","n":3,"lo":0,"hi":1,"u":[1,1]},{"k":"SO3"}],"w":[[1,1],[1,1]]},{"k":"Time","lo":0,"hi":2,"u":[1,1]}],"w":[[1,2],[3,1]]})"),
                 true, true, false});
    // 3-D Dubins airplane spaces: distance = length of the computed path (no symmetry, no triangle inequality claimed)
    v.push_back({"Owen", J(R"({"k":"Owen","rho":1.0,"lo":-3,"hi":3,"zlo":-6,"zhi":6})"), false, true, false});
    v.push_back({"Vana", J(R"({"k":"Vana","rho":1.0,"lo":-3,"hi":3,"zlo":-6,"zhi":6})"), false, true, false});
    v.push_back({"VanaOwen", J(R"({"k":"VanaOwen","rho":1.0,"lo":-3,"hi":3,"zlo":-6,"zhi":6})"), false, true, false});
    // space-time: weighted compound of a space and time, infinite distance beyond the speed limit, infinite extent
    v.push_back({"SpaceTime", J(R"({"k":"SpaceTime","sub":[{"k":"RV","n":2,"lo":-2,"hi":2,"u":[1,1]},{"k":"Time","lo":0,"hi":4,"u":[1,1]}],"w":[[1,2],[1,2]],"v":[1,1]})"),
                 true, false, false});
    v.push_back({"SpaceTimeSE2", J(R"({"k":"SpaceTime","sub":[{"k":"Comp","real":"SE2","sub":[{"k":"RV","n":2,"lo":-2,"hi":2,"u":[1,1]},{"k":"SO2"}],"w":[[1,1],[1,2]]},{"k":"Time","lo":-1,"hi":2,"u":[1,1]}],"w":[[3,4],[1,4]],"v":[2,1]})"),
                 true, false, false});
    // dimension 0
    v.push_back({"Empty", J(R"({"k":"RV","n":0,"real":"Empty"})"), true, true, false});
    // constrained spaces as wrappers of R^3 ([-2,2]^3) with the unit sphere as constraint
    v.push_back({"ProjectedSphere", J(R"({"k":"Constrained","kind":"PJ"})"), false, true, false});
    v.push_back({"AtlasSphere", J(R"({"k":"Constrained","kind":"AT"})"), false, true, false});
    v.push_back({"TangentBundleSphere", J(R"({"k":"Constrained","kind":"TB"})"), false, true, false});
    return v;
}

enum Mode
{
    RANDOM,
    LATTICE,
    LOW,
    HIGH,
    MID
};

static void normalizeQ(double *q)
{
    double n = std::sqrt(q[0] * q[0] + q[1] * q[1] + q[2] * q[2] + q[3] * q[3]);
    for (int i = 0; i < 4; ++i)
        q[i] /= n;
}
// q <- q * r  (x, y, z, w layout)
static void mulQ(double *q, const double *r)
{
    double x = q[3] * r[0] + q[0] * r[3] + q[1] * r[2] - q[2] * r[1];
    double y = q[3] * r[1] + q[1] * r[3] + q[2] * r[0] - q[0] * r[2];
    double z = q[3] * r[2] + q[2] * r[3] + q[0] * r[1] - q[1] * r[0];
    double w = q[3] * r[3] - q[0] * r[0] - q[1] * r[1] - q[2] * r[2];
    q[0] = x;
    q[1] = y;
    q[2] = z;
    q[3] = w;
}

static bool g_ulpHigh = false;
// angular slots use `am`, linear slots `lm`; delta is the offset from the seam / bound for LOW, HIGH
static void gen(const Node &nd, ob::State *s, vt::Rng &r, Mode am, Mode lm, double delta, bool angularOnly = false)
{
    walk(nd, s, [&](const Node &l, ob::State *ls) {
        if (angularOnly && l.k != "SO2" && l.k != "SO3")
            return;
        if (l.k == "RV" || l.k == "Time")
        {
            int c;
            double *p = slots(l, ls, c);
            for (int i = 0; i < c; ++i)
            {
                double lo = l.lo[l.k == "RV" ? i : 0], hi = l.hi[l.k == "RV" ? i : 0];
                double d = std::min(delta, hi - lo);
                switch (lm)
                {
                    case RANDOM:
                        p[i] = lo + r.unit() * (hi - lo);
                        break;
                    case LATTICE:
                        p[i] = lo + (hi - lo) * r.below(9) / 8.0;
                        break;
                    case LOW:
                        p[i] = lo + d;
                        break;
                    case HIGH:
                        p[i] = hi - d;
                        break;
                    case MID:
                        p[i] = 0.5 * (lo + hi);
                        break;
                }
                p[i] = std::min(hi, std::max(lo, p[i]));
            }
        }
        else if (l.k == "SO2")
        {
            double &v = ls->as<ob::SO2StateSpace::StateType>()->value;
            switch (am)
            {
                case RANDOM:
                    v = -PI + r.unit() * 2 * PI;
                    break;
                case LATTICE:
                    v = (r.below(16) - 8) * PI / 8.0;
                    break;
                case LOW:
                    v = -PI + delta;
                    break;
                case HIGH:
                    v = PI - std::max(delta, 1e-12);
                    // the last doubles below the seam: a blend that is in range mathematically can ROUND onto +pi
                    // (only in the seam-ulp probe, whose other state is far from the seam: two states a few ulps
                    // apart across the seam have distances that round to 0 in the embedded spaces - rounding, not
                    // a broken positivity law)
                    if (g_ulpHigh)
                    {
                        v = std::nextafter(PI, 0.0);
                        if (r.below(3) == 0)
                            v = std::nextafter(v, 0.0);
                    }
                    break;
                case MID:
                    v = 0;
                    break;
            }
            if (v >= PI)
                v = std::nextafter(PI, 0.0);
            if (v < -PI)
                v = -PI;
        }
        else if (l.k == "SO3")
        {
            double *q = &ls->as<ob::SO3StateSpace::StateType>()->x;
            auto randomQ = [&]() {
                double n;
                do
                {
                    n = 0;
                    for (int i = 0; i < 4; ++i)
                    {
                        q[i] = 2 * r.unit() - 1;
                        n += q[i] * q[i];
                    }
                } while (n > 1 || n < 1e-3);
                normalizeQ(q);
            };
            switch (am)
            {
                case RANDOM:
                    randomQ();
                    break;
                case LATTICE:
                {
                    int h = r.below(24);
                    if (h < 8)
                    {
                        q[0] = q[1] = q[2] = q[3] = 0;
                        q[h / 2] = h % 2 ? -1 : 1;
                    }
                    else
                        for (int i = 0; i < 4; ++i)
                            q[i] = ((h - 8) >> i) & 1 ? -0.5 : 0.5;
                    break;
                }
                case LOW:
                case HIGH:
                {
                    // the identity rotation and its double-cover twin -q, delta away
                    double rot[4] = {std::sin(delta), 0, 0, std::cos(delta)};
                    q[0] = q[1] = q[2] = 0;
                    q[3] = 1;
                    mulQ(q, rot);
                    if (am == HIGH)
                        for (int i = 0; i < 4; ++i)
                            q[i] = -q[i];
                    break;
                }
                case MID:
                    q[0] = 1;
                    q[1] = q[2] = q[3] = 0;
                    break;
            }
        }
        else if (l.k == "Disc")
        {
            int lo = (int)l.lo[0], hi = (int)l.hi[0];
            int &v = ls->as<ob::DiscreteStateSpace::StateType>()->value;
            v = lm == LOW ? lo : lm == HIGH ? hi : lm == MID ? (lo + hi) / 2 : lo + r.below(hi - lo + 1);
        }
    });
}

// dst = src moved by eps in every continuous slot (kept in bounds)
static void perturb(const Node &nd, ob::State *dst, const ob::State *src, double eps, vt::Rng &r)
{
    nd.sp->copyState(dst, src);
    walk(nd, dst, [&](const Node &l, ob::State *ls) {
        if (l.k == "RV" || l.k == "Time")
        {
            int c;
            double *p = slots(l, ls, c);
            for (int i = 0; i < c; ++i)
            {
                double hi = l.hi[l.k == "RV" ? i : 0];
                p[i] = (p[i] + eps <= hi) ? p[i] + eps : p[i] - eps;
            }
        }
        else if (l.k == "SO2")
        {
            double &v = ls->as<ob::SO2StateSpace::StateType>()->value;
            v = (v + eps < PI) ? v + eps : v - eps;
        }
        else if (l.k == "SO3")
        {
            double *q = &ls->as<ob::SO3StateSpace::StateType>()->x;
            double ax[3] = {2 * r.unit() - 1, 2 * r.unit() - 1, 2 * r.unit() - 1 + 1e-3};
            double n = std::sqrt(ax[0] * ax[0] + ax[1] * ax[1] + ax[2] * ax[2]);
            double rot[4] = {std::sin(eps) * ax[0] / n, std::sin(eps) * ax[1] / n, std::sin(eps) * ax[2] / n, std::cos(eps)};
            mulQ(q, rot);
            normalizeQ(q);
        }
    });
}

// dst = the state "opposite" to src: angle + pi, quaternion at the maximal distance, mirrored reals
static void antipode(const Node &nd, ob::State *dst, const ob::State *src)
{
    nd.sp->copyState(dst, src);
    walk(nd, dst, [&](const Node &l, ob::State *ls) {
        if (l.k == "RV" || l.k == "Time")
        {
            int c;
            double *p = slots(l, ls, c);
            for (int i = 0; i < c; ++i)
            {
                double lo = l.lo[l.k == "RV" ? i : 0], hi = l.hi[l.k == "RV" ? i : 0];
                p[i] = std::min(hi, std::max(lo, lo + hi - p[i]));
            }
        }
        else if (l.k == "SO2")
        {
            double &v = ls->as<ob::SO2StateSpace::StateType>()->value;
            v = v >= 0 ? v - PI : v + PI;
            if (v >= PI)
                v = -PI;
        }
        else if (l.k == "SO3")
        {
            double *q = &ls->as<ob::SO3StateSpace::StateType>()->x;
            double rot[4] = {1, 0, 0, 0};
            mulQ(q, rot);
        }
        else if (l.k == "Disc")
        {
            int &v = ls->as<ob::DiscreteStateSpace::StateType>()->value;
            v = (int)l.lo[0] + (int)l.hi[0] - v;
        }
    });
}

// which case splits a pair of inputs sits on (describes the inputs; never a verdict)
static void kleinSeam(const Node &nd, const ob::State *a, const ob::State *b, bool &seam)
{
    if (nd.k == "Wrap")
        return kleinSeam(nd.sub[0], a->as<ob::WrapperStateSpace::StateType>()->getState(),
                         b->as<ob::WrapperStateSpace::StateType>()->getState(), seam);
    if (nd.k == "Klein")
    {
        double u1 = a->as<ob::KleinBottleStateSpace::StateType>()->getU(), u2 = b->as<ob::KleinBottleStateSpace::StateType>()->getU();
        if (std::fabs(u1 - u2) > 0.5 * PI)
            seam = true;
        return;
    }
    if (!nd.leaf())
        for (std::size_t i = 0; i < nd.sub.size(); ++i)
            kleinSeam(nd.sub[i], a->as<ob::CompoundState>()->components[i], b->as<ob::CompoundState>()->components[i], seam);
}
// largest coordinate separation of a pair in nano-units (angles on the circle, quaternions: chord up to sign)
static long long separation(const Node &nd, const ob::State *a, const ob::State *b)
{
    double sep = 0;
    walk2(nd, const_cast<ob::State *>(a), b, [&](const Node &l, ob::State *x, const ob::State *y) {
        if (l.k == "SO2")
        {
            double d = std::fabs(x->as<ob::SO2StateSpace::StateType>()->value - y->as<ob::SO2StateSpace::StateType>()->value);
            sep = std::max(sep, std::min(d, 2 * PI - d));
        }
        else if (l.k == "SO3")
        {
            const double *p = &x->as<ob::SO3StateSpace::StateType>()->x;
            const double *q = &y->as<ob::SO3StateSpace::StateType>()->x;
            double m = 0, pl = 0;
            for (int i = 0; i < 4; ++i)
            {
                m += (p[i] - q[i]) * (p[i] - q[i]);
                pl += (p[i] + q[i]) * (p[i] + q[i]);
            }
            sep = std::max(sep, std::sqrt(std::min(m, pl)));
        }
        else if (l.k == "Disc")
            sep = std::max(sep, std::fabs((double)x->as<ob::DiscreteStateSpace::StateType>()->value -
                                          (double)y->as<ob::DiscreteStateSpace::StateType>()->value));
        else
        {
            int c;
            double *p = slots(l, x, c);
            double *q = slots(l, const_cast<ob::State *>(y), c);
            for (int i = 0; i < c; ++i)
                sep = std::max(sep, std::fabs(p[i] - q[i]));
        }
    });
    return (long long)std::min(2.0e9, std::ceil(sep * 1e9));
}

// Decomposition of a space whose distance is CompoundStateSpace::distance, applied recursively: the parts
// are the sub-spaces that are not themselves such compounds (wrappers looked through), each with the product
// of the real weights on its path.  With states, also the real distance of each part.
static void plainParts(const Node &nd, double w, const ob::State *a, const ob::State *b, std::vector<double> &weights,
                       std::vector<double> *dists)
{
    if (nd.k == "Wrap")
        return plainParts(nd.sub[0], w, a ? a->as<ob::WrapperStateSpace::StateType>()->getState() : nullptr,
                          b ? b->as<ob::WrapperStateSpace::StateType>()->getState() : nullptr, weights, dists);
    if (nd.plain)
    {
        auto *cs = nd.sp->as<ob::CompoundStateSpace>();
        for (std::size_t i = 0; i < nd.sub.size(); ++i)
            plainParts(nd.sub[i], w * cs->getSubspaceWeight(i), a ? a->as<ob::CompoundState>()->components[i] : nullptr,
                       b ? b->as<ob::CompoundState>()->components[i] : nullptr, weights, dists);
        return;
    }
    weights.push_back(w);
    if (dists)
        dists->push_back(nd.sp->distance(a, b));
}

// sum over the SO(3) leaves of the product of the weights on their path
static double so3Weight(const Node &nd, double w)
{
    if (nd.k == "SO3")
        return w;
    if (nd.k == "Wrap")
        return so3Weight(nd.sub[0], w);
    double r = 0;
    if (nd.plain)
    {
        auto *cs = nd.sp->as<ob::CompoundStateSpace>();
        for (std::size_t i = 0; i < nd.sub.size(); ++i)
            r += so3Weight(nd.sub[i], w * cs->getSubspaceWeight(i));
    }
    return r;
}
static bool hasKind(const Node &nd, const std::string &k)
{
    if (nd.k == k)
        return true;
    for (auto &c : nd.sub)
        if (hasKind(c, k))
            return true;
    return false;
}

static json pairFlags(const Node &nd, const ob::State *a, const ob::State *b)
{
    bool seam = false, anti = false, near = false, allSame = true, allNear = true, bound = false, farSign = false;
    kleinSeam(nd, a, b, seam);
    walk2(nd, const_cast<ob::State *>(a), b, [&](const Node &l, ob::State *x, const ob::State *y) {
        if (l.k == "SO2")
        {
            double u = x->as<ob::SO2StateSpace::StateType>()->value, v = y->as<ob::SO2StateSpace::StateType>()->value;
            double d = std::fabs(u - v);
            if (d > PI)
                seam = true;
            if (std::fabs(d - PI) < 1e-6)
                anti = true;
            double arc = std::min(d, 2 * PI - d);
            if (d != 0 && arc < 1e-4)
                near = true;
            if (arc >= 1e-4)
                allNear = false;
            if (d != 0)
                allSame = false;
        }
        else if (l.k == "SO3")
        {
            const double *p = &x->as<ob::SO3StateSpace::StateType>()->x;
            const double *q = &y->as<ob::SO3StateSpace::StateType>()->x;
            double dot = p[0] * q[0] + p[1] * q[1] + p[2] * q[2] + p[3] * q[3];
            bool same = memcmp(p, q, 4 * sizeof(double)) == 0;
            if (dot < 0)
                farSign = true;
            if (std::fabs(dot) < 1e-6)
                anti = true;
            if (!same && std::fabs(dot) > 1 - 1e-8)
                near = true;
            if (std::fabs(dot) <= 1 - 1e-8)
                allNear = false;
            if (!same)
                allSame = false;
        }
        else if (l.k == "Disc")
        {
            if (x->as<ob::DiscreteStateSpace::StateType>()->value != y->as<ob::DiscreteStateSpace::StateType>()->value)
                allSame = allNear = false;
        }
        else
        {
            int c;
            double *p = slots(l, x, c);
            double *q = slots(l, const_cast<ob::State *>(y), c);
            for (int i = 0; i < c; ++i)
            {
                double d = std::fabs(p[i] - q[i]);
                if (d != 0)
                    allSame = false;
                if (d != 0 && d < 1e-4)
                    near = true;
                if (d >= 1e-4)
                    allNear = false;
                double lo = l.lo[l.k == "RV" ? i : 0], hi = l.hi[l.k == "RV" ? i : 0];
                if (p[i] == lo || p[i] == hi || q[i] == lo || q[i] == hi)
                    bound = true;
            }
        }
    });
    json f = json::array();
    if (seam)
        f.push_back("seam");
    if (anti)
        f.push_back("antipodal");
    if (near)
        f.push_back("near");
    if (allNear && !allSame)
        f.push_back("nearall");
    if (allSame)
        f.push_back("coincident");
    if (bound)
        f.push_back("bound");
    if (farSign)
        f.push_back("farsign");
    return f;
}
// The airplane spaces have no bound on their distances (VanaStateSpace doubles its turning radius up to 2^32 times
// while it looks for a feasible path): there, values beyond the 32-bit fixed-point range are logged as the largest
// value that fits (2000 units).  Sound for the laws applied to them: above the extent, above any straight line.
static bool SATURATE = false;
static long long fx(double d, bool &nonfinite)
{
    if (!std::isfinite(d))
    {
        nonfinite = true;
        return 0;
    }
    if (SATURATE && std::fabs(d) * 1e6 > 2.0e9)
        return d > 0 ? 2000000000LL : -2000000000LL;
    return vt::tlcInt(std::llround(d * 1e6));
}

// tangent-bundle space: how far re-projecting a state that is already on the manifold may move it (see below)
static const double TB_REPROJECT = 2e-4;

static json spaceEvent(const Shipped &sh, const Node &nd)
{
    double ext = nd.sp->getMaximumExtent();
    const bool extInf = !std::isfinite(ext);   // SpaceTimeStateSpace: "maximum extent is infinite"
    if (extInf)
        ext = 0;
    // tolerance in micro-units: 2 for the fixed-point rounding of double-precision results;
    // float-precision spaces: float epsilon x extent on top
    long tol = 2;
    if (sh.floatPrec)
        tol += (long)std::ceil(FLT_EPSILON * ext * 1e6);
    // the quaternion distance is 0 above |<p,q>| > 1 - 1e-9 (MAX_QUATERNION_NORM_ERROR): it resolves
    // rotations only down to acos(1 - 1e-9) = 4.47e-5 rad
    tol += (long)std::ceil(45.0 * so3Weight(nd, 1.0));
    // the space's own resolution (nano-units): pairs closer than this in every coordinate need not have
    // a positive distance (Dubins / Reeds-Shepp shortcut below 1e-6, quaternion threshold, float sphere)
    long res = 0;
    if (hasKind(nd, "Dubins") || hasKind(nd, "RS") || nd.fam == "airplane")
        res = std::max(res, 2000L);   // the airplane spaces compute both projections with the planar Dubins code
    if (hasKind(nd, "SO3"))
        res = std::max(res, 50000L);
    if (sh.floatPrec)
        res = std::max(res, 100000L);

    json ev{{"e", "Space"},          {"name", sh.name},
            {"metric", nd.sp->isMetricSpace()}, {"sym", nd.sp->hasSymmetricDistance()},
            {"ext", vt::tlcInt(std::llround(ext * 1e6))}, {"tol", tol},
            {"extChecked", sh.extChecked && !extInf},      {"geo", sh.geo},
            {"exempt", nd.sp->isDiscrete() || nd.sp->isHybrid()},
            {"prec", sh.floatPrec ? "float" : "double"}, {"plain", false}, {"w", json::array()},
            {"res", res}, {"fam", nd.fam}, {"extInf", extInf},
            // family parameters (defaults for the families they do not concern)
            {"lip", json::array({1, 1})}, {"tol3", 2}, {"vmax", json::array({1, 1})}, {"margin", 0},
            {"delta", 0}, {"tol0", tol}, {"aliasTol", 0}};
    if (sh.geo && ext * 1e6 * 64 > 2.0e9)
    {
        fprintf(stderr, "FRAMEWORK: extent of %s too large for 32-bit fixed point laws\n", sh.name.c_str());
        _exit(4);
    }
    if (nd.fam == "airplane" && nd.k != "Owen")
        // Vana / VanaOwen interpolate the horizontal (x, y) and the vertical (s, z) projection of the path each at
        // fraction t of its own length: both speeds are bounded by the path length L, the curve by sqrt(2) L
        // (23/16 = 1.4375 >= sqrt 2); Owen's helix is traversed at constant speed L (factor 1)
        ev["lip"] = json::array({23, 16});
    if (nd.fam == "spacetime")
    {
        auto *st = nd.sp->as<ob::SpaceTimeStateSpace>();
        ev["vmax"] = json::array({(long)nd.vmaxN, (long)nd.vmaxD});
        // the reachability test carries an epsilon "scaled appropriately" to the time extent (float epsilon x the
        // next power of ten): observations closer than that to the light cone may fall on either side
        const double text = st->getTimeComponent()->getMaximumExtent();
        ev["margin"] = 2 + (long)std::ceil(FLT_EPSILON * 10.0 * std::max(1.0, text) * 1e6);
        for (unsigned i = 0; i < 2; ++i)
        {
            const double w = st->getSubspaceWeight(i);
            long num = std::lround(w * 16);
            if (w <= 0 || std::fabs(num / 16.0 - w) > 0)
            {
                fprintf(stderr, "FRAMEWORK: weight %g of %s is not a small positive dyadic number\n", w, sh.name.c_str());
                _exit(4);
            }
            ev["w"].push_back(json::array({num, 16}));
        }
    }
    if (nd.fam == "constrained")
    {
        // the discrete geodesic ends within delta of its target; the tangent-bundle space re-projects the state it
        // picks (chart point -> manifold, accepted within the constraint tolerance): both are the space's resolution
        ev["delta"] = vt::tlcInt(std::llround(nd.delta * 1e6));
        ev["tol0"] = nd.con == "TB" ? tol + (long)std::ceil(TB_REPROJECT * 1e6) : tol;
        ev["aliasTol"] = nd.con == "PJ" ? 0 : ev["delta"].get<long>();
    }
    const Node *cn = &nd;
    while (cn->k == "Wrap")
        cn = &cn->sub[0];
    if (cn->plain)
    {
        ev["plain"] = true;
        std::vector<double> ws;
        plainParts(nd, 1.0, nullptr, nullptr, ws, nullptr);
        for (double w : ws)
        {
            long num = std::lround(w * 16);
            if (w <= 0 || std::fabs(num / 16.0 - w) > 0 || num > 128)
            {
                fprintf(stderr, "FRAMEWORK: weight %g of %s is not a small positive dyadic number\n", w, sh.name.c_str());
                _exit(4);
            }
            ev["w"].push_back(json::array({num, 16}));
        }
    }
    return ev;
}

static void unflatten(const Node &nd, ob::State *s, const std::vector<double> &v)
{
    std::size_t at = 0;
    walk(nd, s, [&](const Node &l, ob::State *ls) {
        if (l.k == "Disc")
        {
            ls->as<ob::DiscreteStateSpace::StateType>()->value = (int)v.at(at++);
            return;
        }
        int c;
        double *p = slots(l, ls, c);
        for (int i = 0; i < c; ++i)
            p[i] = v.at(at++);
    });
}

struct Probe
{
    std::string cls;
    // generation recipe for a, b, c
    std::function<void(ob::State *, ob::State *, ob::State *)> make;
    bool once{false};   // a fixed (canned) input: recorded once
    int s{-1}, u{-1};   // fixed re-parameterisation point (64ths) for canned interpolation probes
};

// fixed inputs that reproduce a known phenomenon deterministically, whatever the seed
static void canned(const std::string &name, const Node &nd, bool interp, std::vector<Probe> &v)
{
    auto fixed = [&nd](std::vector<double> a, std::vector<double> b, std::vector<double> c) {
        return [&nd, a, b, c](ob::State *x, ob::State *y, ob::State *z) {
            unflatten(nd, x, a);
            unflatten(nd, y, b);
            unflatten(nd, z, c);
        };
    };
    const double h = PI / 2;
    if (nd.fam == "airplane")
    {
        // (x, y, z[, pitch], yaw).  Level flight to a target a hair lower / at the same altitude; straight up;
        // a target that needs a full vertical turn to be met at its pitch
        const bool p4 = nd.sub[0].n == 4;
        auto st = [p4](double x, double y, double z, double pitch, double yaw) {
            return p4 ? std::vector<double>{x, y, z, pitch, yaw} : std::vector<double>{x, y, z, yaw};
        };
        Probe lv{"canned-level", fixed(st(0, 0, 0, 0, 0), st(2, 1, -1e-12, 0, 1), st(2, 1, 0, 0, 1)), true};
        lv.s = 16;
        lv.u = 32;
        v.push_back(lv);
        Probe up{"canned-climb", fixed(st(0, 0, -6, 0, 0), st(0, 0, 6, 0, 0), st(1, 0, 0, 0, 0)), true};
        up.s = 32;
        up.u = 32;
        v.push_back(up);
        Probe lp{"canned-loop", fixed(st(2.3206672534955057, -2.8236896010413703, -1.6222363590252522, 0.26252039922815729, 2.3319066520301472),
                                      st(-0.53048339694114333, -1.2651370754926918, -3.5374345918801016, 0.34578803540627723, 2.8848752783501812),
                                      st(0, 0, 0, 0, 0)), true};
        lp.s = 48;
        lp.u = 32;
        v.push_back(lp);
        // the same with round numbers (pitch -pi/24 -> -pi/12, heading -pi/4 -> -pi/8): a loop in Vana's path
        Probe lv2{"canned-loop-vana", fixed(st(1.5, -0.75, 0, -0.13089969389957468, -0.78539816339744828),
                                            st(3, -3, 1.5, -0.26179938779914941, -0.39269908169872414), st(0, 0, 0, 0, 0)), true};
        lv2.s = 17;
        lv2.u = 8;
        v.push_back(lv2);
        // a medium-altitude path (an extra turn before the planar path) in Owen's and in Vana-Owen's construction
        Probe md{"canned-medium", fixed(st(-1, 2.5, -6, 0, 0), st(2, -1.5, -1, 0, 0), st(0, 0, 0, 0, 0)), true};
        md.s = 8;
        md.u = 48;
        v.push_back(md);
        // straight above, heading across the seam: no Vana-Owen path is found
        Probe np{"canned-nopath", fixed(st(3, 3, 3, -0.26179938779914941, -3.1415926535897931),
                                        st(3, 3, 4.5, -0.52359877559829882, 3.141592653588793), st(0, 0, 0, 0, 0)), true};
        np.s = 4;
        np.u = 32;
        v.push_back(np);
        // top to bottom of the box: the descent is flown a few micro-radians steeper than the pitch range allows
        Probe sl{"canned-steep", fixed(st(2.25, -0.75, 6, -0.26179938779914941, 1.337930808307374),
                                       st(-2.25, 0.75, -6, 0.26179938779914941, -1.8036618452824191), st(0, 0, 0, 0, 0)), true};
        sl.s = 49;
        sl.u = 64;
        v.push_back(sl);
    }
    if (name == "SO2" || name == "WrapperSO2")
    {
        // no wrap needed (|to - from| <= pi), yet from + (to - from) * 1 rounds onto +pi when `to` is the last double
        // below the seam (a tie in the last bit, about 4 % of a regular grid of `from` values)
        const double top = std::nextafter(PI, 0.0);
        for (double from : {0.94247779607693771, 0.3 * PI, 1e-6 * PI * 271828, 0.5, 1.0})
            v.push_back({"canned-ulp", fixed({from}, {top}, {0.0}), true});
    }
    if (!interp)
    {
        if (name == "Mobius" || name == "WrapperMobius")
            // the seam rule applies as soon as |du| > pi although the way round the strip is shorter
            v.push_back({"canned-seam", fixed({-1.6, 1.0}, {0.0, 1.0}, {1.6, 1.0}), true});
        if (name == "KleinBottle")
        {
            v.push_back({"canned-seam", fixed({0.84378344565990548, -1.14993555996039}, {2.7003753826406718, 0.78897392301132907},
                                              {2.2824003755718278, 0.63740066016610042}), true});
            // u = 0 and u = pi are both in bounds and glued with v reversed: two representations of one point
            v.push_back({"canned-glued", fixed({0.0, -1.1780972450961724}, {PI, -1.9634954084936207}, {1.0, 0.0}), true});
        }
        if (name == "Sphere" || name == "SphereR3")
        {
            // float haversine next to an antipode: two states 1e-9 apart, distances to a third differ by ~7e-4 x radius
            v.push_back({"canned-antipode", fixed({h, 0.97379158626554196}, {-h, 2.1678010673242509},
                                                  {-h + 1e-9, 2.1678010673242509 + 1e-9}), true});
            // two representations of the north pole, and the two poles
            v.push_back({"canned-pole", fixed({0.3, 0.0}, {2.0, 0.0}, {0.0, PI}), true});
            // antipodes on the equator: the largest distance, radius x pi
            v.push_back({"canned-equator", fixed({0.0, h}, {-PI, h}, {h, h}), true});
        }
        if (name == "Dubins" || name == "DubinsSym")
        {
            // opposite corners, headings pointing away from each other: longer than the reported extent
            v.push_back({"canned-far", fixed({4, 4, 1.3272836507597869}, {-4, -4, -2.2481230820020652}, {0, 0, 0}), true});
            // same position, headings 2e-9 apart: below the internal DUBINS_EPS
            v.push_back({"canned-heading", fixed({4, 4, 0.43893147294306978}, {4, 4, 0.43893147494306983}, {0, 0, 0}), true});
        }
    }
    else
    {
        if (name == "KleinBottle")
        {
            Probe p{"canned-seam", fixed({2.4770818027160972, h}, {0.66451085087369588, -h}, {0, 0}), true};
            p.s = 16;
            p.u = 25;
            v.push_back(p);
            // the Klein bottle re-wraps v with its own code: across the u seam, v must come back as -pi, not +pi
            // (from v = 3pi/4 to the mirror image of v = -pi, i.e. 0 ... probed at t = 1 and on the way)
            Probe q{"canned-plus-pi", fixed({0.0, 2.3561944901923448}, {1.1780972450961724, -PI}, {0, 0}), true};
            q.s = 0;
            q.u = 64;
            v.push_back(q);
            // across the u seam (|du| > pi/2, own code path): v goes from 3pi/4 the short way round to the mirror
            // image -3pi/4 of v = -pi/4 and is exactly pi at t = 1/2
            Probe r{"canned-plus-pi", fixed({0.2, 2.3561944901923448}, {3.0, -0.78539816339744828}, {0, 0}), true};
            r.s = 32;
            r.u = 64;
            v.push_back(r);
        }
        if (name == "ReedsShepp")
        {
            Probe p{"canned-pivot", fixed({-2, -2, -3.1405926535897932}, {-2, -2, 3.1415926535897927}, {0, 0, 0}), true};
            p.s = 7;
            p.u = 32;
            v.push_back(p);
        }
        if (name == "DubinsSym")
        {
            Probe p{"canned-flip", fixed({1.7114724637048697, 0.22075845570208052, -2.748893571891069},
                                         {-1.7114724637048697, -0.22075845570208052, 0.39269908169872414}, {0, 0, 0}), true};
            p.s = 32;
            p.u = 32;
            v.push_back(p);
        }
        if (name == "SO2")
        {
            // D2: from pi/8 to -pi at t = 1 (k = 64 is always probed)
            Probe p{"canned-plus-pi", fixed({PI / 8}, {-PI}, {0}), true};
            p.s = 0;
            p.u = 64;
            v.push_back(p);
        }
    }
}

static std::vector<Probe> probes(const Node &nd, vt::Rng &r, bool interp)
{
    static const double deltas[] = {0.0, 1e-12, 1e-9, 0.1, 0.3};
    auto dl = [&r]() { return deltas[r.below(5)]; };
    auto third = [&nd, &r, dl](ob::State *c) {
        int m = r.below(3);
        gen(nd, c, r, m == 0 ? RANDOM : m == 1 ? LATTICE : (r.below(2) ? LOW : HIGH), m == 1 ? LATTICE : RANDOM, dl());
    };
    auto anyOf = [&r]() { return r.below(2) ? RANDOM : LATTICE; };
    std::vector<Probe> v;
    v.push_back({"random", [&nd, &r](ob::State *a, ob::State *b, ob::State *c) {
                     gen(nd, a, r, RANDOM, RANDOM, 0);
                     gen(nd, b, r, RANDOM, RANDOM, 0);
                     gen(nd, c, r, RANDOM, RANDOM, 0);
                 }});
    v.push_back({"lattice", [&nd, &r](ob::State *a, ob::State *b, ob::State *c) {
                     gen(nd, a, r, LATTICE, LATTICE, 0);
                     gen(nd, b, r, LATTICE, LATTICE, 0);
                     gen(nd, c, r, LATTICE, LATTICE, 0);
                 }});
    v.push_back({"seam", [&nd, &r, third, dl, anyOf](ob::State *a, ob::State *b, ob::State *c) {
                     gen(nd, a, r, LOW, anyOf(), dl());
                     gen(nd, b, r, HIGH, anyOf(), dl());
                     third(c);
                 }});
    v.push_back({"seam-ulp", [&nd, &r, third, anyOf](ob::State *a, ob::State *b, ob::State *c) {
                     // any angle against the last doubles below +pi (HIGH with delta 0 picks them one time in three):
                     // no wrap is needed, but the blend can round onto +pi itself
                     gen(nd, a, r, RANDOM, anyOf(), 0);
                     g_ulpHigh = true;
                     gen(nd, b, r, HIGH, anyOf(), 0);
                     g_ulpHigh = false;
                     if (r.below(4) == 0)
                         std::swap(a, b);
                     gen(nd, c, r, RANDOM, RANDOM, 0);
                 }});
    v.push_back({"antipodal", [&nd, &r, third, anyOf](ob::State *a, ob::State *b, ob::State *c) {
                     gen(nd, a, r, anyOf(), RANDOM, 0);
                     antipode(nd, b, a);
                     third(c);
                 }});
    v.push_back({"near-antipodal", [&nd, &r, anyOf](ob::State *a, ob::State *b, ob::State *c) {
                     gen(nd, a, r, anyOf(), anyOf(), 0);
                     antipode(nd, b, a);
                     perturb(nd, c, b, r.below(2) ? 1e-9 : 1e-12, r);
                 }});
    v.push_back({"coincident", [&nd, &r, third, anyOf](ob::State *a, ob::State *b, ob::State *c) {
                     gen(nd, a, r, anyOf(), anyOf(), 0);
                     nd.sp->copyState(b, a);
                     if (r.below(3) == 0)
                         nd.sp->copyState(c, a);
                     else
                         third(c);
                 }});
    for (double eps : {1e-9, 1e-12})
        v.push_back({eps == 1e-9 ? "near-1e-9" : "near-1e-12", [&nd, &r, third, anyOf, eps](ob::State *a, ob::State *b, ob::State *c) {
                         gen(nd, a, r, anyOf(), anyOf(), 0);
                         perturb(nd, b, a, eps, r);
                         if (r.below(3) == 0)
                             perturb(nd, c, b, eps, r);
                         else
                             third(c);
                     }});
    v.push_back({"bound", [&nd, &r, third](ob::State *a, ob::State *b, ob::State *c) {
                     // linear slots on their bounds (poles of the sphere, rim of the Moebius strip), angles free
                     gen(nd, a, r, RANDOM, r.below(2) ? LOW : HIGH, 0);
                     gen(nd, b, r, RANDOM, r.below(2) ? LOW : HIGH, 0);
                     if (r.below(2))
                         gen(nd, c, r, RANDOM, MID, 0);
                     else
                         third(c);
                 }});
    v.push_back({"corner", [&nd, &r, anyOf](ob::State *a, ob::State *b, ob::State *c) {
                     gen(nd, a, r, LOW, LOW, 0);
                     gen(nd, b, r, HIGH, HIGH, 0);
                     gen(nd, c, r, r.below(2) ? MID : LATTICE, r.below(2) ? MID : LATTICE, 0);
                 }});
    v.push_back({"pivot", [&nd, &r, third, dl, anyOf](ob::State *a, ob::State *b, ob::State *c) {
                     // same position, different orientation (turning on the spot)
                     gen(nd, a, r, r.below(2) ? LOW : anyOf(), anyOf(), dl());
                     nd.sp->copyState(b, a);
                     gen(nd, b, r, r.below(2) ? HIGH : anyOf(), RANDOM, dl(), true);
                     third(c);
                 }});
    if (nd.fam == "airplane")
    {
        // component 0 = (x, y, z[, pitch]), component 1 = yaw
        auto rvOf = [](ob::State *s) { return s->as<ob::CompoundState>()->components[0]->as<ob::RealVectorStateSpace::StateType>()->values; };
        const Node &rv = nd.sub[0];
        // level flight: the same altitude (exactly, or a hair above / below) and the same pitch
        v.push_back({"level", [&nd, &r, &rv, rvOf, third](ob::State *a, ob::State *b, ob::State *c) {
                         static const double dzs[] = {0.0, 0.0, 1e-12, -1e-12, 1e-9, -1e-9, 1e-7, -1e-7};
                         gen(nd, a, r, RANDOM, r.below(2) ? RANDOM : LATTICE, 0);
                         gen(nd, b, r, RANDOM, r.below(2) ? RANDOM : LATTICE, 0);
                         double z = rvOf(a)[2] + dzs[r.below(8)];
                         rvOf(b)[2] = std::min(rv.hi[2], std::max(rv.lo[2], z));
                         if (rv.n == 4)
                         {
                             if (r.below(2))
                                 rvOf(a)[3] = 0;
                             rvOf(b)[3] = rvOf(a)[3];
                         }
                         third(c);
                     }});
        // little room in the plane, much altitude to gain or lose: medium- and high-altitude paths (turn / helix)
        v.push_back({"altitude", [&nd, &r, &rv, rvOf, third](ob::State *a, ob::State *b, ob::State *c) {
                         gen(nd, a, r, RANDOM, RANDOM, 0);
                         gen(nd, b, r, RANDOM, RANDOM, 0);
                         const double rad = r.below(3) == 0 ? 0.0 : 1.5 * r.unit(), ang = 2 * PI * r.unit();
                         rvOf(b)[0] = std::min(rv.hi[0], std::max(rv.lo[0], rvOf(a)[0] + rad * std::cos(ang)));
                         rvOf(b)[1] = std::min(rv.hi[1], std::max(rv.lo[1], rvOf(a)[1] + rad * std::sin(ang)));
                         if (r.below(2))
                         {
                             rvOf(a)[2] = r.below(2) ? rv.lo[2] : rv.hi[2];
                             rvOf(b)[2] = rv.lo[2] + rv.hi[2] - rvOf(a)[2];
                         }
                         third(c);
                     }});
    }
    if (nd.fam == "spacetime")
    {
        // on and next to the light cone: the time between the two states is what the motion needs at vMax, +- a little
        v.push_back({"light-cone", [&nd, &r, third](ob::State *a, ob::State *b, ob::State *c) {
                         static const double ds[] = {0.0, 0.0, 1e-12, -1e-12, 1e-9, -1e-9, 1e-6, -1e-6, 1e-3, -1e-3};
                         auto *st = nd.sp->as<ob::SpaceTimeStateSpace>();
                         const Node &tn = nd.sub[1];
                         gen(nd, a, r, r.below(2) ? RANDOM : LATTICE, r.below(2) ? RANDOM : LATTICE, 0);
                         nd.sp->copyState(b, a);
                         // move the space component (positions only: same heading), then set the time
                         Scoped tmp(nd);
                         gen(nd, tmp(), r, RANDOM, r.below(2) ? RANDOM : LATTICE, 0);
                         walk2(nd.sub[0], b->as<ob::CompoundState>()->components[0], tmp()->as<ob::CompoundState>()->components[0],
                               [&](const Node &l, ob::State *x, const ob::State *y) {
                                   if (l.k == "RV")
                                       l.sp->copyState(x, y);
                               });
                         const double need = st->timeToCoverDistance(a, b) + ds[r.below(10)];
                         double &ta = a->as<ob::CompoundState>()->components[1]->as<ob::TimeStateSpace::StateType>()->position;
                         double &tb = b->as<ob::CompoundState>()->components[1]->as<ob::TimeStateSpace::StateType>()->position;
                         if (need > tn.hi[0] - tn.lo[0])
                             ta = tn.lo[0], tb = tn.hi[0];   // cannot be reached within the time bounds at all
                         else
                         {
                             if (ta + need > tn.hi[0])
                                 ta = tn.lo[0] + r.unit() * (tn.hi[0] - tn.lo[0] - need);
                             tb = std::max(tn.lo[0], ta + need);
                             if (r.below(2))
                                 std::swap(ta, tb);   // the distance does not depend on the direction of time
                         }
                         third(c);
                     }});
    }
    if (nd.k == "SO3")
        // the resolution of the quaternion distance (MAX_QUATERNION_NORM_ERROR): demonstrated on SO(3) itself only
        v.push_back({"so3-threshold", [&nd, &r, third, interp](ob::State *a, ob::State *b, ob::State *c) {
                         gen(nd, a, r, r.below(2) ? RANDOM : LATTICE, RANDOM, 0);
                         perturb(nd, b, a, interp ? 1e-3 : 3e-5, r);
                         third(c);
                     }});
    return v;
}


// ------------------------------------------------------------------ observations of the new families

static long long fx3(double d, bool &nonfinite)   // 1e-3 units (chords against path lengths: products stay 32-bit)
{
    if (!std::isfinite(d))
    {
        nonfinite = true;
        return 0;
    }
    if (SATURATE && std::fabs(d) * 1e3 > 2.0e6)
        return d > 0 ? 2000000LL : -2000000LL;   // (x 64 x 16 stays below 2^31)
    return vt::tlcInt(std::llround(d * 1e3));
}

// constrained: put a generated state on the constraint manifold (the unit sphere), as a user of the space would
static void onSphere(ob::State *s)
{
    double *x = s->as<ob::WrapperStateSpace::StateType>()->getState()->as<ob::RealVectorStateSpace::StateType>()->values;
    double n = std::sqrt(x[0] * x[0] + x[1] * x[1] + x[2] * x[2]);
    if (n < 1e-6)
    {
        x[0] = x[1] = 0;
        x[2] = 1;
        return;
    }
    for (int i = 0; i < 3; ++i)
        x[i] /= n;
}

// airplane spaces: the (x, y, z) position lives in the first three values of component 0
static const double *pos3(const ob::State *s)
{
    return s->as<ob::CompoundState>()->components[0]->as<ob::RealVectorStateSpace::StateType>()->values;
}
static double euclid3(const ob::State *a, const ob::State *b)
{
    const double *p = pos3(a), *q = pos3(b);
    return std::sqrt((p[0] - q[0]) * (p[0] - q[0]) + (p[1] - q[1]) * (p[1] - q[1]) + (p[2] - q[2]) * (p[2] - q[2]));
}

// the path API the three airplane classes share by convention (getPath, PathType::length, interpolate with a path)
struct Airplane
{
    std::function<bool(const ob::State *, const ob::State *, double &)> pathLength;   // false: no path found
    // interpolate(from, to, t, path, out) on the path getPath() returns; false (out untouched) when there is none
    std::function<bool(const ob::State *, const ob::State *, double, ob::State *)> viaPath;
    std::function<char(const ob::State *, const ob::State *)> category;   // L / M / H (Owen, VanaOwen), '-' otherwise
    bool hasPitch{false};
    double pitchLo{0}, pitchHi{0};
};
template <class S>
static Airplane airplaneOf(const Node &nd)
{
    Airplane ap;
    const S *sp = nd.sp->as<S>();
    ap.pathLength = [sp](const ob::State *a, const ob::State *b, double &len) {
        auto path = sp->getPath(a, b);
        if (!path)
            return false;
        len = path->length();
        return true;
    };
    ap.viaPath = [sp](const ob::State *a, const ob::State *b, double t, ob::State *out) {
        auto path = sp->getPath(a, b);
        if (!path)
            return false;
        sp->interpolate(a, b, t, *path, out);
        return true;
    };
    if (nd.sub[0].n == 4)
    {
        ap.hasPitch = true;
        ap.pitchLo = nd.sub[0].lo[3];
        ap.pitchHi = nd.sub[0].hi[3];
    }
    return ap;
}
template <class S>
static std::function<char(const ob::State *, const ob::State *)> categoryOf(const Node &nd)
{
    const S *sp = nd.sp->as<S>();
    return [sp](const ob::State *a, const ob::State *b) {
        auto path = sp->getPath(a, b);
        return path ? (char)path->category() : '0';
    };
}
static Airplane airplane(const Node &nd)
{
    Airplane ap;
    if (nd.k == "Owen")
    {
        ap = airplaneOf<ob::OwenStateSpace>(nd);
        ap.category = categoryOf<ob::OwenStateSpace>(nd);
    }
    else if (nd.k == "Vana")
    {
        ap = airplaneOf<ob::VanaStateSpace>(nd);
        ap.category = [](const ob::State *, const ob::State *) { return '-'; };
    }
    else
    {
        ap = airplaneOf<ob::VanaOwenStateSpace>(nd);
        ap.category = categoryOf<ob::VanaOwenStateSpace>(nd);
    }
    return ap;
}

// space-time: one ordered pair
static json stPair(const Node &nd, const ob::State *a, const ob::State *b, const std::string &cls, bool &nf)
{
    auto *st = nd.sp->as<ob::SpaceTimeStateSpace>();
    const double dab = st->distance(a, b), dba = st->distance(b, a), daa = st->distance(a, a), dbb = st->distance(b, b);
    const bool iab = std::isinf(dab) && dab > 0, iba = std::isinf(dba) && dba > 0;
    bool nan = false;
    json ev{{"e", "STPair"}, {"cls", cls}, {"fab", pairFlags(nd, a, b)},
            {"iab", iab}, {"iba", iba}, {"dab", iab ? 0 : fx(dab, nan)}, {"dba", iba ? 0 : fx(dba, nan)},
            {"daa", fx(daa, nan)}, {"dbb", fx(dbb, nan)},
            {"ds", fx(st->distanceSpace(a, b), nan)}, {"dt", fx(st->distanceTime(a, b), nan)},
            {"ttc", fx(st->timeToCoverDistance(a, b), nan)}, {"ttcr", fx(st->timeToCoverDistance(b, a), nan)},
            {"neg", dab < 0 || dba < 0 || daa < 0 || dbb < 0},
            {"eq", st->equalStates(a, b)}, {"pos", dab > 0 && dba > 0}, {"sep", separation(nd, a, b)}};
    ev["repro"] = "a=" + show(nd, a) + " b=" + show(nd, b);
    nf = nf || nan;
    return ev;
}

static std::string showHex(const Node &nd, const ob::State *s)
{
    char buf[64];
    std::string r = "(";
    for (double v : flatten(nd, s))
    {
        snprintf(buf, sizeof buf, "%a", v);
        if (r.size() > 1)
            r += ", ";
        r += buf;
    }
    return r + ")";
}

static int record(const std::string &out, long n, const std::string &filter, bool interp)
{
    vt::Trace tr(out);
    vt::Rng rng(vt::envSeed() * 7919 + (interp ? 17 : 3));
    long events = 0, skipped = 0;
    std::unordered_set<std::uint64_t> nontrivial;
    std::map<std::string, long> perClass, facts;
    for (auto &sh : shipped())
    {
        if (!filter.empty() && sh.name != filter)
            continue;
        Node nd = build(sh.sp);
        nd.sp->setup();
        tr.emit(spaceEvent(sh, nd));
        const Node *cn = &nd;
        while (cn->k == "Wrap")
            cn = &cn->sub[0];
        auto pr = probes(nd, rng, interp);
        canned(sh.name, nd, interp, pr);
        Airplane ap;
        if (nd.fam == "airplane")
            ap = airplane(nd);
        SATURATE = nd.fam == "airplane";
        for (auto &p : pr)
        {
            for (long it = 0; it < (p.once ? 1 : n); ++it)
            {
                Scoped a(nd), b(nd), c(nd);
                p.make(a(), b(), c());
                if (nd.fam == "constrained")
                {
                    onSphere(a());
                    onSphere(b());
                    onSphere(c());
                }
                if (!nd.sp->satisfiesBounds(a()) || !nd.sp->satisfiesBounds(b()) || !nd.sp->satisfiesBounds(c()))
                {
                    ++skipped;
                    continue;
                }
                bool nf = false;
                auto D = [&](const ob::State *x, const ob::State *y) { return nd.sp->distance(x, y); };
                json ev;
                json fab = pairFlags(nd, a(), b());
                bool nontriv = !fab.empty();
                const bool newFam = nd.fam != "std" || sh.name == "Empty";
                auto hexes = [&](bool three) {
                    return " hex: a=" + showHex(nd, a()) + " b=" + showHex(nd, b()) + (three ? " c=" + showHex(nd, c()) : "");
                };
                auto emit = [&](json &e) {
                    e["nan"] = nf;
                    tr.emit(e);
                    ++events;
                    ++perClass[p.cls];
                    if (nontriv)
                        // (a space of dimension 0 has one state: all its probes are one case)
                        nontrivial.insert(fnv(sh.name + (nd.sp->getDimension() == 0 ? std::string() : e["repro"].get<std::string>())));
                };
                if (nd.fam == "spacetime" && !interp)
                {
                    // ordered pairs (the space claims no triangle inequality): (a, b) and (b, c)
                    ev = stPair(nd, a(), b(), p.cls, nf);
                    ++facts[ev["iab"].get<bool>() ? "spacetime_infinite" : "spacetime_finite"];
                    ev["repro"] = ev["repro"].get<std::string>() + hexes(false);
                    emit(ev);
                    nf = false;
                    json ev2 = stPair(nd, b(), c(), p.cls, nf);
                    ++facts[ev2["iab"].get<bool>() ? "spacetime_infinite" : "spacetime_finite"];
                    nontriv = nontriv || !ev2["fab"].empty();
                    emit(ev2);
                    continue;
                }
                if (!interp)
                {
                    json fbc = pairFlags(nd, b(), c()), fac = pairFlags(nd, a(), c());
                    nontriv = nontriv || !fbc.empty() || !fac.empty();
                    double dab = D(a(), b()), dba = D(b(), a()), dbc = D(b(), c()), dcb = D(c(), b()), dac = D(a(), c()),
                           dca = D(c(), a()), daa = D(a(), a()), dbb = D(b(), b()), dcc = D(c(), c());
                    bool neg = dab < 0 || dba < 0 || dbc < 0 || dcb < 0 || dac < 0 || dca < 0 || daa < 0 || dbb < 0 || dcc < 0;
                    ev = json{{"e", "Triple"}, {"cls", p.cls}, {"fab", fab}, {"fbc", fbc}, {"fac", fac},
                              {"dab", fx(dab, nf)}, {"dba", fx(dba, nf)}, {"dbc", fx(dbc, nf)}, {"dcb", fx(dcb, nf)},
                              {"dac", fx(dac, nf)}, {"dca", fx(dca, nf)}, {"daa", fx(daa, nf)}, {"dbb", fx(dbb, nf)},
                              {"dcc", fx(dcc, nf)}, {"neg", neg},
                              {"eqab", nd.sp->equalStates(a(), b())}, {"eqbc", nd.sp->equalStates(b(), c())},
                              {"eqac", nd.sp->equalStates(a(), c())},
                              {"posab", dab > 0 && dba > 0}, {"posbc", dbc > 0 && dcb > 0}, {"posac", dac > 0 && dca > 0},
                              {"sab", separation(nd, a(), b())}, {"sbc", separation(nd, b(), c())},
                              {"sac", separation(nd, a(), c())}, {"parts", json::array()}};
                    if (cn->plain)
                    {
                        std::vector<double> ws, ds;
                        plainParts(nd, 1.0, a(), b(), ws, &ds);
                        for (double x : ds)
                            ev["parts"].push_back(fx(x, nf));
                    }
                    if (nd.fam == "airplane")
                    {
                        // straight-line distances of the positions: no flight path is shorter
                        ev["eab"] = fx(euclid3(a(), b()), nf);
                        ev["ebc"] = fx(euclid3(b(), c()), nf);
                        ev["eac"] = fx(euclid3(a(), c()), nf);
                        double len;
                        for (auto pq : {std::make_pair(a(), b()), std::make_pair(b(), c()), std::make_pair(a(), c())})
                            ++facts[ap.pathLength(pq.first, pq.second, len) ? "airplane_pairs_with_path" : "airplane_pairs_without_path"];
                    }
                    ev["repro"] = "a=" + show(nd, a()) + " b=" + show(nd, b()) + " c=" + show(nd, c()) + (newFam ? hexes(true) : "");
                    if (newFam)
                    {
                        // the raw values (fixed point cannot carry a non-finite one)
                        char buf[320];
                        snprintf(buf, sizeof buf, " distances: ab=%.17g ba=%.17g bc=%.17g cb=%.17g ac=%.17g ca=%.17g aa=%.17g", dab, dba,
                                 dbc, dcb, dac, dca, daa);
                        ev["repro"] = ev["repro"].get<std::string>() + buf;
                    }
                    emit(ev);
                    continue;
                }
                // interpolation probe on (a, b): t = k/64
                std::vector<int> K = {0, 64, 32, 8, 56, 1, 63, rng.below(65), rng.below(65)};
                int ksn = rng.below(3) == 0 ? (rng.below(2) ? 0 : 32) : rng.below(65);
                int kun = rng.below(3) == 0 ? (rng.below(2) ? 64 : 32) : rng.below(65);
                if (p.s >= 0)
                {
                    ksn = p.s;
                    kun = p.u;
                }
                const std::string repro = "a=" + show(nd, a()) + " b=" + show(nd, b()) + " s=" + std::to_string(ksn) + "/64 u=" +
                                          std::to_string(kun) + "/64" + (newFam ? hexes(false) : "");
                json ks = json::array(), inb = json::array(), dat = json::array(), alF = json::array(), alT = json::array();
                if (nd.fam == "constrained")
                {
                    // endpoints and aliasing only.  interpolate() returns `from` when the discrete geodesic fails; whether
                    // it succeeds is asked before and after (the atlas grows while it is traversed)
                    auto *css = nd.sp->as<ob::ConstrainedStateSpace>();
                    const bool ok1 = css->discreteGeodesic(a(), b(), true, nullptr);
                    json dfrom = json::array(), dto = json::array();
                    Scoped pt(nd), af(nd), bt(nd);
                    for (int k : K)
                    {
                        double t = k / 64.0;
                        nd.sp->interpolate(a(), b(), t, pt());
                        nd.sp->copyState(af(), a());
                        nd.sp->copyState(bt(), b());
                        nd.sp->interpolate(af(), b(), t, af());
                        nd.sp->interpolate(a(), bt(), t, bt());
                        ks.push_back(k);
                        inb.push_back(nd.sp->satisfiesBounds(pt()) ? 1 : 0);
                        dfrom.push_back(fx(D(a(), pt()), nf));
                        dto.push_back(fx(D(pt(), b()), nf));
                        alF.push_back(fx(D(af(), pt()), nf));
                        alT.push_back(fx(D(bt(), pt()), nf));
                    }
                    const bool ok2 = css->discreteGeodesic(a(), b(), true, nullptr);
                    ++facts[ok1 && ok2 ? "constrained_geodesic_succeeded" : !ok1 && !ok2 ? "constrained_geodesic_failed" : "constrained_geodesic_unstable"];
                    ev = json{{"e", "CInterp"}, {"cls", p.cls}, {"fab", fab}, {"dab", fx(D(a(), b()), nf)},
                              {"ok1", ok1}, {"ok2", ok2}, {"ks", ks}, {"inb", inb}, {"dfrom", dfrom}, {"dto", dto},
                              {"alFd", alF}, {"alTd", alT}, {"repro", repro}};
                    emit(ev);
                    continue;
                }
                double dab = D(a(), b());
                if (nd.fam == "spacetime" && std::isinf(dab))
                {
                    // no motion within the speed limit joins the pair: interpolate() is still the compound's; only
                    // endpoints, bounds and aliasing are required of it
                    Scoped p0(nd), p1(nd), pt(nd), af(nd), bt(nd);
                    nd.sp->interpolate(a(), b(), 0.0, p0());
                    nd.sp->interpolate(a(), b(), 1.0, p1());
                    for (int k : K)
                    {
                        double t = k / 64.0;
                        nd.sp->interpolate(a(), b(), t, pt());
                        nd.sp->copyState(af(), a());
                        nd.sp->copyState(bt(), b());
                        nd.sp->interpolate(af(), b(), t, af());
                        nd.sp->interpolate(a(), bt(), t, bt());
                        ks.push_back(k);
                        inb.push_back(nd.sp->satisfiesBounds(pt()) ? 1 : 0);
                        alF.push_back(sameBits(nd, af(), pt()) ? 1 : 0);
                        alT.push_back(sameBits(nd, bt(), pt()) ? 1 : 0);
                    }
                    ev = json{{"e", "InterpBasic"}, {"cls", p.cls}, {"fab", fab}, {"d0", fx(D(p0(), a()), nf)},
                              {"d1", fx(D(p1(), b()), nf)}, {"ks", ks}, {"inb", inb}, {"alF", alF}, {"alT", alT}, {"repro", repro}};
                    ++facts["spacetime_interp_unreachable"];
                    emit(ev);
                    continue;
                }
                if (nd.fam == "spacetime")
                    ++facts["spacetime_interp_reachable"];
                Scoped p0(nd), p1(nd), pt(nd), af(nd), bt(nd);
                nd.sp->interpolate(a(), b(), 0.0, p0());
                nd.sp->interpolate(a(), b(), 1.0, p1());
                bool pp = false;
                // proportionality and re-parameterisation are not claimed of the airplane spaces, and their interpolants
                // may lie outside the bounds: no distances from / between interpolants are taken there
                const bool geoLaws = nd.fam != "airplane";
                for (int k : K)
                {
                    double t = k / 64.0;
                    nd.sp->interpolate(a(), b(), t, pt());
                    pp = pp || hasPlusPiLeaf(nd, pt());
                    nd.sp->copyState(af(), a());
                    nd.sp->copyState(bt(), b());
                    nd.sp->interpolate(af(), b(), t, af());
                    nd.sp->interpolate(a(), bt(), t, bt());
                    ks.push_back(k);
                    inb.push_back(nd.sp->satisfiesBounds(pt()) ? 1 : 0);
                    dat.push_back(geoLaws ? fx(D(a(), pt()), nf) : 0);
                    alF.push_back(sameBits(nd, af(), pt()) ? 1 : 0);
                    alT.push_back(sameBits(nd, bt(), pt()) ? 1 : 0);
                }
                double s = ksn / 64.0, u = kun / 64.0;
                Scoped ps(nd), pr2(nd), pq(nd);
                nd.sp->interpolate(a(), b(), s, ps());
                nd.sp->interpolate(ps(), b(), u, pr2());
                nd.sp->interpolate(a(), b(), s + (1.0 - s) * u, pq());
                // "within the space bounds for every t in [0,1]": also at parameters that are no dyadic fractions (a blend
                // written as a convex combination rounds differently there, one ulp past a bound both states sit on)
                bool inbS = nd.sp->satisfiesBounds(ps());
                for (double tx : {0.059, 0.3, 0.77, 0.2, 0.19, 0.013, rng.unit()})
                {
                    nd.sp->interpolate(a(), b(), tx, pq());
                    inbS = inbS && nd.sp->satisfiesBounds(pq());
                }
                nd.sp->interpolate(a(), b(), s + (1.0 - s) * u, pq());
                ev = json{{"e", "Interp"}, {"cls", p.cls}, {"fab", fab},
                          {"dab", fx(dab, nf)}, {"d0", fx(D(p0(), a()), nf)}, {"d1", fx(D(p1(), b()), nf)},
                          {"ks", ks}, {"inb", inb}, {"dat", dat}, {"alF", alF}, {"alT", alT},
                          {"s", ksn}, {"u", kun}, {"rep", geoLaws ? fx(D(pr2(), pq()), nf) : 0},
                          {"inbS", inbS}, {"inbR", nd.sp->satisfiesBounds(pr2())},
                          // some interpolant of this probe carries the angle +pi (D2)
                          {"plusPi", pp || hasPlusPiLeaf(nd, ps()) || hasPlusPiLeaf(nd, pr2())}};
                if (nd.fam == "airplane")
                {
                    // (1) distance() is the length of the path getPath() returns; (2) interpolate(from, to, t) is the point
                    // at t of that same path (the overload taking the path); (3) the curve has no jumps: chords between
                    // consecutive interpolants (t ascending, 0 and 1 included) against the path length; (4) pitch
                    double plen = 0;
                    const bool has = ap.pathLength(a(), b(), plen);
                    ++facts[has ? "airplane_interp_with_path" : "airplane_interp_without_path"];
                    ++facts[sh.name + "_path_category_" + std::string(1, ap.category(a(), b()))];
                    std::set<int> sorted(K.begin(), K.end());
                    for (int k = 0; k <= 64; k += 4)
                        sorted.insert(k);   // a chord every 1/16 of the path at least
                    json cks = json::array(), chord = json::array(), sameP = json::array(), pex = json::array(), yin = json::array();
                    Scoped prev(nd), viaP(nd);
                    bool first = true;
                    for (int k : sorted)
                    {
                        double t = k / 64.0;
                        nd.sp->interpolate(a(), b(), t, pt());
                        cks.push_back(k);
                        if (!first)
                            chord.push_back(fx3(euclid3(prev(), pt()), nf));
                        first = false;
                        nd.sp->copyState(prev(), pt());
                        nd.sp->copyState(viaP(), pt());
                        sameP.push_back(!ap.viaPath(a(), b(), t, viaP()) || sameBits(nd, viaP(), pt()) ? 1 : 0);
                    }
                    // pitch and heading at every 64th of the path: a stretch flown beyond the pitch range (a loop in the
                    // vertical plane is at least (2 pi - range) x the vertical radius long) holds several of these, so
                    // how far beyond is measured where it is large
                    for (int k = 0; k <= 64; ++k)
                    {
                        nd.sp->interpolate(a(), b(), k / 64.0, pt());
                        double ex = 0;
                        if (ap.hasPitch)
                            ex = std::max({0.0, pos3(pt())[3] - ap.pitchHi, ap.pitchLo - pos3(pt())[3]});
                        if (!std::isfinite(ex))
                        {
                            nf = true;   // a non-finite pitch: the event is reported as not finite
                            ex = 0;
                        }
                        pex.push_back(vt::tlcInt(std::llround(std::min(ex, 2.0) * 1e9)));
                        // the heading on its own (the position may leave its box, as planar Dubins curves do)
                        yin.push_back(nd.sub[1].sp->satisfiesBounds(pt()->as<ob::CompoundState>()->components[1]) ? 1 : 0);
                    }
                    // a path of more than 1000 units (see SATURATE): the products of the no-jumps law would leave the 32-bit
                    // range; the law is not applied to it
                    const bool big = std::isfinite(dab) && dab > 1000.0;
                    if (big)
                    {
                        ++facts["airplane_interp_path_over_1000_units"];
                        for (auto &c3 : chord)
                            c3 = 0;
                    }
                    ev["nopath"] = !has;
                    ev["big"] = big;
                    ev["plen"] = fx(has ? plen : dab, nf);
                    ev["cks"] = cks;
                    ev["chord3"] = chord;
                    ev["dab3"] = big ? 0 : fx3(dab, nf);
                    ev["sameP"] = sameP;
                    ev["pex"] = pex;
                    ev["yin"] = yin;
                }
                ev["repro"] = repro;
                emit(ev);
            }
        }
    }
    json fj = json::object();
    for (auto &kv : facts)
        fj[kv.first] = kv.second;
    std::cout << "RECORDED " << json{{"events", events}, {"lines", tr.count()}, {"skipped_out_of_bounds", skipped},
                                      {"nontrivial", nontrivial.size()}, {"classes", perClass}, {"facts", fj}}
                                    .dump()
              << std::endl;
    return 0;
}

int main(int argc, char **argv)
{
    vt::installCrashHandlers();
    ompl::msg::noOutputHandler();
    std::string mode = argc > 1 ? argv[1] : "";
    try
    {
        if (mode == "replay06" && argc > 2)
            return replay06(argv[2]);
        if (mode == "replay07" && argc > 2)
            return replay07(argv[2]);
        if ((mode == "record06" || mode == "record07") && argc > 3)
            return record(argv[2], atol(argv[3]), argc > 4 ? argv[4] : "", mode == "record07");
        if (mode == "list")
        {
            for (auto &s : shipped())
                std::cout << s.name << std::endl;
            return 0;
        }
    }
    catch (const std::exception &ex)
    {
        std::cout << "HARNESS-ERROR " << ex.what() << std::endl;
        return 3;
    }
    fprintf(stderr, "usage: spaces replay06|replay07 <cases> | record06|record07 <out> <n> [space] | list\n");
    return 2;
}
