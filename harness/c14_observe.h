// C14 - observation of the real DubinsStateSpace / ReedsSheppStateSpace through their public API,
// and the harness's own naming of the abstract branch case a pose pair lands in (walks the
// decision tree EXPORTED BY THE MODEL with the oracle's long-double quantities).
#pragma once
#include "c14_oracle.h"
#include <vtrace.h>
#include <ompl/base/spaces/DubinsStateSpace.h>
#include <ompl/base/spaces/ReedsSheppStateSpace.h>
#include <map>
#include <memory>

namespace c14
{
    namespace ob = ompl::base;
    using vt::json;

    struct Pose
    {
        double x, y, th;
    };

    inline std::string hexd(double v)
    {
        char b[64];
        snprintf(b, sizeof b, "%a", v);
        return b;
    }
    inline std::string repro(const Pose &a, const Pose &b, double rho)
    {
        return "from=(" + hexd(a.x) + "," + hexd(a.y) + "," + hexd(a.th) + ") to=(" + hexd(b.x) + "," + hexd(b.y) + "," +
               hexd(b.th) + ") rho=" + hexd(rho);
    }

    // ---- the quantities the decision structure consults ------------------------------------
    struct Canon
    {
        LD d, alpha, beta;      // true geometry, long double, angles in [0, 2pi)
        double dD, aD, bD;      // what a double-precision client computes with the documented
                                // normalisation (|x| < 1e-7 below 0 and within 5e-7 below 2pi are 0)
    };
    inline double normD(double x)
    {
        const double tp = 2. * (double)PI;
        if (x < 0 && x > -1e-7)
            return 0;
        double xm = x - tp * floor(x / tp);
        if (tp - xm < .5e-6)
            xm = 0.;
        return xm;
    }
    inline Canon canon(const Pose &a, const Pose &b, double rho)
    {
        Canon c;
        LD dx = (LD)b.x - (LD)a.x, dy = (LD)b.y - (LD)a.y;
        c.d = hypotl(dx, dy) / rho;
        LD th = (dx == 0 && dy == 0) ? 0 : atan2l(dy, dx);
        c.alpha = m2((LD)a.th - th);
        c.beta = m2((LD)b.th - th);
        double ddx = b.x - a.x, ddy = b.y - a.y, thd = atan2(ddy, ddx);
        c.dD = sqrt(ddx * ddx + ddy * ddy) / rho;
        c.aD = normD(normD(a.th - thd));
        c.bD = normD(normD(b.th - thd));
        return c;
    }

    // ---- model tables (exported by TLC from DubinsClass.tla / ReedsSheppClass.tla) ----------
    struct Tables
    {
        std::map<std::string, json> tree;        // class -> decision tree
        std::map<std::string, std::string> word;  // branch id -> predicted word ("LSL", ..., or "LSL0" for trivial)
        std::vector<std::string> nodes;           // decision nodes (boundary ids)
        std::map<std::string, int> rsCase;        // "row:signs" -> 1
        std::map<std::string, int> excluded;      // branch cases argued unreachable (not searched for)
        void load(const std::string &path)
        {
            std::ifstream f(path);
            std::string line;
            while (std::getline(f, line))
            {
                if (line.empty())
                    continue;
                json j = json::parse(line);
                std::string k = j["k"];
                if (k == "tree")
                    tree[j["cls"]] = j["tree"];
                else if (k == "dcase")
                    word[j["id"]] = j["word"];
                else if (k == "node")
                    nodes.push_back(j["id"]);
                else if (k == "rcase")
                    rsCase[j["id"]] = 1;
                else if (k == "excluded")
                    excluded[j["id"]] = 1;
            }
        }
    };

    inline std::string join(const std::vector<std::string> &v)
    {
        std::string s;
        for (size_t i = 0; i < v.size(); ++i)
            s += (i ? "/" : "") + v[i];
        return s;
    }

    // which node of the decision structure first separates two trails ("" if identical)
    inline std::string firstDiff(const std::vector<std::string> &a, const std::vector<std::string> &b)
    {
        size_t i = 0;
        while (i < a.size() && i < b.size() && a[i] == b[i])
            ++i;
        if (i >= a.size() || i >= b.size())
            return "";
        auto name = [](const std::string &t) { return t.substr(0, t.find('=')); };
        std::string ctx;
        // the class a test belongs to is part of the node's name
        for (size_t k = 0; k < i; ++k)
            if (a[k].size() == 3 && a[k][0] == 'a' && isdigit(a[k][1]))
                ctx = a[k] + ":";
        std::string na = name(a[i]), nb = name(b[i]);
        if (na == nb)
            return ctx + na;
        if (na.size() == 3 && na[0] == 'a' && nb.size() == 3 && nb[0] == 'a')
            return na[1] != nb[1] ? "row" : "col";  // different class
        return "";
    }

    inline Branch dubinsBranch(const Canon &c, const Tables &tb, Quant *qout = nullptr)
    {
        Branch br;
        Quant q;
        q.six = sixWords(c.d, c.alpha, c.beta);
        if (qout)
            *qout = q;
        bool inFold = false;
        auto tok = [&](const std::string &name, bool outcome, LD margin)
        {
            br.trail.push_back(name + (outcome ? "=T" : "=F"));
            br.margin = std::min(br.margin, margin);
            if (inFold)
                br.outs.push_back(outcome);
        };
        // the double and the long-double view of the inputs must agree for the case to count as interior
        if (fabsl(wrapPi(c.alpha - (LD)c.aD)) > 1e-9L || fabsl(wrapPi(c.beta - (LD)c.bD)) > 1e-9L)
            br.margin = 0;
        bool triv = c.dD < 1e-6 && fabs(c.aD - c.bD) < 1e-6;
        tok("triv", triv, c.dD < 1e-6 ? std::min<LD>(fabsl(c.d - 1e-6L), fabsl(fabs(c.aD - c.bD) - 1e-6L)) : fabsl(c.d - 1e-6L));
        if (triv)
        {
            br.word = 0;
            br.id = join(br.trail);
            return br;
        }
        LD lq = fabsl(sinl(c.alpha)) + fabsl(sinl(c.beta)) + sqrtl(std::max<LD>(0, 4 - powl(cosl(c.alpha) + cosl(c.beta), 2))) - c.d;
        bool isLong = lq < 0;
        tok("long", isLong, fabsl(lq));
        LD mq = INF;
        br.qa = qpos(c.aD, mq);
        br.qb = qpos(c.bD, mq);
        if (isLong)
        {
            if (br.qa % 2 == 1 && br.qb % 2 == 1)  // an exact boundary position is a case of its own, not a margin
                br.margin = std::min(br.margin, mq);
            char cls[8];
            snprintf(cls, sizeof cls, "a%d%d", rowOf(br.qa), rowOf(br.qb));
            br.trail.push_back(cls);
            br.kind = "long";
            br.cls = cls;
            inFold = true;
            auto it = tb.tree.find(cls);
            if (it == tb.tree.end())
            {
                br.defined = false;
                br.id = join(br.trail);
                return br;
            }
            const json *n = &it->second;
            while ((*n)["k"] == "test")
            {
                std::string f = (*n)["f"], rel = (*n)["rel"];
                bool ok = true, out;
                LD m;
                if (rel == "a>b" || rel == "a<b")
                {
                    out = rel == "a>b" ? c.aD > c.bD : c.aD < c.bD;
                    m = fabs(c.aD - c.bD);
                }
                else if (rel == "lsr>rsl")
                {
                    ok = q.six.w[3].ok && q.six.w[2].ok;
                    out = q.six.w[3].len() > q.six.w[2].len();
                    m = fabsl(q.six.w[3].len() - q.six.w[2].len());
                }
                else
                {
                    LD seam = INF;
                    LD s = q.s(f, ok, &seam);
                    out = rel == "<0" ? s < 0 : s > 0;
                    m = std::min(fabsl(s), seam);
                }
                if (!ok)
                    m = 0;
                tok(f + rel, out, m);
                n = &(*n)[out ? "y" : "n"];
            }
            std::string w = (*n)["w"];
            for (int i = 0; i < 6; ++i)
                if (w == DWORD_NAME[i])
                    br.word = i;
        }
        else
        {
            LD minLen = q.six.w[0].len();
            br.word = 0;
            br.kind = "short";
            inFold = true;
            static const char *nm[6] = {"lsl", "rsr", "rsl", "lsr", "rlr", "lrl"};
            // feasibility thresholds of the words that have one
            {
                const LD l1x = -sinl(c.alpha), l1y = cosl(c.alpha), r1x = sinl(c.alpha), r1y = -cosl(c.alpha);
                const LD l2x = c.d - sinl(c.beta), l2y = cosl(c.beta), r2x = c.d + sinl(c.beta), r2y = -cosl(c.beta);
                LD dRL = hypotl(l2x - r1x, l2y - r1y), dLR = hypotl(r2x - l1x, r2y - l1y);
                LD dRR = hypotl(r2x - r1x, r2y - r1y), dLL = hypotl(l2x - l1x, l2y - l1y);
                br.margin = std::min({br.margin, fabsl(dRL - 2), fabsl(dLR - 2), fabsl(dRR - 4), fabsl(dLL - 4)});
            }
            for (int i = 0; i < 6; ++i)  // every arc angle of a competing word away from the 0 / 2pi seam
                if (q.six.w[i].ok)
                    br.margin = std::min({br.margin, q.six.w[i].t, TWOPI - q.six.w[i].t, q.six.w[i].q, TWOPI - q.six.w[i].q});
            for (int i = 1; i < 6; ++i)
            {
                LD len = q.six.w[i].len();
                bool less = len < minLen;
                tok(nm[i], less, (len >= INF || minLen >= INF) ? INF : fabsl(len - minLen));
                if (less)
                {
                    minLen = len;
                    br.word = i;
                }
            }
        }
        br.id = join(br.trail);
        return br;
    }

    // ---- the real spaces -----------------------------------------------------------------------
    struct RSX : ob::ReedsSheppStateSpace
    {
        using ob::ReedsSheppStateSpace::ReedsSheppStateSpace;
        using ob::ReedsSheppStateSpace::interpolate;  // the protected (from, path, t, state) overload
    };

    struct Spaces
    {
        double rho;
        std::shared_ptr<ob::DubinsStateSpace> dub, sym;
        std::shared_ptr<RSX> rs;
        explicit Spaces(double r) : rho(r)
        {
            dub = std::make_shared<ob::DubinsStateSpace>(r, false);
            sym = std::make_shared<ob::DubinsStateSpace>(r, true);
            rs = std::make_shared<RSX>(r);
            ob::RealVectorBounds b(2);
            b.setLow(-1e9);
            b.setHigh(1e9);
            dub->setBounds(b);
            sym->setBounds(b);
            rs->setBounds(b);
        }
    };

    using SE2 = ob::SE2StateSpace::StateType;
    struct St
    {
        ob::StateSpace *sp;
        ob::State *s;
        St(ob::StateSpace *sp_, const Pose &p) : sp(sp_), s(sp_->allocState())
        {
            set(p);
        }
        explicit St(ob::StateSpace *sp_) : sp(sp_), s(sp_->allocState())
        {
        }
        St(const St &) = delete;
        ~St()
        {
            sp->freeState(s);
        }
        void set(const Pose &p)
        {
            s->as<SE2>()->setXY(p.x, p.y);
            s->as<SE2>()->setYaw(p.th);
        }
        Pose get() const
        {
            return Pose{s->as<SE2>()->getX(), s->as<SE2>()->getY(), s->as<SE2>()->getYaw()};
        }
    };

    inline int dubinsWordIndex(const ob::DubinsStateSpace::DubinsPath &p)
    {
        const auto &tab = ob::DubinsStateSpace::dubinsPathType();
        for (int i = 0; i < 6; ++i)
            if (p.type_ == &tab[i])
                return i;
        for (int i = 0; i < 6; ++i)
            if (*p.type_ == tab[i])
                return i;
        return -1;
    }

    // one sampled pose along a traced curve
    struct Sample
    {
        double t;
        Pose p;
    };

    // What a densely sampled curve looks like, judged step by step with nothing but the sampled
    // poses: every step is matched against the six unicycle primitives (left / straight / right,
    // forwards / backwards) of the configured radius.
    struct CurveObs
    {
        LD arc{0};        // sum over steps of chord * (dtheta/2) / sin(dtheta/2)  (exact for any constant-curvature step)
        LD vres{0};       // largest distance between the observed step end and the best primitive's end
        int cusps{0};     // changes of the direction of travel
        int fwd{0}, back{0};
        std::string shape;  // compressed primitive labels, e.g. "R+S+L+"
        bool finite{true};
    };

    inline CurveObs judgeCurve(const std::vector<Sample> &s, double rho)
    {
        CurveObs o;
        int lastDir = 0;
        std::string lastLbl;
        for (size_t i = 0; i + 1 < s.size(); ++i)
        {
            const Pose &a = s[i].p, &b = s[i + 1].p;
            if (!(std::isfinite(b.x) && std::isfinite(b.y) && std::isfinite(b.th)))
            {
                o.finite = false;
                return o;
            }
            LD dx = (LD)b.x - a.x, dy = (LD)b.y - a.y, c = hypotl(dx, dy), dth = wrapPi((LD)b.th - a.th);
            LD half = dth / 2;
            o.arc += fabsl(half) > 1e-10L ? c * half / sinl(half) : c;
            // best primitive: signed length fitted from the observation itself
            LD best = INF;
            int bestDir = 0;
            char bestType = 'S';
            LD along = dx * cosl(a.th) + dy * sinl(a.th);
            for (int type = 0; type < 3; ++type)
            {
                for (int dir = -1; dir <= 1; dir += 2)
                {
                    LD x = 0, y = 0, th = a.th, v;
                    char ty = "LSR"[type];
                    if (ty == 'S')
                    {
                        if ((along < 0) != (dir < 0) && along != 0)
                            continue;
                        v = along / rho;
                    }
                    else
                    {
                        // heading change of an L primitive of signed length v is +v, of an R primitive -v
                        v = (ty == 'L' ? dth : -dth);
                        if ((v < 0) != (dir < 0) && v != 0)
                            continue;
                    }
                    advance(x, y, th, ty, v);
                    LD e = hypotl(x * rho - dx, y * rho - dy) + rho * fabsl(wrapPi(th - b.th));
                    if (e < best)
                    {
                        best = e;
                        bestDir = dir;
                        bestType = ty;
                    }
                }
            }
            o.vres = std::max(o.vres, best);
            if (c > 1e-9L * rho || fabsl(dth) > 1e-9L)
            {
                (bestDir > 0 ? o.fwd : o.back)++;
                if (lastDir != 0 && bestDir != lastDir)
                    ++o.cusps;
                lastDir = bestDir;
                std::string lbl = std::string(1, bestType) + (bestDir > 0 ? "+" : "-");
                if (lbl != lastLbl)
                    o.shape += lbl;
                lastLbl = lbl;
            }
        }
        return o;
    }

    // the sampling grid: uniform, refined so that no step spans a junction the space reports
    inline std::vector<double> grid(const std::vector<double> &segLen, int uniform, int perSeg)
    {
        std::vector<double> t;
        for (int k = 0; k <= uniform; ++k)
            t.push_back((double)k / uniform);
        double L = 0;
        for (double v : segLen)
            L += fabs(v);
        if (L > 0 && std::isfinite(L))
        {
            double c = 0;
            for (double v : segLen)
            {
                double n = fabs(v);
                if (n > 0)
                    for (int k = 0; k <= perSeg; ++k)
                    {
                        double x = (c + n * k / perSeg) / L;
                        if (x > 0 && x < 1)
                            t.push_back(x);
                    }
                c += n;
            }
        }
        std::sort(t.begin(), t.end());
        t.erase(std::unique(t.begin(), t.end()), t.end());
        return t;
    }
}  // namespace c14
