// C12 harness: binds specs/ds/PDFTree.tla (scenario replay, spec -> impl) and
// specs/ds/PDFContractTrace.tla / PDFApproxTrace.tla (recorded random histories, impl -> spec)
// to ompl::PDF<T>.
//
//   pdf replay <graph.ndjson> [pairs|edges] [walks] [shard nshards]   replay the TLC state graph
//   pdf record <out.ndjson> <nops> <small|mixed|ctor>   random history, integer weights, dyadic r
//                                                       (validated by PDFContractTrace, exact)
//   pdf record <out.ndjson> <nops> nonrep               random history, weights like 0.1 / 1e-9 / 1e12
//                                                       logged in fixed point (PDFApproxTrace); meant
//                                                       for the sanitizer-free build
//
// Replay verdicts use contract observations only: size(), getWeight(handle) of every live
// handle, getElements() listing exactly the survivors (and the same Element objects the API
// handed out), and sample(j/16) for j = 0..16 being one of the elements the specification
// lists as admissible for that r.  Integer weights and dyadic r are exact in double, so the
// real answer must be inside the admissible set.  The sum-tree rows are never looked at.
// The admissible sets are phrased over the model's element order; when the real
// getElements() order differs from it (a drift metric, not a verdict) the sample comparison
// for that step is skipped and counted - the recorded-trace path judges sampling against the
// order the structure itself reports.
#include "vtrace.h"
#include "ompl/datastructures/PDF.h"
#include <algorithm>
#include <cmath>
#include <cstdarg>
#include <cstdlib>
#include <memory>
#include <new>
#include <set>
#include <sys/mman.h>
#include <sys/wait.h>

using vt::json;

// Only in the sanitizer-free build, and only while recording histories with non-representable
// weights: memory is handed out zeroed and never recycled.  When sample() walks off the end of
// its storage it then finds a null pointer or the address of a dead Element, never by accident
// the address of a live one, so the recorded outcome ("what came back is not a surviving element")
// does not depend on what the allocator happens to reuse.  Builds with ASan keep ASan's allocator.
#if !defined(__SANITIZE_ADDRESS__)
static bool g_keepFreed = false;
void *operator new(std::size_t n)
{
    void *p = g_keepFreed ? std::calloc(1, n ? n : 1) : std::malloc(n ? n : 1);
    if (!p)
        throw std::bad_alloc();
    return p;
}
void operator delete(void *p) noexcept
{
    if (!g_keepFreed)
        std::free(p);
}
void operator delete(void *p, std::size_t) noexcept
{
    if (!g_keepFreed)
        std::free(p);
}
#endif

// ---- payload types: a plain int, and a non-trivially-copyable record (as planners store)
struct Tagged
{
    int uid;
    std::string tag;
};
template <class P>
struct Pay;
template <>
struct Pay<int>
{
    static int make(int uid)
    {
        return uid;
    }
    static int uid(const int &p)
    {
        return p;
    }
};
template <>
struct Pay<Tagged>
{
    static Tagged make(int uid)
    {
        return Tagged{uid, "element-with-a-heap-allocated-tag-" + std::to_string(uid)};
    }
    static int uid(const Tagged &p)
    {
        return p.uid;
    }
};

// ---- where are we: kept in memory shared with a supervising parent process, so that a sanitizer
// abort (which kills the process without running any handler of ours) can still be reported with
// the scenario / operation that was being executed.
struct Shared
{
    int len;
    int edges[60];    // replay: indices of the edges of the current scenario, in order
    char note[256];   // record: the operation about to be executed
};
static Shared *g_sh = nullptr;
static const vt::Edge *g_base = nullptr;
static void vnote(const char *fmt, ...)
{
    if (vt::Trace::current())
        vt::Trace::current()->flush();  // everything completed so far is on disk before the next call
    if (!g_sh)
        return;
    va_list ap;
    va_start(ap, fmt);
    vsnprintf(g_sh->note, sizeof g_sh->note, fmt, ap);
    va_end(ap);
}

// ---- the graph's edges decoded once (the walkers execute each edge many times)
struct Pre
{
    int act{0};  // 1 Add, 2 Update, 3 Remove, 4 Clear
    int w{0}, pos{0};
    std::vector<int> perm;
    // expectation for the state after the edge
    int n{0};
    std::vector<int> ws;
    unsigned adm[17];  // bit (slot-1) set: the element in that model slot is admissible for r = j/16
    int pick[17];      // the slot the model's own descent reaches (drift metric only)
    std::string admText[17];
};
static std::vector<Pre> g_pre;
static void decodeGraph(const vt::Graph &g)
{
    g_pre.assign(g.edges.size(), Pre());
    for (std::size_t i = 0; i < g.edges.size(); ++i)
    {
        const vt::Edge &e = g.edges[i];
        Pre &p = g_pre[i];
        p.act = e.a == "Add" ? 1 : e.a == "Update" ? 2 : e.a == "Remove" ? 3 : e.a == "Clear" ? 4 : 0;
        if (p.act == 1 || p.act == 2)
            p.w = e.args["w"].get<int>();
        if (p.act == 2 || p.act == 3)
            p.pos = e.args["pos"].get<int>();
        for (auto &lab : e.perm)
            p.perm.push_back(lab.get<int>());
        p.n = e.exp["n"].get<int>();
        p.ws = e.exp["ws"].get<std::vector<int>>();
        for (int j = 0; j <= 16; ++j)
        {
            p.adm[j] = 0;
            for (auto &slot : e.exp["adm"][j])
                p.adm[j] |= 1u << (slot.get<int>() - 1);
            p.pick[j] = e.exp["pick"][j].get<int>();
            p.admText[j] = e.exp["adm"][j].dump();
        }
    }
}

struct Metrics
{
    long orderDrift{0}, pickDrift{0}, samples{0}, sampleSteps{0}, zeroTotalStates{0}, boundaryChoices{0};
};
static Metrics g_m;

template <class P>
struct Driver
{
    using PDF = ompl::PDF<P>;
    using Elem = typename PDF::Element;
    PDF pdf;
    std::map<int, Elem *> handle;  // uid -> handle returned by add()
    std::map<int, int> weight;     // uid -> weight given by the last add / update
    std::string err;

    Driver()
    {
        if (g_sh)
            g_sh->len = 0;  // a new scenario starts
    }

    bool fail(const std::string &w)
    {
        if (err.empty())
            err = w;
        return false;
    }

    // ---- the operations
    void add(int uid, int w)
    {
        Elem *e = pdf.add(Pay<P>::make(uid), (double)w);
        if (e == nullptr)
        {
            fail("add() returned no handle");
            return;
        }
        handle[uid] = e;
        weight[uid] = w;
    }
    bool update(int uid, int w)
    {
        auto it = handle.find(uid);
        if (it == handle.end())
            return fail("internal: no handle for element to update");
        pdf.update(it->second, (double)w);
        weight[uid] = w;
        return true;
    }
    bool remove(int uid)
    {
        auto it = handle.find(uid);
        if (it == handle.end())
            return fail("internal: no handle for element to remove");
        pdf.remove(it->second);
        handle.erase(it);
        weight.erase(uid);
        return true;
    }
    void clear()
    {
        pdf.clear();
        handle.clear();
        weight.clear();
    }

    // ---- contract observations that need no expectation from the specification
    // out: uids in getElements() order
    bool observeBasic(std::vector<int> &order)
    {
        if (pdf.size() != handle.size())
            return fail("size() = " + std::to_string(pdf.size()) + " but " + std::to_string(handle.size()) +
                        " elements survive");
        if (pdf.empty() != handle.empty())
            return fail("empty() disagrees with the number of survivors");
        for (auto &h : handle)
        {
            double w = pdf.getWeight(h.second);
            if (w != (double)weight[h.first])
                return fail("getWeight(handle of element " + std::to_string(h.first) + ") = " + std::to_string(w) +
                            ", current weight is " + std::to_string(weight[h.first]));
            if (Pay<P>::uid(h.second->data_) != h.first)
                return fail("handle of element " + std::to_string(h.first) + " no longer holds its data");
        }
        const auto &els = pdf.getElements();
        if (els.size() != handle.size())
            return fail("getElements() lists " + std::to_string(els.size()) + " elements, " +
                        std::to_string(handle.size()) + " survive");
        std::set<int> seen;
        order.clear();
        for (std::size_t i = 0; i < els.size(); ++i)
        {
            // compare pointers first: a stale pointer must not be dereferenced by the harness
            int uid = 0;
            for (auto &h : handle)
                if (h.second == els[i])
                    uid = h.first;
            if (uid == 0)
                return fail("getElements()[" + std::to_string(i) + "] is not the handle of a surviving element");
            if (!seen.insert(uid).second)
                return fail("getElements() lists element " + std::to_string(uid) + " twice");
            if (Pay<P>::uid(pdf[(unsigned int)i]) != uid)
                return fail("operator[] disagrees with getElements() at " + std::to_string(i));
            order.push_back(uid);
        }
        return true;
    }

    // ---- replay of specification steps; byPos maps model slot -> real uid
    std::vector<int> byPos;
    int nextUid{1};

    bool observeAgainst(const Pre &exp)
    {
        std::vector<int> order;
        if (!observeBasic(order))
            return false;
        const std::size_t n = (std::size_t)exp.n;
        if (pdf.size() != n || byPos.size() != n)
            return fail("size() = " + std::to_string(pdf.size()) + ", the specification expects " + std::to_string(n));
        long total = 0;
        for (std::size_t i = 0; i < n; ++i)
        {
            int w = exp.ws[i];
            total += w;
            if (pdf.getWeight(handle[byPos[i]]) != (double)w)
                return fail("weight of the element in model slot " + std::to_string(i + 1) + " is " +
                            std::to_string(pdf.getWeight(handle[byPos[i]])) + ", the specification expects " +
                            std::to_string(w));
        }
        if (n == 0)
            return true;  // sample() on an empty PDF is a precondition violation (throws)
        const bool sameOrder = order == byPos;
        if (!sameOrder)
            ++g_m.orderDrift;
        else
            ++g_m.sampleSteps;
        if (total == 0)
            ++g_m.zeroTotalStates;
        for (int j = 0; j <= 16; ++j)
        {
            const P &got = pdf.sample(j / 16.0);
            // the returned reference must be the data of a surviving element
            std::size_t at = n;
            for (std::size_t i = 0; i < n; ++i)
                if (&handle[byPos[i]]->data_ == &got)
                    at = i;
            if (at == n)
                return fail("sample(" + std::to_string(j) + "/16) returned something that is not a surviving element");
            if (!sameOrder)
                continue;
            ++g_m.samples;
            if (exp.adm[j] & (exp.adm[j] - 1))
                ++g_m.boundaryChoices;
            if (!(exp.adm[j] >> at & 1u))
                return fail("sample(" + std::to_string(j) + "/16) returned the element at position " +
                            std::to_string(at + 1) + " (weight " + std::to_string(weight[byPos[at]]) + ") of weights " +
                            json(exp.ws).dump() + "; admissible positions: " + exp.admText[j]);
            if (exp.pick[j] != (int)at + 1)
                ++g_m.pickDrift;
        }
        return true;
    }

    bool step(const vt::Edge &e, bool obs)
    {
        const std::size_t n = byPos.size();
        int fresh = 0;
        const std::size_t ei = (std::size_t)(&e - g_base);
        if (!g_base || ei >= g_pre.size())
            return fail("internal: edge outside the decoded graph");
        const Pre &p = g_pre[ei];
        if (g_sh && g_sh->len < 60)
            g_sh->edges[g_sh->len++] = (int)ei;
        const int target = p.pos >= 1 && (std::size_t)p.pos <= n ? byPos[p.pos - 1] : 0;
        if (p.act == 1)
        {
            fresh = nextUid++;
            add(fresh, p.w);
        }
        else if (p.act == 2)
            update(target, p.w);
        else if (p.act == 3)
            remove(target);
        else if (p.act == 4)
            clear();
        else
            return fail("unknown action " + e.a);
        if (!err.empty())
            return false;
        std::vector<int> np;
        np.reserve(p.perm.size());
        for (int L : p.perm)
        {
            if (L >= 1 && (std::size_t)L <= n)
                np.push_back(byPos[L - 1]);
            else if ((std::size_t)L == n + 1 && fresh)
                np.push_back(fresh);
            else
                return fail("internal: bad perm in graph");
        }
        byPos.swap(np);
        if (obs)
            return observeAgainst(p);
        return true;
    }

    // end of scenario: remove every survivor (ascending uid = arbitrary positions), watching
    // size / weights / listing shrink accordingly, then check the emptied structure is usable
    bool finish()
    {
        std::vector<int> order;
        std::vector<int> uids;
        for (auto &h : handle)
            uids.push_back(h.first);
        for (int u : uids)
        {
            if (!remove(u) || !observeBasic(order))
                return false;
            if (!pdf.empty())
            {
                const P &got = pdf.sample(0.5);
                bool live = false;
                for (auto &h : handle)
                    live = live || &h.second->data_ == &got;
                if (!live)
                    return fail("sample(0.5) during the final drain returned a non-surviving element");
            }
        }
        if (!pdf.empty() || pdf.size() != 0)
            return fail("structure not empty after removing every element");
        add(nextUid, 1);
        if (!observeBasic(order))
            return false;
        if (Pay<P>::uid(pdf.sample(0.5)) != nextUid)
            return fail("sample on a re-used structure does not return its only element");
        return true;
    }
};

// The pair walk is the expensive part; it can be split over processes: shard k of n takes the
// pairs whose second edge has index = k (mod n).  Edge walk and random walks run in one shard.
template <class P>
static void replayGraph(const vt::Graph &g, vt::Report &rep, const std::string &depthMode, long walks, bool single,
                        int shard, int nshards)
{
    auto make = []() { return Driver<P>(); };
    const vt::Edge *base = g.edges.data();
    auto second = [=](const vt::Edge &e) { return e.a != "Clear" && (int)((&e - base) % nshards) == shard; };
    if (single)
        vt::walkEveryEdge<Driver<P>>(g, rep, make);
    if (depthMode != "edges")
        vt::walkEveryPair<Driver<P>>(g, rep, make, second);
    if (single)
        vt::walkRandom<Driver<P>>(g, rep, make, walks, 40, vt::envSeed());
}

// ------------------------------------------------------------------ recording
struct RecCfg
{
    int maxLive;       // bound on live elements
    int bigWeight;     // occasional large weight (0 = never)
    int zeroPct;       // percentage of zero weights
    int smallMax;      // small weights are 1..smallMax
    int execLen;       // operations per execution (then Reset with a fresh object)
    bool useCtor;      // start executions with the vector constructor
    std::vector<int> dens;
};

template <class P>
static void record(const std::string &out, long nops, unsigned long long seed, const RecCfg &cfg)
{
    using PDF = ompl::PDF<P>;
    using Elem = typename PDF::Element;
    vt::Trace tr(out);
    vt::Rng rng(seed);
    int nextUid = 1;
    long done = 0;
    auto pickWeight = [&]() -> int {
        if (rng.below(100) < cfg.zeroPct)
            return 0;
        if (cfg.bigWeight && rng.below(12) == 0)
            return 1 + rng.below(cfg.bigWeight);
        return 1 + rng.below(cfg.smallMax);
    };
    while (done < nops)
    {
        tr.emit(json{{"e", "Reset"}});
        std::unique_ptr<PDF> pdf;
        std::map<int, Elem *> handle;
        std::map<int, int> weight;  // only used to choose interesting r values
        // what the structure reports after a mutation
        auto obs = [&](json ev) {
            const auto &els = pdf->getElements();
            json ord = json::array(), ws = json::array();
            int hbad = 0;
            for (auto *p : els)
            {
                int uid = 0;
                for (auto &h : handle)
                    if (h.second == p)
                        uid = h.first;
                if (uid == 0)
                {
                    // not an object the API handed out (or one already removed): do not touch it
                    ++hbad;
                    ord.push_back(0);
                    ws.push_back(-1);
                    continue;
                }
                if (Pay<P>::uid(p->data_) != uid)
                    ++hbad;
                ord.push_back(uid);
                double w = pdf->getWeight(handle[uid]);
                ws.push_back(w == std::floor(w) && std::fabs(w) < 2e9 ? vt::tlcInt((long long)w) : -2);
            }
            ev["n"] = vt::tlcInt((long long)pdf->size());
            ev["ord"] = ord;
            ev["ws"] = ws;
            ev["hbad"] = hbad;
            tr.emit(ev);
        };
        auto sampleOnce = [&]() {
            if (pdf->empty())
                return;
            int den = cfg.dens[rng.below((int)cfg.dens.size())];
            long long total = 0;
            std::vector<long long> pre{0};
            for (auto *p : pdf->getElements())
            {
                int uid = 0;
                for (auto &h : handle)
                    if (h.second == p)
                        uid = h.first;
                total += uid ? weight[uid] : 0;
                pre.push_back(total);
            }
            while ((long long)den * total > 1500000000LL && den > 1)
                den /= 2;  // keep the products the specification forms inside 32 bits
            long long num;
            int mode = rng.below(10);
            if (mode == 0)
                num = 0;
            else if (mode == 1)
                num = den;
            else if (mode <= 5 && total > 0)
            {
                // aim at an interval end: r * total == prefix(k) exactly, when that r is dyadic
                long long pk = pre[rng.below((int)pre.size())];
                num = (pk * den) % total == 0 ? pk * den / total : rng.below(den + 1);
            }
            else
                num = rng.below(den + 1);
            vnote("sample(%lld/%d) with %zu elements", num, den, pdf->size());
            const P &got = pdf->sample((double)num / (double)den);
            int uid = 0;
            for (auto &h : handle)
                if (&h.second->data_ == &got)
                    uid = h.first;
            tr.emit(json{{"e", "Sample"}, {"num", vt::tlcInt(num)}, {"den", den}, {"id", uid}});
        };
        auto liveUid = [&]() -> int {
            auto it = handle.begin();
            std::advance(it, rng.below((int)handle.size()));
            return it->first;
        };
        // ---- construction
        if (cfg.useCtor && rng.below(2) == 0)
        {
            int m = rng.below(cfg.maxLive / 2 + 1);
            std::vector<P> d;
            std::vector<double> w;
            std::vector<int> uids, wi;
            for (int i = 0; i < m; ++i)
            {
                uids.push_back(nextUid++);
                wi.push_back(pickWeight());
                d.push_back(Pay<P>::make(uids.back()));
                w.push_back(wi.back());
            }
            vnote("PDF(vector of %d, weights)", m);
            pdf.reset(new PDF(d, w));
            // the constructor hands out no handles: they are the listed Element objects
            const auto &els = pdf->getElements();
            if (els.size() != (std::size_t)m)
            {
                tr.emit(json{{"e", "Crash"}, {"what", "constructor built a PDF of the wrong size"}});
                break;
            }
            json ids = json::array(), wsj = json::array();
            for (int i = 0; i < m; ++i)
            {
                handle[Pay<P>::uid(els[i]->data_)] = els[i];
                weight[uids[i]] = wi[i];
                ids.push_back(uids[i]);
                wsj.push_back(wi[i]);
            }
            if (m > 0)
                obs(json{{"e", "Construct"}, {"ids", ids}, {"wts", wsj}});
        }
        else
            pdf.reset(new PDF());
        // ---- random edits
        for (int k = 0; k < cfg.execLen && done < nops; ++k, ++done)
        {
            int op = rng.below(100);
            int live = (int)pdf->size();
            // drift the population up and down so that every tree height is crossed repeatedly
            bool grow = ((done / 97) % 2) == 0;
            int addPct = live == 0 ? 100 : grow ? 40 : 18;
            int remPct = grow ? 18 : 40;
            if (op < addPct)
            {
                if (live >= cfg.maxLive)
                    continue;
                int u = nextUid++, w = pickWeight();
                vnote("add(id %d, weight %d) to %d elements", u, w, live);
                handle[u] = pdf->add(Pay<P>::make(u), (double)w);
                weight[u] = w;
                obs(json{{"e", "Add"}, {"id", u}, {"w", w}});
            }
            else if (op < addPct + remPct)
            {
                // removal position: favour the last element and its neighbour (sibling case)
                int u;
                int pos = rng.below(4);
                const auto &els = pdf->getElements();
                if (pos == 0)
                    u = Pay<P>::uid(els.back()->data_);
                else if (pos == 1 && els.size() >= 2)
                    u = Pay<P>::uid(els[els.size() - 2]->data_);
                else
                    u = liveUid();
                vnote("remove(id %d) from %d elements", u, live);
                pdf->remove(handle[u]);
                handle.erase(u);
                weight.erase(u);
                obs(json{{"e", "Remove"}, {"id", u}});
            }
            else if (op < 97)
            {
                int u = liveUid(), w = pickWeight();
                vnote("update(id %d, weight %d) among %d elements", u, w, live);
                pdf->update(handle[u], (double)w);
                weight[u] = w;
                obs(json{{"e", "Update"}, {"id", u}, {"w", w}});
            }
            else if (rng.below(4) == 0)
            {
                vnote("clear() of %d elements", live);
                pdf->clear();
                handle.clear();
                weight.clear();
                obs(json{{"e", "Clear"}});
            }
            int ns = 1 + rng.below(3);
            for (int s = 0; s < ns; ++s)
                sampleOnce();
        }
        // drain by removals, sampling in between
        while (!pdf->empty())
        {
            int u = liveUid();
            vnote("remove(id %d) from %zu elements (final drain)", u, pdf->size());
            pdf->remove(handle[u]);
            handle.erase(u);
            weight.erase(u);
            obs(json{{"e", "Remove"}, {"id", u}});
            sampleOnce();
        }
    }
    std::cout << "RECORDED " << tr.count() << std::endl;
}

// ------------------------------------------------------------------ recording, non-representable weights
// Weights such as 0.1, 1/3, 1e-9 next to 1e12: the inner sums of the tree are rounded, so exact
// agreement with the real-number contract cannot be demanded.  Everything logged is still an integer:
//   * a weight w is logged as fixed point  fw = 0 if w == 0, else max(1, round(w / q)),  q a power of two
//     chosen per execution (w / q is exact; |fw - w/q| <= 1; fw = 0 iff w is exactly 0)
//   * r is logged as the sixteenth-interval containing it, lo = floor(16 r), hi = ceil(16 r), and the
//     flag interior = (0 < r < 1)
//   * tol, the slack in units of q the specification grants on the ends of the cumulative interval:
//     2 * size + 2.  2 * size covers the fixed-point representation of the prefix sums and of the total.
//     The rest covers floating-point rounding inside the structure, which is rigorously below 1 unit:
//     every value in the tree is bounded by M = 2^26 q and each + / - / * commits at most 2^-53 M.
//     With inner nodes recomputed from their children (the present code) a node is off by at most
//     (its height) roundings; with the earlier += / -= of weight differences it was at most 2 per
//     edit, K = 512 edits per object.  The descent adds at most 8 more.  Either way the comparison
//     r > left is off by less than  8 * (2 K + 1) * 2^-53 M  <  2^-13 q.
// The zero-weight clause and "the result is a surviving element" need no tolerance at all.
struct Regime
{
    const char *name;
    std::vector<double> ws;
    double wmax;
};

template <class P>
static void recordNonrep(const std::string &out, long nops, unsigned long long seed)
{
    using PDF = ompl::PDF<P>;
    using Elem = typename PDF::Element;
    const int maxLive = 9, execLen = 300;
    const std::vector<Regime> regimes = {
        {"decimal", {0, 0, 0, 0.1, 0.1, 0.2, 0.3, 0.7, 1.0 / 3, 2.5, 1e-3}, 2.5},
        {"ratio", {0, 0, 0, 1e-9, 3e-7, 0.1, 1, 1e3, 1e12, 1e12}, 1e12},
        {"tiny", {0, 0, 1e-12, 1e-9, 1.5e-9, 1e-9}, 1.5e-9},
    };
    vt::Trace tr(out);
    vt::Rng rng(seed);
    int nextUid = 1;
    long done = 0;
    int execNo = 0;
    while (done < nops)
    {
        // the first executions are directed: short histories with equal decimal weights at every size
        const bool directed = execNo < 3;
        const Regime &rg = regimes[directed ? 0 : rng.below((int)regimes.size())];
        ++execNo;
        int k = 0;
        (void)std::frexp(2.0 * maxLive * rg.wmax, &k);  // 2 * maxLive * wmax <= 2^k
        const double q = std::ldexp(1.0, k - 26);
        auto fix = [&](double w) -> long long {
            if (w == 0)
                return 0;
            return std::max(1LL, std::llround(w / q));
        };
        tr.emit(json{{"e", "Reset"}, {"regime", rg.name}, {"qexp", k - 26}});
        PDF pdf;
        std::map<int, Elem *> handle;
        std::map<int, double> weight;
        auto obs = [&](json ev) {
            json ord = json::array(), ws = json::array();
            int hbad = 0, wbad = 0;
            for (auto *p : pdf.getElements())
            {
                int uid = 0;
                for (auto &h : handle)
                    if (h.second == p)
                        uid = h.first;
                if (uid == 0)
                {
                    ++hbad;
                    ord.push_back(0);
                    ws.push_back(-1);
                    continue;
                }
                if (Pay<P>::uid(p->data_) != uid)
                    ++hbad;
                double w = pdf.getWeight(handle[uid]);
                if (!(w == weight[uid]))
                    ++wbad;  // getWeight must return exactly the weight last given
                ord.push_back(uid);
                ws.push_back(w >= 0 && w <= 2 * rg.wmax ? vt::tlcInt(fix(w)) : -2);
            }
            ev["n"] = vt::tlcInt((long long)pdf.size());
            ev["ord"] = ord;
            ev["ws"] = ws;
            ev["hbad"] = hbad;
            ev["wbad"] = wbad;
            tr.emit(ev);
        };
        auto sampleAt = [&](double r) {
            if (pdf.empty())
                return;
            vnote("sample(%.17g) with %zu elements", r, pdf.size());
            const P &got = pdf.sample(r);
            int uid = 0;  // stays 0 when what came back is not the data of a surviving element
            for (auto &h : handle)
                if (&h.second->data_ == &got)
                    uid = h.first;
            double s16 = r * 16.0;
            tr.emit(json{{"e", "Sample"},
                         {"lo", (int)std::floor(s16)},
                         {"hi", (int)std::ceil(s16)},
                         {"den", 16},
                         {"interior", r > 0 && r < 1 ? 1 : 0},
                         {"tol", 2 * (int)pdf.size() + 2},
                         {"id", uid}});
        };
        auto sampleSome = [&]() {
            const double fixedR[] = {0.0, 1.0, std::nextafter(1.0, 0.0), std::ldexp(1.0, -40), 1.0 - std::ldexp(1.0, -30)};
            int ns = 2 + rng.below(3);
            for (int i = 0; i < ns; ++i)
            {
                int m = rng.below(10);
                sampleAt(m < 5 ? fixedR[m] : m < 8 ? rng.below(17) / 16.0 : rng.unit());
            }
        };
        auto liveUid = [&]() -> int {
            auto it = handle.begin();
            std::advance(it, rng.below((int)handle.size()));
            return it->first;
        };
        auto doAdd = [&](double w) {
            int u = nextUid++;
            vnote("add(id %d, weight %.17g) to %zu elements", u, w, pdf.size());
            handle[u] = pdf.add(Pay<P>::make(u), w);
            weight[u] = w;
            obs(json{{"e", "Add"}, {"id", u}, {"w", vt::tlcInt(fix(w))}});
        };
        if (directed)
        {
            // equal weights 0.1 / 0.3 / 0.7 at sizes 1..maxLive, every r of the fixed list at each size
            const double dw[] = {0.1, 0.3, 0.7};
            for (int i = 0; i < maxLive; ++i, ++done)
            {
                doAdd(dw[execNo - 1]);
                for (double r : {0.0, 0.5, std::nextafter(1.0, 0.0), 1.0})
                    sampleAt(r);
            }
        }
        else
            for (int step = 0; step < execLen && done < nops; ++step, ++done)
            {
                int op = rng.below(100);
                int live = (int)pdf.size();
                if (op < 30 || live == 0)
                {
                    if (live >= maxLive)
                        continue;
                    doAdd(rg.ws[rng.below((int)rg.ws.size())]);
                }
                else if (op < 52)
                {
                    int u = liveUid();
                    vnote("remove(id %d) from %d elements", u, live);
                    pdf.remove(handle[u]);
                    handle.erase(u);
                    weight.erase(u);
                    obs(json{{"e", "Remove"}, {"id", u}});
                }
                else if (op < 99)
                {
                    int u = liveUid();
                    double w = rg.ws[rng.below((int)rg.ws.size())];
                    vnote("update(id %d, weight %.17g) among %d elements", u, w, live);
                    pdf.update(handle[u], w);
                    weight[u] = w;
                    obs(json{{"e", "Update"}, {"id", u}, {"w", vt::tlcInt(fix(w))}});
                }
                else
                {
                    vnote("clear() of %d elements", live);
                    pdf.clear();
                    handle.clear();
                    weight.clear();
                    obs(json{{"e", "Clear"}});
                }
                sampleSome();
            }
    }
    std::cout << "RECORDED " << tr.count() << std::endl;
}

static int work(int argc, char **argv)
{
    vt::installCrashHandlers();
    std::string mode = argc > 1 ? argv[1] : "";
    if (mode == "replay" && argc > 2)
    {
        vt::Graph g(argv[2]);
        g_base = g.edges.data();
        decodeGraph(g);
        vt::Report rep;
        std::string depthMode = argc > 3 ? argv[3] : "pairs";
        long walks = argc > 4 ? atol(argv[4]) : 2000;
        int shard = argc > 6 ? atoi(argv[5]) : 0, nshards = argc > 6 ? std::max(1, atoi(argv[6])) : 1;
        // int payload: pairs in every shard, edge + random walks in shard 0;
        // Tagged payload: edge + random walks only, in shard 1 (or 0 when unsharded)
        replayGraph<int>(g, rep, depthMode, walks, shard == 0, shard, nshards);
        if (shard == (nshards > 1 ? 1 : 0))
            replayGraph<Tagged>(g, rep, "edges", walks / 4, true, 0, 1);
        rep.summary(json{{"edges", g.edges.size()},
                         {"states", g.nStates},
                         {"order_drift", g_m.orderDrift},
                         {"pick_drift", g_m.pickDrift},
                         {"samples", g_m.samples},
                         {"sample_steps", g_m.sampleSteps},
                         {"zero_total_observations", g_m.zeroTotalStates},
                         {"boundary_samples", g_m.boundaryChoices}});
        return rep.failures ? 1 : 0;
    }
    if (mode == "record" && argc > 4)
    {
        long nops = atol(argv[3]);
        std::string variant = argv[4];
        unsigned long long seed = vt::envSeed();
        if (variant == "small")
            record<Tagged>(argv[2], nops, seed, RecCfg{12, 0, 45, 3, 400, false, {16}});
        else if (variant == "mixed")
            record<Tagged>(argv[2], nops, seed + 1, RecCfg{40, 1000, 35, 5, 700, false, {16, 1024, 16384}});
        else if (variant == "nonrep")
        {
#if !defined(__SANITIZE_ADDRESS__)
            g_keepFreed = true;
#endif
            recordNonrep<int>(argv[2], nops, seed + 3);
        }
        else if (variant == "ctor")
            record<Tagged>(argv[2], nops, seed + 2, RecCfg{20, 64, 50, 4, 150, true, {8, 64, 4096}});
        else
        {
            fprintf(stderr, "unknown variant %s\n", variant.c_str());
            return 2;
        }
        return 0;
    }
    fprintf(stderr, "usage: pdf replay <graph> [pairs|edges] [walks] [shard nshards] | pdf record <out> <nops> <small|mixed|ctor|nonrep>\n");
    return 2;
}

// The work is done in a child process; the parent only waits and, if the child died (sanitizer
// abort, signal), prints where it was:  CRASHWHERE {"scenario": [...]}  or  {"op": "..."}.
int main(int argc, char **argv)
{
    void *m = mmap(nullptr, sizeof(Shared), PROT_READ | PROT_WRITE, MAP_SHARED | MAP_ANONYMOUS, -1, 0);
    if (m == MAP_FAILED)
        return work(argc, argv);
    g_sh = static_cast<Shared *>(m);
    memset(g_sh, 0, sizeof(Shared));
    fflush(stdout);
    fflush(stderr);
    pid_t pid = fork();
    if (pid <= 0)
        return work(argc, argv);  // the child, or no supervision when fork failed
    int st = 0;
    if (waitpid(pid, &st, 0) < 0)
        return 2;
    const int code = WIFEXITED(st) ? WEXITSTATUS(st) : 70;
    if (WIFEXITED(st) && code >= 0 && code <= 4)
        return code;  // 0 / 1 verdicts, 2-4 usage and framework errors
    std::string mode = argc > 1 ? argv[1] : "";
    json where;
    if (mode == "replay" && argc > 2)
    {
        vt::Graph g(argv[2]);
        std::vector<int> path;
        for (int i = 0; i < g_sh->len && i < 60; ++i)
            if (g_sh->edges[i] >= 0 && g_sh->edges[i] < (int)g.edges.size())
                path.push_back(g_sh->edges[i]);
        where = json{{"scenario", vt::describe(g, path)}};
    }
    else
    {
        g_sh->note[sizeof g_sh->note - 1] = 0;
        where = json{{"op", std::string(g_sh->note)}};
        if (code != 70 && argc > 2)
            if (FILE *f = fopen(argv[2], "a"))
            {
                // the vt crash handler (exit 70) has already appended its own Crash event
                fprintf(f, "%s\n", json{{"e", "Crash"}, {"what", std::string("died in ") + g_sh->note}}.dump().c_str());
                fclose(f);
            }
    }
    printf("CRASHWHERE %s\n", where.dump().c_str());
    fflush(stdout);
    return code;
}
