// C09 planner-data replay: histories of specs/base/PlannerDataGraph.tla on real base::PlannerData and
// control::PlannerData, every observer compared; then PlannerDataStorage round trip, every byte
// truncation, wrong marker and other spaces, judged by the scenario table of specs/base/Storage.tla.
#pragma once
#include "storage_layout.h"
#include <ompl/base/PlannerData.h>
#include <ompl/base/PlannerDataStorage.h>
#include <ompl/base/SpaceInformation.h>
#include <ompl/control/PlannerData.h>
#include <ompl/control/PlannerDataStorage.h>
#include <ompl/control/SpaceInformation.h>
#include <ompl/control/spaces/RealVectorControlSpace.h>
#include <boost/serialization/export.hpp>
#include <sys/wait.h>
#include <fcntl.h>

namespace oc = ompl::control;

namespace c09
{
    static const int MAX_SID = 8;

    // one state space (a shape of the layout enumeration) with one real state per model sid
    struct Env
    {
        std::shared_ptr<Shape> shape;
        ob::SpaceInformationPtr si;
        oc::SpaceInformationPtr sic;
        oc::ControlSpacePtr cs;
        std::vector<ob::State *> states;   // [0] = a state that is never a vertex
        std::vector<std::string> images;   // serialized sentinel image per sid
        Env(std::shared_ptr<Shape> s, unsigned int controlDim) : shape(std::move(s))
        {
            si = std::make_shared<ob::SpaceInformation>(shape->root);
            auto rc = std::make_shared<oc::RealVectorControlSpace>(shape->root, controlDim);
            ob::RealVectorBounds b(controlDim);
            b.setLow(-1e6);
            b.setHigh(1e6);
            rc->setBounds(b);
            cs = rc;
            sic = std::make_shared<oc::SpaceInformation>(shape->root, cs);
            for (int sid = 0; sid <= MAX_SID; ++sid)
            {
                ob::State *st = shape->root->allocState();
                fill(*shape, st, 20 + sid);
                states.push_back(st);
                images.push_back(serializeState(shape->root.get(), st));
            }
            std::set<std::string> u(images.begin(), images.end());
            if (u.size() != images.size())
                throw FrameworkFailure("planner-data shape " + shape->id + " cannot tell the model's states apart");
        }
        Env(const Env &) = delete;
        ~Env()
        {
            for (auto *s : states)
                shape->root->freeState(s);
        }
        int sidOf(const ob::State *st) const  // by value, so that decoupled clones are recognised
        {
            if (st == nullptr)
                return -1;
            const std::string img = serializeState(shape->root.get(), st);
            for (int sid = 0; sid <= MAX_SID; ++sid)
                if (images[sid] == img)
                    return sid;
            return -1;
        }
    };

    inline void controlValues(int w, double *out, unsigned int dim)
    {
        for (unsigned int i = 0; i < dim; ++i)
            out[i] = w * (i + 1) + 0.5 * i;
    }
    inline double durationOf(int w)
    {
        return 0.25 * w;
    }

    // ---------------------------------------------------------------- observer table of a real graph
    // returns "" or "observer: detail"; obs is the model's table (0-based)
    inline std::string compareObservers(const ob::PlannerData &pd, const json &obs, const Env &env, bool control,
                                        bool pointerIdentity)
    {
        const unsigned int n = obs["n"].get<unsigned int>(), ne = obs["ne"].get<unsigned int>();
        if (pd.numVertices() != n)
            return "numVertices: real " + std::to_string(pd.numVertices()) + " model " + std::to_string(n);
        if (pd.numEdges() != ne)
            return "numEdges: real " + std::to_string(pd.numEdges()) + " model " + std::to_string(ne);
        std::set<int> present;
        for (unsigned int i = 0; i < n; ++i)
        {
            const int sid = obs["verts"][i][0].get<int>(), tag = obs["verts"][i][1].get<int>();
            present.insert(sid);
            const ob::PlannerDataVertex &v = pd.getVertex(i);
            if (pointerIdentity ? v.getState() != env.states[sid] : env.sidOf(v.getState()) != sid)
                return "getVertex: vertex " + std::to_string(i) + " does not hold state " + std::to_string(sid);
            if (v.getTag() != tag)
                return "getTag: vertex " + std::to_string(i) + " has tag " + std::to_string(v.getTag()) + " model " +
                       std::to_string(tag);
            if (pointerIdentity)
            {
                if (pd.vertexIndex(ob::PlannerDataVertex(env.states[sid])) != i)
                    return "vertexIndex: state " + std::to_string(sid) + " reported at " +
                           std::to_string(pd.vertexIndex(ob::PlannerDataVertex(env.states[sid]))) + " model " +
                           std::to_string(i);
                if (!pd.vertexExists(ob::PlannerDataVertex(env.states[sid])))
                    return "vertexExists: state " + std::to_string(sid);
            }
            else if (pd.vertexIndex(v) != i)
                return "vertexIndex: vertex " + std::to_string(i) + " of the loaded graph";
        }
        if (&pd.getVertex(n) != &ob::PlannerData::NO_VERTEX)
            return "getVertex: index past the end is not NO_VERTEX";
        if (pointerIdentity)
            for (int sid = 0; sid <= MAX_SID; ++sid)
                if (!present.count(sid) &&
                    (pd.vertexIndex(ob::PlannerDataVertex(env.states[sid])) != ob::PlannerData::INVALID_INDEX ||
                     pd.vertexExists(ob::PlannerDataVertex(env.states[sid]))))
                    return "vertexIndex: absent state " + std::to_string(sid) + " reported at " +
                           std::to_string(pd.vertexIndex(ob::PlannerDataVertex(env.states[sid])));
        // start / goal marks
        std::set<unsigned int> starts, goals;
        for (auto &x : obs["starts"])
            starts.insert(x.get<unsigned int>());
        for (auto &x : obs["goals"])
            goals.insert(x.get<unsigned int>());
        std::multiset<unsigned int> sl, gl;
        for (unsigned int k = 0; k < pd.numStartVertices(); ++k)
            sl.insert(pd.getStartIndex(k));
        for (unsigned int k = 0; k < pd.numGoalVertices(); ++k)
            gl.insert(pd.getGoalIndex(k));
        if (pd.numGoalVertices() != goals.size())
            return "numGoalVertices: real " + std::to_string(pd.numGoalVertices()) + " model " +
                   std::to_string(goals.size());
        if (std::multiset<unsigned int>(goals.begin(), goals.end()) != gl)
            return "getGoalIndex: enumerates other indices than the model's goal set";
        for (unsigned int i = 0; i < n; ++i)
            if (pd.isGoalVertex(i) != (goals.count(i) > 0))
                return "isGoalVertex: vertex " + std::to_string(i) + " real " + std::to_string(pd.isGoalVertex(i)) +
                       " model " + std::to_string(goals.count(i));
        if (pd.numStartVertices() != starts.size())
            return "numStartVertices: real " + std::to_string(pd.numStartVertices()) + " model " +
                   std::to_string(starts.size());
        if (std::multiset<unsigned int>(starts.begin(), starts.end()) != sl)
            return "getStartIndex: enumerates other indices than the model's start set";
        for (unsigned int i = 0; i < n; ++i)
            if (pd.isStartVertex(i) != (starts.count(i) > 0))
                return "isStartVertex: vertex " + std::to_string(i) + " real " + std::to_string(pd.isStartVertex(i)) +
                       " model " + std::to_string(starts.count(i));
        if (pd.getStartIndex(pd.numStartVertices()) != ob::PlannerData::INVALID_INDEX ||
            pd.getGoalIndex(pd.numGoalVertices()) != ob::PlannerData::INVALID_INDEX)
            return "getStartIndex: index past the end is not INVALID_INDEX";
        for (unsigned int k = 0; k < pd.numStartVertices(); ++k)
            if (&pd.getStartVertex(k) != &pd.getVertex(pd.getStartIndex(k)))
                return "getStartVertex: not the vertex at getStartIndex";
        for (unsigned int k = 0; k < pd.numGoalVertices(); ++k)
            if (&pd.getGoalVertex(k) != &pd.getVertex(pd.getGoalIndex(k)))
                return "getGoalVertex: not the vertex at getGoalIndex";
        // edges
        std::map<std::pair<unsigned int, unsigned int>, int> edges;
        for (auto &e : obs["edges"])
            edges[{e[0].get<unsigned int>(), e[1].get<unsigned int>()}] = e[2].get<int>();
        const unsigned int cdim = control ? env.cs->as<oc::RealVectorControlSpace>()->getDimension() : 0;
        for (unsigned int i = 0; i < n; ++i)
        {
            std::set<unsigned int> out, in;
            for (unsigned int j = 0; j < n; ++j)
            {
                auto it = edges.find({i, j});
                const bool want = it != edges.end();
                if (want)
                    out.insert(j);
                if (edges.count({j, i}))
                    in.insert(j);
                if (pd.edgeExists(i, j) != want)
                    return "edgeExists: (" + std::to_string(i) + "," + std::to_string(j) + ") real " +
                           std::to_string(pd.edgeExists(i, j)) + " model " + std::to_string(want);
                ob::Cost c(-1.0);
                const bool has = pd.getEdgeWeight(i, j, &c);
                if (has != want || (want && c.value() != (double)it->second))
                    return "getEdgeWeight: (" + std::to_string(i) + "," + std::to_string(j) + ") real " +
                           std::to_string(has) + "/" + std::to_string(c.value()) + " model " + std::to_string(want) +
                           "/" + std::to_string(want ? it->second : -1);
                const ob::PlannerDataEdge &e = pd.getEdge(i, j);
                if ((&e == &ob::PlannerData::NO_EDGE) == want)
                    return "getEdge: (" + std::to_string(i) + "," + std::to_string(j) + ")";
                if (want && control)
                {
                    const auto &ec = static_cast<const oc::PlannerDataEdgeControl &>(e);
                    std::vector<double> cv(cdim);
                    controlValues(it->second, cv.data(), cdim);
                    if (ec.getDuration() != durationOf(it->second))
                        return "getEdge-duration: edge (" + std::to_string(i) + "," + std::to_string(j) + ") has " +
                               std::to_string(ec.getDuration()) + " model " + std::to_string(durationOf(it->second));
                    if (ec.getControl() == nullptr ||
                        memcmp(ec.getControl()->as<oc::RealVectorControlSpace::ControlType>()->values, cv.data(),
                               cdim * sizeof(double)) != 0)
                        return "getEdge-control: edge (" + std::to_string(i) + "," + std::to_string(j) +
                               ") carries another control";
                }
            }
            std::vector<unsigned int> lst;
            std::map<unsigned int, const ob::PlannerDataEdge *> mp;
            if (pd.getEdges(i, lst) != out.size() || std::set<unsigned int>(lst.begin(), lst.end()) != out ||
                lst.size() != out.size())
                return "getEdges: vertex " + std::to_string(i);
            if (pd.getEdges(i, mp) != out.size())
                return "getEdgesMap: vertex " + std::to_string(i);
            for (auto &kv : mp)
                if (!out.count(kv.first) || kv.second != &pd.getEdge(i, kv.first))
                    return "getEdgesMap: vertex " + std::to_string(i);
            if (pd.getIncomingEdges(i, lst) != in.size() || std::set<unsigned int>(lst.begin(), lst.end()) != in ||
                lst.size() != in.size())
                return "getIncomingEdges: vertex " + std::to_string(i);
            if (pd.getIncomingEdges(i, mp) != in.size())
                return "getIncomingEdgesMap: vertex " + std::to_string(i);
            for (auto &kv : mp)
                if (!in.count(kv.first) || kv.second != &pd.getEdge(kv.first, i))
                    return "getIncomingEdgesMap: vertex " + std::to_string(i);
        }
        return "";
    }

    // ---------------------------------------------------------------- driver for the graph walkers
    struct Driver
    {
        Env *env;
        bool control;
        int variant;  // 0: remove by index, 1: remove by vertex object
        std::unique_ptr<ob::PlannerData> pd;
        std::vector<oc::Control *> ctrls;
        json cur;  // model observer table of the current state
        std::string err;

        Driver(Env *e, bool c, int v) : env(e), control(c), variant(v)
        {
            if (control)
                pd = std::make_unique<oc::PlannerData>(env->sic);
            else
                pd = std::make_unique<ob::PlannerData>(env->si);
            cur = json{{"n", 0}, {"ne", 0}, {"verts", json::array()}, {"starts", json::array()},
                       {"goals", json::array()}, {"edges", json::array()}};
        }
        Driver(Driver &&) = default;
        ~Driver()
        {
            pd.reset();
            for (auto *c : ctrls)
                env->cs->freeControl(c);
        }
        int sidAt(int v) const
        {
            return cur["verts"][v][0].get<int>();
        }
        bool addEdge(unsigned int v1, unsigned int v2, int w, int ctrlSeed)
        {
            if (!control)
                return pd->addEdge(v1, v2, ob::PlannerDataEdge(), ob::Cost(w));
            oc::Control *c = env->cs->allocControl();
            ctrls.push_back(c);
            controlValues(ctrlSeed, c->as<oc::RealVectorControlSpace::ControlType>()->values,
                          env->cs->as<oc::RealVectorControlSpace>()->getDimension());
            return pd->addEdge(v1, v2, oc::PlannerDataEdgeControl(c, durationOf(ctrlSeed)), ob::Cost(w));
        }
        template <class F>
        static bool survivesInChild(F f)
        {
            fflush(stdout);
            fflush(stderr);
            pid_t pid = fork();
            if (pid < 0)
                throw FrameworkFailure("fork failed");
            if (pid == 0)
            {
                int devnull = open("/dev/null", O_WRONLY);
                dup2(devnull, 1);
                dup2(devnull, 2);
                f();
                _exit(0);
            }
            int status = 0;
            waitpid(pid, &status, 0);
            return WIFEXITED(status) && WEXITSTATUS(status) == 0;
        }
        bool fail(const std::string &why)
        {
            err = why;
            return false;
        }
        bool step(const vt::Edge &e, bool observe)
        {
            const std::string &a = e.a;
            const json &x = e.args;
            const long want = e.exp["ret"].get<long>();
            long ret = 0;
            if (a == "AddVertex" || a == "AddDup")
                ret = pd->addVertex(ob::PlannerDataVertex(env->states[x["sid"].get<int>()], x["tag"].get<int>()));
            else if (a == "AddStart")
                ret = pd->addStartVertex(ob::PlannerDataVertex(env->states[x["sid"].get<int>()], x["tag"].get<int>()));
            else if (a == "AddGoal")
                ret = pd->addGoalVertex(ob::PlannerDataVertex(env->states[x["sid"].get<int>()], x["tag"].get<int>()));
            else if (a == "MarkStart")
                ret = pd->markStartState(env->states[sidAt(x["v"].get<int>())]);
            else if (a == "MarkGoal")
                ret = pd->markGoalState(env->states[sidAt(x["v"].get<int>())]);
            else if (a == "Tag")
                ret = pd->tagState(env->states[sidAt(x["v"].get<int>())], x["tag"].get<int>());
            else if (a == "AddEdge")
                ret = addEdge(x["v1"].get<unsigned int>(), x["v2"].get<unsigned int>(), x["w"].get<int>(), x["w"].get<int>());
            else if (a == "AddEdgeDup")
                ret = addEdge(x["v1"].get<unsigned int>(), x["v2"].get<unsigned int>(), x["w"].get<int>(), 5);
            else if (a == "RemoveEdge")
            {
                if (variant == 0)
                    ret = pd->removeEdge(x["v1"].get<unsigned int>(), x["v2"].get<unsigned int>());
                else
                    ret = pd->removeEdge(ob::PlannerDataVertex(env->states[sidAt(x["v1"].get<int>())]),
                                         ob::PlannerDataVertex(env->states[sidAt(x["v2"].get<int>())]));
            }
            else if (a == "RemoveVertex")
            {
                // removing a vertex that carries an edge to itself is tried in a child process first:
                // a crash there must become a verdict, not the end of the replay
                bool selfLoop = false;
                for (auto &ed : cur["edges"])
                    if (ed[0] == x["v"] && ed[1] == x["v"])
                        selfLoop = true;
                static std::set<const vt::Edge *> survived;  // a model transition is tried in a child once
                if (selfLoop && !survived.count(&e) && !survivesInChild([&] {
                        if (variant == 0)
                            pd->removeVertex(x["v"].get<unsigned int>());
                        else
                            pd->removeVertex(ob::PlannerDataVertex(env->states[x["sid"].get<int>()]));
                    }))
                {
                    cur = e.exp["obs"];
                    return fail("crash:RemoveVertex-self-loop: removeVertex of a vertex with an edge to itself crashes");
                }
                if (selfLoop)
                    survived.insert(&e);
                if (variant == 0)
                    ret = pd->removeVertex(x["v"].get<unsigned int>());
                else
                    ret = pd->removeVertex(ob::PlannerDataVertex(env->states[x["sid"].get<int>()]));
            }
            else if (a == "Clear")
                pd->clear();
            else
                throw FrameworkFailure("unknown action " + a);
            cur = e.exp["obs"];
            if (ret != want)
                return fail("return:" + a + ": returned " + std::to_string(ret) + " model " + std::to_string(want));
            if (!observe)
                return true;
            // calls the interface documents as refused must change nothing
            const unsigned int n = pd->numVertices();
            if (pd->removeVertex(n) || pd->removeVertex(ob::PlannerDataVertex(env->states[0])))
                return fail("refused:removeVertex: accepted a vertex that does not exist");
            if (pd->addEdge(n, 0) || pd->addEdge(0, n))
                return fail("refused:addEdge: accepted an endpoint that does not exist");
            if (pd->tagState(env->states[0], 5) || pd->markStartState(env->states[0]) || pd->markGoalState(env->states[0]))
                return fail("refused:mark: accepted a state that is not a vertex");
            if (pd->addVertex(ob::PlannerDataVertex(nullptr)) != ob::PlannerData::INVALID_INDEX)
                return fail("refused:addVertex: accepted a null state");
            for (unsigned int i = 0; i < n; ++i)
                for (unsigned int j = 0; j < n; ++j)
                    if (!pd->edgeExists(i, j) && pd->removeEdge(i, j))
                        return fail("refused:removeEdge: removed an edge that does not exist");
            std::string why = compareObservers(*pd, cur, *env, control, true);
            if (!why.empty())
                return fail(a + ":" + why);
            return true;
        }
        bool finish()
        {
            return true;
        }
    };

    // ---------------------------------------------------------------- planner-data archives
    inline std::unique_ptr<ob::PlannerData> freshPD(const Env &env, bool control)
    {
        if (control)
            return std::make_unique<oc::PlannerData>(env.sic);
        return std::make_unique<ob::PlannerData>(env.si);
    }
    inline bool storePD(const ob::PlannerData &pd, bool control, std::string &bytes)
    {
        std::ostringstream out;
        capture().reset();
        bool ok;
        if (control)
        {
            oc::PlannerDataStorage st;
            ok = st.store(pd, out);
        }
        else
        {
            ob::PlannerDataStorage st;
            ok = st.store(pd, out);
        }
        bytes = out.str();
        return ok && !capture().reported();
    }
    inline bool loadPD(ob::PlannerData &pd, bool control, const std::string &bytes)
    {
        std::istringstream in(bytes);
        capture().reset();
        if (control)
        {
            oc::PlannerDataStorage st;
            return st.load(in, pd);
        }
        ob::PlannerDataStorage st;
        return st.load(in, pd);
    }

    // a graph built directly from a model observer table: the first nv vertices, the first nedges edges
    // of `order` (the order in which the archive lists the edges)
    struct Rebuilt
    {
        std::unique_ptr<ob::PlannerData> pd;
        std::vector<oc::Control *> ctrls;
        const Env *env;
        ~Rebuilt()
        {
            pd.reset();
            for (auto *c : ctrls)
                env->cs->freeControl(c);
        }
    };
    inline void rebuild(Rebuilt &r, const Env &env, bool control, const json &obs, unsigned int nv,
                        const std::vector<std::pair<unsigned int, unsigned int>> &order, unsigned int nedges)
    {
        r.env = &env;
        r.pd = freshPD(env, control);
        std::map<std::pair<unsigned int, unsigned int>, int> w;
        for (auto &e : obs["edges"])
            w[{e[0].get<unsigned int>(), e[1].get<unsigned int>()}] = e[2].get<int>();
        std::set<unsigned int> starts, goals;
        for (auto &x : obs["starts"])
            starts.insert(x.get<unsigned int>());
        for (auto &x : obs["goals"])
            goals.insert(x.get<unsigned int>());
        for (unsigned int i = 0; i < nv; ++i)
        {
            ob::PlannerDataVertex v(env.states[obs["verts"][i][0].get<int>()], obs["verts"][i][1].get<int>());
            r.pd->addVertex(v);
            if (starts.count(i))
                r.pd->markStartState(v.getState());
            if (goals.count(i))
                r.pd->markGoalState(v.getState());
        }
        for (unsigned int k = 0; k < nedges; ++k)
        {
            const int wt = w.at(order[k]);
            if (!control)
                r.pd->addEdge(order[k].first, order[k].second, ob::PlannerDataEdge(), ob::Cost(wt));
            else
            {
                oc::Control *c = env.cs->allocControl();
                r.ctrls.push_back(c);
                controlValues(wt, c->as<oc::RealVectorControlSpace::ControlType>()->values,
                              env.cs->as<oc::RealVectorControlSpace>()->getDimension());
                r.pd->addEdge(order[k].first, order[k].second, oc::PlannerDataEdgeControl(c, durationOf(wt)), ob::Cost(wt));
            }
        }
    }

    struct StorageFinding
    {
        std::string check, why;
    };

    // everything C09 says about the archive of the graph `pd` (which is in model state `obs`)
    inline void storageTests(const ob::PlannerData &pd, const json &obs, const Env &env, bool control,
                             const std::vector<std::unique_ptr<Env>> &others, const Env *otherControl, FaultTable &tab,
                             Counters &cnt, std::vector<StorageFinding> &out)
    {
        const std::string kind = control ? "PDC" : "PD";
        std::string bytes;
        if (!storePD(pd, control, bytes))
        {
            out.push_back({"pd-store", "store() failed or reported an error"});
            return;
        }
        // (i) round trip, judged against the model's table (vertex identity by state value)
        tab.lookup(kind, "none", "", false, true);
        {
            auto pd2 = freshPD(env, control);
            const bool ok = loadPD(*pd2, control, bytes);
            if (!ok || capture().reported())
                out.push_back({"pd-roundtrip", "load() of the intact archive returned " + std::to_string(ok) + " with " +
                                                   std::to_string(capture().reported()) + " messages"});
            else
            {
                std::string why = compareObservers(*pd2, obs, env, control, false);
                if (!why.empty())
                {
                    // is the only difference that vertices marked start AND goal came back as start only?
                    json relaxed = obs;
                    std::set<unsigned int> starts;
                    for (auto &x : obs["starts"])
                        starts.insert(x.get<unsigned int>());
                    relaxed["goals"] = json::array();
                    bool both = false;
                    for (auto &x : obs["goals"])
                        if (starts.count(x.get<unsigned int>()))
                            both = true;
                        else
                            relaxed["goals"].push_back(x);
                    if (both && compareObservers(*pd2, relaxed, env, control, false).empty())
                        out.push_back({"pd-roundtrip-start-and-goal", "a vertex marked start and goal is loaded as start only: " + why});
                    else
                        out.push_back({"pd-roundtrip", "loaded graph differs: " + why});
                }
                else
                    cnt.add("pd_roundtrips_isomorphic");
                // the loaded graph is decoupled from the caller's states
                for (unsigned int i = 0; i < pd2->numVertices(); ++i)
                    for (auto *s : env.states)
                        if (pd2->getVertex(i).getState() == s)
                            out.push_back({"pd-roundtrip", "loaded vertex refers to the caller's state"});
            }
        }
        // field boundaries, measured by storing prefixes of the same graph
        const unsigned int n = obs["n"].get<unsigned int>(), ne = obs["ne"].get<unsigned int>();
        std::vector<std::pair<unsigned int, unsigned int>> order;
        for (unsigned int i = 0; i < n; ++i)
        {
            std::vector<unsigned int> lst;
            pd.getEdges(i, lst);
            for (unsigned int j : lst)
                order.emplace_back(i, j);
        }
        Regions reg;
        {
            const std::uint32_t marker = control ? MARKER_PDC : MARKER_PD;
            const std::size_t m = findMarker(bytes, marker);
            std::vector<std::size_t> ends;
            for (unsigned int j = 0; j <= n; ++j)
            {
                Rebuilt r;
                rebuild(r, env, control, obs, j, order, 0);
                std::string b;
                if (!storePD(*r.pd, control, b))
                    throw FrameworkFailure("storing a prefix graph failed");
                ends.push_back(b.size());
            }
            for (unsigned int j = 1; j <= ne; ++j)
            {
                Rebuilt r;
                rebuild(r, env, control, obs, n, order, j);
                std::string b;
                if (!storePD(*r.pd, control, b))
                    throw FrameworkFailure("storing a prefix graph failed");
                ends.push_back(b.size());
            }
            if (ends.back() != bytes.size() || !std::is_sorted(ends.begin(), ends.end()) || ends[0] <= m + 24)
                throw FrameworkFailure("field boundaries of the archive could not be measured");
            reg.add("hdr", 0, m);
            reg.add("marker", m, m + 8);
            reg.add("counts", m + 8, m + 24);
            reg.add("sig", m + 24, ends[0]);
            for (unsigned int j = 1; j <= n; ++j)
                reg.add("item1", ends[j - 1], ends[j]);
            for (unsigned int j = 1; j <= ne; ++j)
                reg.add("item2", ends[n + j - 1], ends[n + j]);
            // wrong marker, patched in place
            std::string bad = bytes;
            bad[m] ^= 0x5A;
            tab.lookup(kind, "marker", "marker", false, true);
            auto pd2 = freshPD(env, control);
            if (loadPD(*pd2, control, bad) || !capture().reported())
                out.push_back({"pd-wrong-marker", "archive with a patched marker was not rejected and reported"});
            else
                cnt.add("pd_wrong_marker");
        }
        // (ii) every truncation
        for (std::size_t k = 0; k < bytes.size(); ++k)
        {
            auto cls = reg.classify(k);
            if (tab.lookup(kind, "truncate", cls.first, cls.second, true) != "Reject")
                throw FrameworkFailure("table expects acceptance of a truncation");
            auto pd2 = freshPD(env, control);
            const bool ok = loadPD(*pd2, control, bytes.substr(0, k));
            if (ok)
            {
                out.push_back({"pd-truncation-accepted", "load() returned true for the first " + std::to_string(k) + " of " +
                                                             std::to_string(bytes.size()) + " bytes (cut in " + cls.first + ")"});
                break;
            }
            if (!capture().reported())
            {
                out.push_back({"pd-truncation-silent", "prefix of " + std::to_string(k) + " bytes rejected without a message"});
                break;
            }
            cnt.add("pd_truncations");
            cnt.add(kind + "_trunc_" + cls.first + (cls.second ? "_mid" : "_start"));
        }
        // (iii) other spaces
        for (auto &o : others)
        {
            if (o.get() == &env)
                continue;
            const bool same = o->shape->sig == env.shape->sig;
            const std::string &exp = tab.lookup(kind, "space", "sig", false, same);
            auto pd2 = freshPD(*o, control);
            const bool ok = loadPD(*pd2, control, bytes);
            if (same)
            {
                if (exp != "Accept")
                    throw FrameworkFailure("table rejects an equal signature");
                if (!ok || pd2->numVertices() != n || pd2->numEdges() != ne)
                    out.push_back({"pd-same-signature", "archive not accepted by " + o->shape->id});
                else
                    cnt.add("pd_same_signature_accepted");
            }
            else
            {
                if (exp != "Reject")
                    throw FrameworkFailure("table accepts a different signature");
                if (ok || !capture().reported())
                    out.push_back({"pd-other-signature", "archive written over " + env.shape->id + " loaded into " + o->shape->id +
                                                             ": returned " + std::to_string(ok)});
                else
                    cnt.add("pd_other_signature_rejected");
            }
        }
        if (control && otherControl)
        {
            tab.lookup(kind, "space", "sig", false, false);
            auto pd2 = freshPD(*otherControl, true);
            if (loadPD(*pd2, true, bytes) || !capture().reported())
                out.push_back({"pd-other-signature", "archive loaded with a control space of another dimension"});
            else
                cnt.add("pd_other_control_signature_rejected");
        }
    }
}
