// Common helpers for the /verif harnesses: ndjson trace writer, crash handlers, graph loader.
#pragma once
#include <nlohmann/json.hpp>
#include <cstdio>
#include <cstdlib>
#include <csignal>
#include <cstring>
#include <exception>
#include <fstream>
#include <functional>
#include <iostream>
#include <map>
#include <queue>
#include <sstream>
#include <string>
#include <unistd.h>
#include <vector>

namespace vt
{
    using json = nlohmann::json;

    // ---------------------------------------------------------------- trace writer
    class Trace
    {
    public:
        explicit Trace(const std::string &path, bool append = false)
          : path_(path), f_(fopen(path.c_str(), append ? "a" : "w"))
        {
            if (!f_)
            {
                fprintf(stderr, "cannot open trace %s\n", path.c_str());
                exit(3);
            }
            current() = this;
        }
        ~Trace()
        {
            close();
        }
        void emit(const json &j)
        {
            std::string s = j.dump();
            fputs(s.c_str(), f_);
            fputc('\n', f_);
            ++n_;
        }
        void flush()
        {
            if (f_)
                fflush(f_);
        }
        void close()
        {
            if (f_)
            {
                fclose(f_);
                f_ = nullptr;
            }
            if (current() == this)
                current() = nullptr;
        }
        std::size_t count() const
        {
            return n_;
        }
        static Trace *&current()
        {
            static Trace *t = nullptr;
            return t;
        }

    private:
        std::string path_;
        FILE *f_;
        std::size_t n_{0};
    };

    // 32-bit range check for values handed to TLC (ndJsonDeserialize wraps silently)
    inline long long tlcInt(long long v)
    {
        if (v > 2000000000LL || v < -2000000000LL)
        {
            fprintf(stderr, "FRAMEWORK: value %lld does not fit a TLC integer\n", v);
            _exit(4);
        }
        return v;
    }

    // A crash must become an event the spec rejects, never a truncated (acceptable) file.
    inline void crashEvent(const char *what)
    {
        if (Trace::current())
        {
            Trace::current()->emit(json{{"e", "Crash"}, {"what", what}});
            Trace::current()->flush();
        }
        fprintf(stdout, "CRASH %s\n", what);
        fflush(stdout);
    }
    inline void onSignal(int sig)
    {
        crashEvent(sig == SIGSEGV ? "SIGSEGV" : sig == SIGABRT ? "SIGABRT" : sig == SIGFPE ? "SIGFPE" : "signal");
        _exit(70);
    }
    inline void onTerminate()
    {
        const char *w = "terminate";
        try
        {
            if (auto e = std::current_exception())
                std::rethrow_exception(e);
        }
        catch (const std::exception &ex)
        {
            static char buf[256];
            snprintf(buf, sizeof buf, "uncaught: %s", ex.what());
            w = buf;
        }
        catch (...)
        {
        }
        crashEvent(w);
        _exit(70);
    }
    inline void installCrashHandlers()
    {
        std::set_terminate(onTerminate);
#if !defined(__SANITIZE_ADDRESS__) && !defined(__SANITIZE_THREAD__)
        signal(SIGSEGV, onSignal);
        signal(SIGFPE, onSignal);
#endif
        signal(SIGABRT, onSignal);
    }

    // ---------------------------------------------------------------- ndjson reader
    inline std::vector<json> readNdjson(const std::string &path)
    {
        std::vector<json> out;
        std::ifstream in(path);
        if (!in)
        {
            fprintf(stderr, "cannot read %s\n", path.c_str());
            exit(3);
        }
        std::string line;
        while (std::getline(in, line))
            if (!line.empty())
                out.push_back(json::parse(line));
        return out;
    }

    // ---------------------------------------------------------------- state graph (M1 / M3')
    struct Edge
    {
        int s, d;
        std::string a;
        json args, exp, perm;
    };

    struct Graph
    {
        std::vector<Edge> edges;
        int nStates{0};
        std::vector<int> parentEdge;              // BFS tree: edge that first reaches a state (-1 root)
        std::vector<std::vector<int>> out;        // outgoing edge ids

        explicit Graph(const std::string &path)
        {
            for (auto &j : readNdjson(path))
            {
                Edge e{j["s"].get<int>(), j["d"].get<int>(), j["a"].get<std::string>(), j["args"], j["exp"],
                       j.contains("perm") ? j["perm"] : json()};
                nStates = std::max(nStates, std::max(e.s, e.d) + 1);
                edges.push_back(std::move(e));
            }
            out.assign(nStates, {});
            for (std::size_t i = 0; i < edges.size(); ++i)
                out[edges[i].s].push_back((int)i);
            // first edge (in TLC's BFS emission order) reaching each state: with a VIEW this is
            // the edge whose destination TLC kept as the representative it later expanded
            parentEdge.assign(nStates, -2);
            parentEdge[0] = -1;
            for (std::size_t i = 0; i < edges.size(); ++i)
                if (parentEdge[edges[i].d] == -2)
                    parentEdge[edges[i].d] = (int)i;
        }
        std::vector<int> pathTo(int s) const
        {
            std::vector<int> p;
            while (parentEdge[s] >= 0)
            {
                p.push_back(parentEdge[s]);
                s = edges[parentEdge[s]].s;
            }
            return {p.rbegin(), p.rend()};
        }
    };

    // Result reporting used by every replay harness: one line per failure, machine readable.
    struct Report
    {
        long steps{0}, scenarios{0}, failures{0};
        json firstFailure;
        void fail(const json &scenario, const std::string &why)
        {
            if (failures++ == 0)
                firstFailure = json{{"why", why}, {"scenario", scenario}};
            if (failures <= 5)
                std::cout << "FAIL " << json{{"why", why}, {"scenario", scenario}}.dump() << std::endl;
        }
        void summary(const json &extra = json::object())
        {
            json j{{"steps", steps}, {"scenarios", scenarios}, {"failures", failures}};
            for (auto it = extra.begin(); it != extra.end(); ++it)
                j[it.key()] = it.value();
            std::cout << "SUMMARY " << j.dump() << std::endl;
        }
    };

    // deterministic PRNG for drivers (seeded by VERIF_SEED)
    struct Rng
    {
        unsigned long long s;
        explicit Rng(unsigned long long seed) : s(seed * 0x9E3779B97F4A7C15ULL + 0x1234567ULL)
        {
        }
        unsigned long long next()
        {
            s ^= s << 13;
            s ^= s >> 7;
            s ^= s << 17;
            return s;
        }
        int below(int n)
        {
            return (int)(next() % (unsigned long long)n);
        }
        double unit()
        {
            return (next() >> 11) * (1.0 / 9007199254740992.0);
        }
    };
    inline unsigned long long envSeed()
    {
        const char *s = getenv("VERIF_SEED");
        return s ? strtoull(s, nullptr, 10) : 1ULL;
    }

    // ---------------------------------------------------------------- graph walking strategies
    // A driver D offers:  bool step(const Edge &, bool observe)  (false = failed, reason in err),
    //                     bool finish()  (end-of-scenario contract check), std::string err.
    inline json describe(const Graph &g, const std::vector<int> &path)
    {
        json sc = json::array();
        for (int ei : path)
            sc.push_back(json{{"a", g.edges[ei].a}, {"args", g.edges[ei].args}});
        return sc;
    }
    template <class D, class Make>
    bool runScenario(const Graph &g, const std::vector<int> &path, std::size_t observeFrom, Report &rep, Make make)
    {
        D d = make();
        bool ok = true;
        for (std::size_t k = 0; k < path.size() && ok; ++k)
        {
            ++rep.steps;
            ok = d.step(g.edges[path[k]], k >= observeFrom);
        }
        if (ok)
            ok = d.finish();
        ++rep.scenarios;
        if (!ok)
            rep.fail(describe(g, path), d.err);
        return ok;
    }
    // (a) every edge once, after the shortest path to its source
    template <class D, class Make>
    void walkEveryEdge(const Graph &g, Report &rep, Make make)
    {
        for (std::size_t i = 0; i < g.edges.size(); ++i)
        {
            std::vector<int> path = g.pathTo(g.edges[i].s);
            path.push_back((int)i);
            runScenario<D>(g, path, path.size() - 1, rep, make);
        }
    }
    // (b) every pair of consecutive edges (second one restricted by `second`)
    template <class D, class Make, class Pred>
    void walkEveryPair(const Graph &g, Report &rep, Make make, Pred second)
    {
        for (std::size_t i = 0; i < g.edges.size(); ++i)
        {
            std::vector<int> path = g.pathTo(g.edges[i].s);
            path.push_back((int)i);
            for (int e2 : g.out[g.edges[i].d])
            {
                if (!second(g.edges[e2]))
                    continue;
                path.push_back(e2);
                runScenario<D>(g, path, path.size() - 2, rep, make);
                path.pop_back();
            }
        }
    }
    // (c) random walks from the initial state
    template <class D, class Make>
    void walkRandom(const Graph &g, Report &rep, Make make, long walks, int length, unsigned long long seed)
    {
        Rng rng(seed);
        for (long w = 0; w < walks; ++w)
        {
            std::vector<int> path;
            int s = 0;
            for (int k = 0; k < length && !g.out[s].empty(); ++k)
            {
                int e = g.out[s][rng.below((int)g.out[s].size())];
                path.push_back(e);
                s = g.edges[e].d;
            }
            runScenario<D>(g, path, 0, rep, make);
        }
    }
    // (d) every path of length <= depth from the initial state (M3'), edges filtered by `use`
    template <class D, class Make, class Pred>
    void walkAllPaths(const Graph &g, Report &rep, Make make, int depth, Pred use)
    {
        std::vector<int> path;
        std::function<void(int)> rec = [&](int s) {
            if ((int)path.size() == depth)
                return;
            for (int e : g.out[s])
            {
                if (!use(g.edges[e]))
                    continue;
                path.push_back(e);
                runScenario<D>(g, path, path.size() - 1, rep, make);
                rec(g.edges[e].d);
                path.pop_back();
            }
        };
        rec(0);
    }
}
