// Planner laboratory shared by the planner-level harnesses (C01, C03, C04, C19, C20):
// grid worlds, state-space variants, planner registry with flags, counting termination
// condition, and the independent path oracle whose facts the TLA+ contract judges.
#pragma once
#include "vtrace.h"

#include <ompl/base/SpaceInformation.h>
#include <ompl/base/ProblemDefinition.h>
#include <ompl/base/PlannerTerminationCondition.h>
#include <ompl/base/goals/GoalState.h>
#include <ompl/base/goals/GoalRegion.h>
#include <ompl/base/goals/GoalStates.h>
#include <ompl/base/spaces/RealVectorStateSpace.h>
#include <ompl/base/spaces/SE2StateSpace.h>
#include <ompl/base/spaces/SE3StateSpace.h>
#include <ompl/base/spaces/SO2StateSpace.h>
#include <ompl/base/spaces/DubinsStateSpace.h>
#include <ompl/base/spaces/ReedsSheppStateSpace.h>
#include <ompl/base/objectives/PathLengthOptimizationObjective.h>
#include <ompl/base/objectives/StateCostIntegralObjective.h>
#include <ompl/base/objectives/MechanicalWorkOptimizationObjective.h>
#include <ompl/base/objectives/MaximizeMinClearanceObjective.h>
#include <ompl/base/objectives/MinimaxObjective.h>
#include <ompl/base/OptimizationObjective.h>
#include <ompl/geometric/PathGeometric.h>
#include <ompl/util/Console.h>
#include <ompl/util/RandomNumbers.h>

#include <ompl/geometric/planners/rrt/RRT.h>
#include <ompl/geometric/planners/rrt/RRTConnect.h>
#include <ompl/geometric/planners/rrt/RRTstar.h>
#include <ompl/geometric/planners/rrt/InformedRRTstar.h>
#include <ompl/geometric/planners/rrt/SORRTstar.h>
#include <ompl/geometric/planners/rrt/RRTsharp.h>
#include <ompl/geometric/planners/rrt/RRTXstatic.h>
#include <ompl/geometric/planners/rrt/LBTRRT.h>
#include <ompl/geometric/planners/rrt/LazyLBTRRT.h>
#include <ompl/geometric/planners/rrt/LazyRRT.h>
#include <ompl/geometric/planners/rrt/TRRT.h>
#include <ompl/geometric/planners/rrt/BiTRRT.h>
#include <ompl/geometric/planners/rrt/pRRT.h>
#include <ompl/geometric/planners/est/EST.h>
#include <ompl/geometric/planners/est/BiEST.h>
#include <ompl/geometric/planners/est/ProjEST.h>
#include <ompl/geometric/planners/kpiece/KPIECE1.h>
#include <ompl/geometric/planners/kpiece/BKPIECE1.h>
#include <ompl/geometric/planners/kpiece/LBKPIECE1.h>
#include <ompl/geometric/planners/pdst/PDST.h>
#include <ompl/geometric/planners/prm/PRM.h>
#include <ompl/geometric/planners/prm/PRMstar.h>
#include <ompl/geometric/planners/prm/LazyPRM.h>
#include <ompl/geometric/planners/prm/LazyPRMstar.h>
#include <ompl/geometric/planners/prm/SPARS.h>
#include <ompl/geometric/planners/prm/SPARStwo.h>
#include <ompl/geometric/planners/sbl/SBL.h>
#include <ompl/geometric/planners/sbl/pSBL.h>
#include <ompl/geometric/planners/sst/SST.h>
#include <ompl/geometric/planners/stride/STRIDE.h>
#include <ompl/geometric/planners/fmt/FMT.h>
#include <ompl/geometric/planners/fmt/BFMT.h>
#include <ompl/geometric/planners/informedtrees/BITstar.h>
#include <ompl/geometric/planners/informedtrees/ABITstar.h>
#include <ompl/geometric/planners/informedtrees/AITstar.h>
#include <ompl/geometric/planners/informedtrees/EITstar.h>
#include <ompl/geometric/planners/informedtrees/EIRMstar.h>
#include <ompl/geometric/planners/rlrt/RLRT.h>
#include <ompl/geometric/planners/rlrt/BiRLRT.h>
#include <ompl/geometric/planners/cforest/CForest.h>
#include <ompl/geometric/planners/AnytimePathShortening.h>
#include <ompl/multilevel/planners/qrrt/QRRT.h>
#include <ompl/multilevel/planners/qrrt/QRRTStar.h>
#include <ompl/multilevel/planners/qmp/QMP.h>
#include <ompl/multilevel/planners/qmp/QMPStar.h>
#include <ompl/base/spaces/RealVectorStateProjections.h>

#include <atomic>
#include <cmath>
#include <memory>
#include <set>

namespace lab
{
    namespace ob = ompl::base;
    namespace og = ompl::geometric;
    using vt::json;

    // ------------------------------------------------------------------ grid world
    struct World
    {
        int W{3}, H{3};
        std::vector<char> obst;  // row-major, cell (cx,cy) at cy*W+cx, 1 = obstacle
        World() = default;
        World(int w, int h, const std::vector<int> &cells) : W(w), H(h), obst(w * h, 0)
        {
            for (int c : cells)
                obst.at(c) = 1;
        }
        bool cellFree(int c) const
        {
            return !obst[c];
        }
        // the user's validity predicate (also the oracle's copy): a pure function of (x,y)
        bool pointValid(double x, double y) const
        {
            if (!(x >= 0.0 && y >= 0.0 && x <= W && y <= H))
                return false;
            int cx = std::min((int)x, W - 1), cy = std::min((int)y, H - 1);
            return !obst[cy * W + cx];
        }
        double cx(int c) const
        {
            return (c % W) + 0.5;
        }
        double cy(int c) const
        {
            return (c / W) + 0.5;
        }
        json cells() const
        {
            json a = json::array();
            for (int i = 0; i < W * H; ++i)
                if (obst[i])
                    a.push_back(i);
            return a;
        }
    };

    // ------------------------------------------------------------------ spaces
    // Every variant keeps (x,y) as the first two reals of copyToReals().
    // R^2 whose samplers only hand out points of a quarter-cell lattice: exact distance ties and repeated states
    // are the rule here (they essentially never occur with continuous sampling), so tie-breaking code is exercised
    class LatticeSampler : public ob::RealVectorStateSampler
    {
    public:
        LatticeSampler(const ob::StateSpace *sp) : ob::RealVectorStateSampler(sp)
        {
        }
        void snap(ob::State *st)
        {
            auto *rs = static_cast<const ob::RealVectorStateSpace *>(space_);
            const auto &b = rs->getBounds();
            double *v = st->as<ob::RealVectorStateSpace::StateType>()->values;
            for (unsigned i = 0; i < rs->getDimension(); ++i)
            {
                v[i] = std::round(v[i] * 4.0) / 4.0;
                if (v[i] < b.low[i])
                    v[i] = b.low[i];
                if (v[i] > b.high[i])
                    v[i] = b.high[i];
            }
        }
        void sampleUniform(ob::State *st) override
        {
            ob::RealVectorStateSampler::sampleUniform(st);
            snap(st);
        }
        void sampleUniformNear(ob::State *st, const ob::State *near, double d) override
        {
            ob::RealVectorStateSampler::sampleUniformNear(st, near, d);
            snap(st);
        }
        void sampleGaussian(ob::State *st, const ob::State *mean, double sd) override
        {
            ob::RealVectorStateSampler::sampleGaussian(st, mean, sd);
            snap(st);
        }
    };
    class LatticeR2 : public ob::RealVectorStateSpace
    {
    public:
        LatticeR2() : ob::RealVectorStateSpace(2)
        {
        }
        ob::StateSamplerPtr allocDefaultStateSampler() const override
        {
            return std::make_shared<LatticeSampler>(this);
        }
    };

    inline ob::StateSpacePtr makeSpace(const std::string &kind, const World &w)
    {
        if (kind == "LAT")
        {
            ob::RealVectorBounds bl(2);
            bl.setLow(0, 0);
            bl.setHigh(0, w.W);
            bl.setLow(1, 0);
            bl.setHigh(1, w.H);
            auto s = std::make_shared<LatticeR2>();
            s->setBounds(bl);
            return s;
        }
        ob::RealVectorBounds b2(2);
        b2.setLow(0, 0);
        b2.setHigh(0, w.W);
        b2.setLow(1, 0);
        b2.setHigh(1, w.H);
        if (kind == "R2")
        {
            auto s = std::make_shared<ob::RealVectorStateSpace>(2);
            s->setBounds(b2);
            return s;
        }
        if (kind == "R3")
        {
            auto s = std::make_shared<ob::RealVectorStateSpace>(3);
            ob::RealVectorBounds b3(3);
            b3.setLow(0, 0);
            b3.setHigh(0, w.W);
            b3.setLow(1, 0);
            b3.setHigh(1, w.H);
            b3.setLow(2, 0);
            b3.setHigh(2, 1);
            s->setBounds(b3);
            return s;
        }
        if (kind == "SE2")
        {
            auto s = std::make_shared<ob::SE2StateSpace>();
            s->setBounds(b2);
            return s;
        }
        if (kind == "SE3")
        {
            auto s = std::make_shared<ob::SE3StateSpace>();
            ob::RealVectorBounds b3(3);
            b3.setLow(0, 0);
            b3.setHigh(0, w.W);
            b3.setLow(1, 0);
            b3.setHigh(1, w.H);
            b3.setLow(2, 0);
            b3.setHigh(2, 1);
            s->setBounds(b3);
            return s;
        }
        if (kind == "DUBINS")
        {
            auto s = std::make_shared<ob::DubinsStateSpace>(0.25, false);
            s->setBounds(b2);
            return s;
        }
        if (kind == "RS")
        {
            auto s = std::make_shared<ob::ReedsSheppStateSpace>(0.25);
            s->setBounds(b2);
            return s;
        }
        if (kind == "CMP")
        {
            auto r2 = std::make_shared<ob::RealVectorStateSpace>(2);
            r2->setBounds(b2);
            auto so2 = std::make_shared<ob::SO2StateSpace>();
            auto r1 = std::make_shared<ob::RealVectorStateSpace>(1);
            r1->setBounds(0, 1);
            auto c = std::make_shared<ob::CompoundStateSpace>();
            c->addSubspace(r2, 1.0);
            c->addSubspace(so2, 0.5);
            c->addSubspace(r1, 0.25);
            c->lock();
            return c;
        }
        fprintf(stderr, "unknown space kind %s\n", kind.c_str());
        exit(3);
    }

    inline void xy(const ob::StateSpacePtr &sp, const ob::State *s, double &x, double &y)
    {
        // first two reals, without allocating for the common cases
        const double *p = sp->getValueAddressAtIndex(s, 0);
        const double *q = sp->getValueAddressAtIndex(s, 1);
        x = *p;
        y = *q;
    }

    inline void setCell(const ob::StateSpacePtr &sp, ob::State *s, const World &w, int cell, double dx = 0, double dy = 0)
    {
        std::vector<double> reals;
        sp->copyToReals(reals, s);
        for (auto &r : reals)
            r = 0.0;
        reals[0] = w.cx(cell) + dx;
        reals[1] = w.cy(cell) + dy;
        sp->copyFromReals(s, reals);
        // rotations: identity (copyFromReals with zeros leaves a zero quaternion in SE3)
        if (auto *se3 = dynamic_cast<ob::SE3StateSpace *>(sp.get()))
            s->as<ob::SE3StateSpace::StateType>()->rotation().setIdentity();
        (void)0;
    }

    // validity checker that counts queries and (optionally) hashes every queried state
    class WorldValidity : public ob::StateValidityChecker
    {
    public:
        WorldValidity(const ob::SpaceInformationPtr &si, const World &w) : ob::StateValidityChecker(si), w_(w)
        {
        }
        bool isValid(const ob::State *s) const override
        {
            double x, y;
            xy(si_->getStateSpace(), s, x, y);
            if (hashing)
            {
                unsigned long long hx, hy;
                memcpy(&hx, &x, 8);
                memcpy(&hy, &y, 8);
                unsigned long long h = hash.load(std::memory_order_relaxed);
                h = (h ^ hx) * 1099511628211ULL;
                h = (h ^ hy) * 1099511628211ULL;
                hash.store(h, std::memory_order_relaxed);
            }
            queries.fetch_add(1, std::memory_order_relaxed);
            return w_.pointValid(x, y);
        }
        double clearance(const ob::State *s) const override
        {
            // distance to the nearest obstacle cell / world border (used by clearance objectives)
            double x, y;
            xy(si_->getStateSpace(), s, x, y);
            double best = std::min(std::min(x, w_.W - x), std::min(y, w_.H - y));
            for (int c = 0; c < w_.W * w_.H; ++c)
                if (w_.obst[c])
                {
                    double lx = c % w_.W, ly = c / w_.W;
                    double dx = std::max(std::max(lx - x, 0.0), x - (lx + 1));
                    double dy = std::max(std::max(ly - y, 0.0), y - (ly + 1));
                    best = std::min(best, std::sqrt(dx * dx + dy * dy));
                }
            return best;
        }
        mutable std::atomic<unsigned long long> queries{0};
        mutable std::atomic<unsigned long long> hash{1469598103934665603ULL};
        bool hashing{false};
        const World &world() const
        {
            return w_;
        }

    private:
        World w_;
    };

    // ------------------------------------------------------------------ termination by evaluation count
    struct Budget
    {
        std::atomic<long> evals{0};
        long k{0};             // fires from the (k+1)-th evaluation on: first k evaluations are false
        bool stopOnExact{false};
        const ob::ProblemDefinition *pdef{nullptr};
        ob::PlannerTerminationCondition ptc()
        {
            return ob::PlannerTerminationCondition([this] {
                long n = ++evals;
                if (stopOnExact && pdef && pdef->hasExactSolution())
                    return true;
                return n > k;
            });
        }
    };

    // ------------------------------------------------------------------ planner registry
    enum Flags : unsigned
    {
        F_NONE = 0,
        F_MT = 1,          // uses several threads internally (result depends on the schedule)
        F_OPT = 2,         // optimizing planner (C04)
        F_PAIRS = 4,       // builds paths from individually validated state-to-state motions
        F_PROJ = 8,        // needs a projection (default projections exist for R^n, SE2, SE3 only)
        F_BIDIR = 16,      // needs a sampleable goal
        F_APPROX = 32,     // may report approximate solutions
        F_MULTILEVEL = 64,
        F_SYMM = 128,      // requires a symmetric distance / interpolation (not for Dubins)
        F_SLOWSETUP = 256,  // expensive per-solve setup (batch planners): fewer runs in quick tier
        F_DIRAWARE = 512,   // bidirectional, but validates goal-tree motions in the direction they are travelled
        F_SINGLESTART = 1024  // rejects several start states by design ("currently not supported")
    };

    struct Entry
    {
        std::string name;
        unsigned flags;
        std::function<ob::PlannerPtr(const ob::SpaceInformationPtr &)> make;
    };

    template <class P>
    Entry E(const std::string &n, unsigned f)
    {
        return Entry{n, f, [](const ob::SpaceInformationPtr &si) { return std::make_shared<P>(si); }};
    }

    // multilevel planners plan on a sequence of spaces: the problem's space on top of its R^2 base
    // (SE(2) -> R^2, R^3 -> R^2); on R^2 itself the sequence has one level
    template <class P>
    Entry EM(const std::string &n, unsigned f)
    {
        return Entry{n, f | F_MULTILEVEL, [](const ob::SpaceInformationPtr &si) -> ob::PlannerPtr {
                         std::vector<ob::SpaceInformationPtr> levels;
                         auto *wv = dynamic_cast<WorldValidity *>(si->getStateValidityChecker().get());
                         if (wv && si->getStateSpace()->getDimension() > 2)
                         {
                             auto base = std::make_shared<ob::RealVectorStateSpace>(2);
                             ob::RealVectorBounds b(2);
                             b.setLow(0, 0);
                             b.setHigh(0, wv->world().W);
                             b.setLow(1, 0);
                             b.setHigh(1, wv->world().H);
                             base->setBounds(b);
                             base->setLongestValidSegmentFraction(si->getStateSpace()->getLongestValidSegmentFraction());
                             auto bsi = std::make_shared<ob::SpaceInformation>(base);
                             bsi->setStateValidityChecker(std::make_shared<WorldValidity>(bsi, wv->world()));
                             bsi->setup();
                             levels.push_back(bsi);
                         }
                         levels.push_back(si);
                         return std::make_shared<P>(levels);
                     }};
    }

    inline std::vector<Entry> registry()
    {
        std::vector<Entry> r;
        r.push_back(E<og::RRT>("RRT", F_PAIRS | F_APPROX));
        r.push_back(E<og::RRTConnect>("RRTConnect", F_PAIRS | F_BIDIR | F_APPROX | F_DIRAWARE));
        // RRTstar::setup(): "requires a state space with symmetric distance and symmetric interpolation"
        r.push_back(E<og::RRTstar>("RRTstar", F_OPT | F_PAIRS | F_APPROX | F_SYMM));
        r.push_back(E<og::InformedRRTstar>("InformedRRTstar", F_OPT | F_PAIRS | F_APPROX | F_SYMM));
        r.push_back(E<og::SORRTstar>("SORRTstar", F_OPT | F_PAIRS | F_APPROX | F_SYMM));
        r.push_back(E<og::RRTsharp>("RRTsharp", F_OPT | F_PAIRS | F_APPROX | F_SYMM));   // "requires symmetric distance and interpolation"
        r.push_back(E<og::RRTXstatic>("RRTXstatic", F_OPT | F_PAIRS | F_APPROX | F_SYMM));
        r.push_back(E<og::LBTRRT>("LBTRRT", F_OPT | F_PAIRS | F_APPROX | F_SINGLESTART));
        r.push_back(E<og::LazyLBTRRT>("LazyLBTRRT", F_OPT | F_PAIRS | F_APPROX | F_SINGLESTART));
        r.push_back(E<og::LazyRRT>("LazyRRT", F_PAIRS));
        r.push_back(E<og::TRRT>("TRRT", F_OPT | F_PAIRS | F_APPROX));
        r.push_back(E<og::BiTRRT>("BiTRRT", F_PAIRS | F_BIDIR | F_DIRAWARE));
        r.push_back(E<og::pRRT>("pRRT", F_MT | F_PAIRS | F_APPROX));
        r.push_back(E<og::EST>("EST", F_PAIRS | F_APPROX));
        r.push_back(E<og::BiEST>("BiEST", F_PAIRS | F_BIDIR));
        r.push_back(E<og::ProjEST>("ProjEST", F_PAIRS | F_PROJ | F_APPROX));
        r.push_back(E<og::KPIECE1>("KPIECE1", F_PROJ | F_APPROX));
        r.push_back(E<og::BKPIECE1>("BKPIECE1", F_PROJ | F_BIDIR));
        r.push_back(E<og::LBKPIECE1>("LBKPIECE1", F_PROJ | F_BIDIR));
        r.push_back(E<og::PDST>("PDST", F_PROJ | F_APPROX));
        r.push_back(E<og::PRM>("PRM", F_MT | F_PAIRS | F_BIDIR | F_APPROX | F_SYMM));
        r.push_back(E<og::PRMstar>("PRMstar", F_MT | F_OPT | F_PAIRS | F_BIDIR | F_APPROX | F_SYMM));
        r.push_back(E<og::LazyPRM>("LazyPRM", F_PAIRS | F_BIDIR | F_SYMM));
        r.push_back(E<og::LazyPRMstar>("LazyPRMstar", F_OPT | F_PAIRS | F_BIDIR | F_SYMM));
        r.push_back(E<og::SPARS>("SPARS", F_MT | F_BIDIR | F_APPROX | F_SYMM));
        r.push_back(E<og::SPARStwo>("SPARStwo", F_MT | F_BIDIR | F_APPROX | F_SYMM));
        r.push_back(E<og::SBL>("SBL", F_PROJ | F_BIDIR));
        r.push_back(E<og::pSBL>("pSBL", F_MT | F_PROJ | F_BIDIR));
        r.push_back(E<og::SST>("SST", F_OPT | F_APPROX));
        r.push_back(E<og::STRIDE>("STRIDE", F_PROJ | F_APPROX));
        r.push_back(E<og::FMT>("FMT", F_OPT | F_PAIRS | F_SYMM | F_SLOWSETUP));
        r.push_back(E<og::BFMT>("BFMT", F_OPT | F_PAIRS | F_BIDIR | F_SYMM | F_SLOWSETUP));
        r.push_back(E<og::BITstar>("BITstar", F_OPT | F_PAIRS | F_BIDIR | F_SYMM));
        r.push_back(E<og::ABITstar>("ABITstar", F_OPT | F_PAIRS | F_BIDIR | F_SYMM));
        r.push_back(E<og::AITstar>("AITstar", F_OPT | F_PAIRS | F_BIDIR | F_APPROX | F_SYMM));
        r.push_back(E<og::EITstar>("EITstar", F_OPT | F_BIDIR | F_APPROX | F_SYMM));
        r.push_back(E<og::EIRMstar>("EIRMstar", F_OPT | F_BIDIR | F_APPROX | F_SYMM));
        r.push_back(E<og::RLRT>("RLRT", F_APPROX));
        r.push_back(E<og::BiRLRT>("BiRLRT", F_BIDIR));
        r.push_back(E<og::CForest>("CForest", F_MT | F_OPT | F_APPROX | F_SYMM));  // a forest of RRT* instances
        r.push_back(E<og::AnytimePathShortening>("AnytimePathShortening", F_MT | F_OPT | F_APPROX));
        r.push_back(EM<ompl::multilevel::QRRT>("QRRT", F_APPROX));
        r.push_back(EM<ompl::multilevel::QRRTStar>("QRRTStar", F_APPROX));
        r.push_back(EM<ompl::multilevel::QMP>("QMP", F_APPROX));
        r.push_back(EM<ompl::multilevel::QMPStar>("QMPStar", F_APPROX));
        return r;
    }

    inline const Entry *findPlanner(const std::vector<Entry> &r, const std::string &n)
    {
        for (auto &e : r)
            if (e.name == n)
                return &e;
        return nullptr;
    }

    // ------------------------------------------------------------------ problem instance
    struct Problem
    {
        World world;
        std::string kind;
        ob::StateSpacePtr space;
        ob::SpaceInformationPtr si;
        std::shared_ptr<WorldValidity> validity;
        ob::ProblemDefinitionPtr pdef;
        std::shared_ptr<ob::GoalState> goal;
        double threshold{0};
        double resolutionLength{0};

        Problem(const World &w, const std::string &k, double resFraction = 0.01) : world(w), kind(k)
        {
            space = makeSpace(k, w);
            space->setLongestValidSegmentFraction(resFraction);
            si = std::make_shared<ob::SpaceInformation>(space);
            validity = std::make_shared<WorldValidity>(si, w);
            si->setStateValidityChecker(validity);
            si->setup();
            resolutionLength = space->getLongestValidSegmentLength();
        }
        // (re)define the query: start cell, goal cell, goal threshold
        ob::ProblemDefinitionPtr makeQuery(int startCell, int goalCell, double thr, double sdx = 0, double sdy = 0,
                                           double gdx = 0, double gdy = 0)
        {
            auto pd = std::make_shared<ob::ProblemDefinition>(si);
            ob::ScopedState<> s(space), g(space);
            setCell(space, s.get(), world, startCell, sdx, sdy);
            setCell(space, g.get(), world, goalCell, gdx, gdy);
            pd->addStartState(s);
            auto gs = std::make_shared<ob::GoalState>(si);
            gs->setState(g);
            if (thr > 0)
                gs->setThreshold(thr);
            pd->setGoal(gs);
            threshold = gs->getThreshold();
            goal = gs;
            pdef = pd;
            return pd;
        }
    };

    // a goal region that cannot be sampled (only planners growing a single tree from the start accept it)
    class DiskGoal : public ob::GoalRegion
    {
    public:
        DiskGoal(const ob::SpaceInformationPtr &si, const ob::State *centre, double thr) : ob::GoalRegion(si), centre_(si)
        {
            centre_ = centre;
            setThreshold(thr);
        }
        double distanceGoal(const ob::State *st) const override
        {
            return si_->distance(st, centre_.get());
        }
        const ob::State *centre() const
        {
            return centre_.get();
        }

    private:
        ob::ScopedState<> centre_;
    };

    // Query variants beyond one start / one goal state.  Returns the cells of the additional in-bounds
    // start and goal states through xstarts / xgoals (for the model-side clauses).
    // cells 8-reachable from `from` through free cells (the over-approximation of GridWorld.tla)
    inline std::vector<char> reachableCells(const World &w, int from)
    {
        std::vector<char> seen(w.W * w.H, 0);
        if (!w.cellFree(from))
            return seen;
        std::vector<int> todo{from};
        seen[from] = 1;
        while (!todo.empty())
        {
            int c = todo.back();
            todo.pop_back();
            for (int dy = -1; dy <= 1; ++dy)
                for (int dx = -1; dx <= 1; ++dx)
                {
                    int x = c % w.W + dx, y = c / w.W + dy;
                    if (x < 0 || y < 0 || x >= w.W || y >= w.H)
                        continue;
                    int d = y * w.W + x;
                    if (!seen[d] && w.cellFree(d))
                    {
                        seen[d] = 1;
                        todo.push_back(d);
                    }
                }
        }
        return seen;
    }

    // `apart`: the additional start / goal states are placed so that NO pair can be joined - additional goals in free
    // cells the start cannot reach, additional starts in free cells of other components than the first start that
    // cannot reach the goal either (used on maps whose goal is unreachable: only approximate answers exist, and
    // they have to be put together from several start / goal pairs)
    inline ob::ProblemDefinitionPtr makeQueryVariant(Problem &pr, const std::string &kind, int startCell, int goalCell,
                                                     double thr, vt::Rng &rng, std::vector<int> &xstarts,
                                                     std::vector<int> &xgoals, bool apart = false)
    {
        auto off = [&]() { return (rng.unit() - 0.5) * 0.6; };
        double sdx = off(), sdy = off(), gdx = off(), gdy = off();
        auto pd = pr.makeQuery(startCell, goalCell, thr, sdx, sdy, gdx, gdy);
        const World &w = pr.world;
        std::vector<int> pool;
        if (apart)
        {
            auto fromStart = reachableCells(w, startCell), fromGoal = reachableCells(w, goalCell);
            for (int c = 0; c < w.W * w.H; ++c)
                if (w.cellFree(c) && !fromStart[c] && (kind == "goalstates" || !fromGoal[c]))
                    pool.push_back(c);
        }
        auto randomCell = [&]() { return pool.empty() ? rng.below(w.W * w.H) : pool[rng.below((int)pool.size())]; };
        if (kind == "multistart")
        {
            // replace the start list: an out-of-bounds start, a start in a random cell (maybe an obstacle), the
            // real start, another random one - in a random rotation
            ob::ScopedState<> real(pr.space);
            real = pd->getStartState(0);
            pd->clearStartStates();
            std::vector<ob::ScopedState<>> list;
            {
                ob::ScopedState<> oob(pr.space);
                setCell(pr.space, oob.get(), w, startCell, 0, 0);
                std::vector<double> reals;
                pr.space->copyToReals(reals, oob.get());
                reals[0] = -1.5;
                pr.space->copyFromReals(oob.get(), reals);
                if (dynamic_cast<ob::SE3StateSpace *>(pr.space.get()))
                    oob->as<ob::SE3StateSpace::StateType>()->rotation().setIdentity();
                list.push_back(oob);
            }
            for (int k = 0; k < 2; ++k)
            {
                int c = randomCell();
                ob::ScopedState<> x(pr.space);
                double dx = off(), dy = off();
                if (apart)
                {
                    // hug the side of the cell that faces the goal: the start is then (nearly) the point of its
                    // component closest to the goal, which no sampled vertex beats
                    int gx = goalCell % w.W - c % w.W, gy = goalCell / w.W - c / w.W;
                    if (gx != 0)
                        dx = gx > 0 ? 0.499 : -0.499;
                    if (gy != 0)
                        dy = gy > 0 ? 0.499 : -0.499;
                }
                setCell(pr.space, x.get(), w, c, dx, dy);
                list.push_back(x);
                xstarts.push_back(c);
            }
            list.insert(list.begin() + rng.below((int)list.size() + 1), real);
            for (auto &x : list)
                pd->addStartState(x);
        }
        else if (kind == "goalstates")
        {
            auto gs = std::make_shared<ob::GoalStates>(pr.si);
            std::vector<ob::ScopedState<>> list;
            for (int k = 0; k < 2; ++k)
            {
                int c = randomCell();
                ob::ScopedState<> x(pr.space);
                setCell(pr.space, x.get(), w, c, off(), off());
                list.push_back(x);
                xgoals.push_back(c);
            }
            ob::ScopedState<> real(pr.space);
            real = pr.goal->getState();
            list.insert(list.begin() + rng.below((int)list.size() + 1), real);
            for (auto &x : list)
                gs->addState(x);
            if (thr > 0)
                gs->setThreshold(thr);
            pd->setGoal(gs);
            pr.threshold = gs->getThreshold();
        }
        else if (kind == "region")
        {
            double t = thr > 0 ? thr : 0.35;
            auto g = std::make_shared<DiskGoal>(pr.si, pr.goal->getState(), t);
            pd->setGoal(g);
            pr.threshold = t;
        }
        return pd;
    }

    // ------------------------------------------------------------------ independent path oracle
    struct PathFacts
    {
        int nStates{0};
        bool startIsAStart{false}, allInBounds{true}, verticesValid{true}, endInGoal{false}, pairsRecheckOk{true};
        double endDist{0};
        double endDistMax{0};     // distance to the farthest goal state (several goal states), else = endDist
        double maxInvalidRun{0};  // longest stretch (in state-space distance) spent in invalid space
        double length{0};
    };

    inline PathFacts examine(const Problem &pr, const ob::ProblemDefinition &pd, const og::PathGeometric &path)
    {
        PathFacts f;
        const auto &sp = pr.space;
        f.nStates = (int)path.getStateCount();
        if (f.nStates == 0)
            return f;
        const ob::State *first = path.getState(0);
        for (unsigned i = 0; i < pd.getStartStateCount(); ++i)
        {
            const ob::State *st = pd.getStartState(i);
            double x, y;
            xy(sp, st, x, y);
            if (sp->equalStates(first, st) && sp->satisfiesBounds(st) && pr.world.pointValid(x, y))
                f.startIsAStart = true;
        }
        for (int i = 0; i < f.nStates; ++i)
        {
            const ob::State *s = path.getState(i);
            double x, y;
            xy(sp, s, x, y);
            if (!sp->satisfiesBounds(s))
                f.allInBounds = false;
            if (!pr.world.pointValid(x, y))
                f.verticesValid = false;
        }
        const ob::State *last = path.getState(f.nStates - 1);
        auto *gs = dynamic_cast<const ob::GoalState *>(pd.getGoal().get());
        if (gs)
        {
            f.endDist = sp->distance(last, gs->getState());
            f.endInGoal = f.endDist <= gs->getThreshold();
        }
        else if (auto *gr = dynamic_cast<const ob::GoalRegion *>(pd.getGoal().get()))
        {
            f.endDist = gr->distanceGoal(last);
            f.endInGoal = f.endDist <= gr->getThreshold();
        }
        f.endDistMax = f.endDist;
        if (auto *gss = dynamic_cast<const ob::GoalStates *>(pd.getGoal().get()))
            for (std::size_t i = 0; i < gss->getStateCount(); ++i)
                f.endDistMax = std::max(f.endDistMax, sp->distance(last, gss->getState(i)));
        // dense re-validation along StateSpace::interpolate at a tenth of the resolution
        ob::State *tmp = sp->allocState();
        const double step = pr.resolutionLength / 10.0;
        for (int i = 0; i + 1 < f.nStates; ++i)
        {
            const ob::State *a = path.getState(i), *b = path.getState(i + 1);
            double d = sp->distance(a, b);
            f.length += d;
            int n = std::max(1, (int)std::ceil(d / step));
            n = std::min(n, 200000);
            double run = 0;
            for (int j = 0; j <= n; ++j)
            {
                sp->interpolate(a, b, (double)j / n, tmp);
                double x, y;
                xy(sp, tmp, x, y);
                if (!pr.world.pointValid(x, y))
                {
                    run += d / n;
                    f.maxInvalidRun = std::max(f.maxInvalidRun, run);
                }
                else
                    run = 0;
            }
            if (!pr.si->checkMotion(a, b) && !pr.si->checkMotion(b, a))
                f.pairsRecheckOk = false;
        }
        sp->freeState(tmp);
        return f;
    }

    inline const char *statusName(ob::PlannerStatus::StatusType s)
    {
        switch (s)
        {
            case ob::PlannerStatus::UNKNOWN:
                return "UNKNOWN";
            case ob::PlannerStatus::INVALID_START:
                return "INVALID_START";
            case ob::PlannerStatus::INVALID_GOAL:
                return "INVALID_GOAL";
            case ob::PlannerStatus::UNRECOGNIZED_GOAL_TYPE:
                return "UNRECOGNIZED_GOAL_TYPE";
            case ob::PlannerStatus::TIMEOUT:
                return "TIMEOUT";
            case ob::PlannerStatus::APPROXIMATE_SOLUTION:
                return "APPROXIMATE";
            case ob::PlannerStatus::EXACT_SOLUTION:
                return "EXACT";
            case ob::PlannerStatus::CRASH:
                return "CRASH";
            case ob::PlannerStatus::ABORT:
                return "ABORT";
            case ob::PlannerStatus::INFEASIBLE:
                return "INFEASIBLE";
            default:
                return "OTHER";
        }
    }

    // fixed point (micro units), saturating into TLC's 32-bit range
    inline long long fx(double v)
    {
        if (std::isnan(v))
            return -2000000000LL;
        if (v > 2000.0)
            return 2000000000LL;
        if (v < -2000.0)
            return -2000000000LL;
        return (long long)std::llround(v * 1e6);
    }

    inline bool supports(const Entry &e, const std::string &kind)
    {
        if ((e.flags & F_PROJ) && kind == "CMP")
            return false;  // no default projection registered for arbitrary compounds
        if (kind == "DUBINS" && ((e.flags & F_SYMM) || ((e.flags & F_BIDIR) && !(e.flags & F_DIRAWARE))))
            return false;  // asymmetric motions: only direction-aware planners (forward trees, RRTConnect, BiTRRT)
        if ((e.flags & F_MULTILEVEL) && !(kind == "R2" || kind == "SE2" || kind == "R3" || kind == "LAT"))
            return false;  // projections exist for SE(2) -> R^2 and R^3 -> R^2
        return true;
    }

    inline void quietLogs()
    {
        ompl::msg::setLogLevel(ompl::msg::LOG_NONE);
    }
}
