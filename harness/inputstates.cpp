// C03 add-on harness: binds specs/base/InputStates.tla (scenario replay, spec -> impl) and
// specs/base/GoalLazyTrace.tla (recorded two-thread executions, impl -> spec) to the real
// ompl::base::PlannerInputStates / ProblemDefinition / GoalStates / GoalLazySamples.
//
//   inputstates replay <graph.ndjson> <pairs|edges> <walks> <standalone|member> <states|lazy>
//   inputstates lazy <out.ndjson> <executions>
//   inputstates probe
//
// Replay verdicts use contract observations only: which start / goal state the user is handed
// (identified by its coordinates), null or not, validity of what is returned, the two public
// counters, haveMore*, checkValidity, no leak / double free of the scratch state.  The
// validity of every state is scripted by the scenario through the StateValidityChecker and the
// bounds of the space (user code).  First token of a failure text is "<action>:<clause>".
#include "vtrace.h"
#include <ompl/base/Planner.h>
#include <ompl/base/ProblemDefinition.h>
#include <ompl/base/SpaceInformation.h>
#include <ompl/base/goals/GoalLazySamples.h>
#include <ompl/base/goals/GoalRegion.h>
#include <ompl/base/goals/GoalStates.h>
#include <ompl/base/spaces/RealVectorStateSpace.h>
#include <ompl/util/Console.h>
#include <ompl/util/Exception.h>
#include <sys/syscall.h>
#include <atomic>
#include <condition_variable>
#include <mutex>
#include <set>
#include <thread>

namespace ob = ompl::base;
using vt::json;

// ------------------------------------------------------------------ scripted world
// R^2, bounds [0,10]^2.  x[0] = identity of the state (position), x[1] = flag: 0 valid,
// 1 rejected by the validity checker, 20 outside the bounds (the checker would accept it).
static const double FLAG_OK = 0, FLAG_INV = 1, FLAG_OOB = 20;

struct CountingSpace : ob::RealVectorStateSpace
{
    mutable std::mutex m;
    mutable std::set<const ob::State *> live;
    mutable long allocs{0}, frees{0}, badFrees{0};
    mutable std::atomic<long> copies{0};
    // measured lockset (lazy mode): owner field of the goal's mutex, read at every list access
    std::mutex *watched{nullptr};
    mutable std::atomic<long> lockedAccess{0}, unlockedAccess{0};

    CountingSpace() : ob::RealVectorStateSpace(2)
    {
        setBounds(0, 10);
    }
    void noteAccess() const
    {
        if (!watched)
            return;
        // glibc: __owner is the tid of the thread holding the mutex, 0 when free
        int owner = watched->native_handle()->__data.__owner;
        if (owner == (int)syscall(SYS_gettid))
            ++lockedAccess;
        else
            ++unlockedAccess;
    }
    ob::State *allocState() const override
    {
        ob::State *s = ob::RealVectorStateSpace::allocState();
        std::lock_guard<std::mutex> g(m);
        live.insert(s);
        ++allocs;
        return s;
    }
    void freeState(ob::State *s) const override
    {
        {
            std::lock_guard<std::mutex> g(m);
            if (!live.erase(s))
            {
                ++badFrees;
                return;  // do not free twice for real
            }
            ++frees;
        }
        ob::RealVectorStateSpace::freeState(s);
    }
    void copyState(ob::State *dst, const ob::State *src) const override
    {
        ++copies;
        noteAccess();
        ob::RealVectorStateSpace::copyState(dst, src);
    }
    double distance(const ob::State *a, const ob::State *b) const override
    {
        noteAccess();
        return std::fabs(a->as<StateType>()->values[0] - b->as<StateType>()->values[0]);
    }
    long liveCount() const
    {
        std::lock_guard<std::mutex> g(m);
        return (long)live.size();
    }
    bool isLive(const ob::State *s) const
    {
        std::lock_guard<std::mutex> g(m);
        return live.count(s) > 0;
    }
};

static double X(const ob::State *s, int i)
{
    return s->as<ob::RealVectorStateSpace::StateType>()->values[i];
}
static double flagCode(const std::string &f)
{
    return f == "ok" ? FLAG_OK : f == "inv" ? FLAG_INV : FLAG_OOB;
}

struct ScriptedChecker : ob::StateValidityChecker
{
    mutable std::atomic<long> calls{0}, oobCalls{0};
    explicit ScriptedChecker(const ob::SpaceInformationPtr &si) : ob::StateValidityChecker(si)
    {
    }
    bool isValid(const ob::State *s) const override
    {
        ++calls;
        if (X(s, 1) > 10)
            ++oobCalls;  // metric only: the iterator tests the bounds first
        return X(s, 1) != FLAG_INV;
    }
};

// a goal that cannot be sampled
struct RegionGoal : ob::GoalRegion
{
    explicit RegionGoal(const ob::SpaceInformationPtr &si) : ob::GoalRegion(si)
    {
    }
    double distanceGoal(const ob::State *s) const override
    {
        return std::fabs(X(s, 0) - 9);
    }
};

struct TinyPlanner : ob::Planner
{
    explicit TinyPlanner(const ob::SpaceInformationPtr &si) : ob::Planner(si, "tiny")
    {
    }
    ob::PlannerStatus solve(const ob::PlannerTerminationCondition &) override
    {
        return ob::PlannerStatus::TIMEOUT;
    }
    ob::PlannerInputStates &pis()
    {
        return pis_;
    }
};

struct Lazy : ob::GoalLazySamples
{
    Lazy(const ob::SpaceInformationPtr &si, ob::GoalSamplingFn fn, bool autoStart, double minDist)
      : ob::GoalLazySamples(si, std::move(fn), autoStart, minDist)
    {
    }
    std::mutex &mutex()
    {
        return lock_;
    }
};

struct World
{
    std::shared_ptr<CountingSpace> space{std::make_shared<CountingSpace>()};
    ob::SpaceInformationPtr si;
    std::shared_ptr<ScriptedChecker> checker;
    World()
    {
        si = std::make_shared<ob::SpaceInformation>(space);
        checker = std::make_shared<ScriptedChecker>(si);
        si->setStateValidityChecker(checker);
        si->setup();
    }
    ob::State *make(double id, double flag)
    {
        ob::State *s = si->allocState();
        s->as<ob::RealVectorStateSpace::StateType>()->values[0] = id;
        s->as<ob::RealVectorStateSpace::StateType>()->values[1] = flag;
        return s;
    }
};

// ------------------------------------------------------------------ replay driver
static bool g_member = false, g_lazy = false;

struct Stats
{
    long nextStartRet{0}, nextStartNull{0}, startSkips{0}, lateStarts{0}, nullAgain{0};
    long nextGoalRet{0}, nextGoalNull{0}, goalSkips{0}, goalWrap{0}, rebinds{0}, useNoop{0};
    long clears{0}, restarts{0}, tempDrift{0}, oobCheckerCalls{0}, ptcGoalCalls{0}, plainGoalCalls{0};
    long tempFreedOnClear{0};
};
static Stats g_st;
// once this many scenarios have failed the verdict is clear: the remaining scenarios are skipped
// (a defective nextGoal(ptc) may poll with 10 ms sleeps in thousands of scenarios)
static long g_failed = 0;
static const long kMaxFailed = 60;

struct Driver
{
    World w;
    ob::ProblemDefinitionPtr pdefA, pdefB;
    std::shared_ptr<ob::GoalStates> goalA;  // GoalStates or GoalLazySamples (idle thread)
    std::shared_ptr<TinyPlanner> planner;
    std::unique_ptr<ob::PlannerInputStates> own;  // standalone variant
    ob::PlannerInputStates *pis{nullptr};
    std::string err;
    // harness-side record of what the user was handed since the last reset (for the clause names)
    std::set<int> seenStarts;
    int nStartsA{0}, nGoalsA{0};
    std::vector<std::string> startFlagsA, goalFlagsA;
    long expSampled{0};  // the specification's counter before the current step
    bool sawNullStart{false};
    long goalsSinceReset{0};

    Driver()
    {
        pdefA = std::make_shared<ob::ProblemDefinition>(w.si);
        pdefB = std::make_shared<ob::ProblemDefinition>(w.si);
        // definition B: starts <<inv, ok>>, one valid goal state (positions 6, 7 / 8)
        ob::State *s = w.make(6, FLAG_INV);
        pdefB->addStartState(s);
        w.si->freeState(s);
        s = w.make(7, FLAG_OK);
        pdefB->addStartState(s);
        w.si->freeState(s);
        auto gb = std::make_shared<ob::GoalStates>(w.si);
        s = w.make(8, FLAG_OK);
        gb->addState(s);
        w.si->freeState(s);
        pdefB->setGoal(gb);
        planner = std::make_shared<TinyPlanner>(w.si);
        if (g_member)
            pis = &planner->pis();
        else
        {
            own = std::make_unique<ob::PlannerInputStates>(planner.get());
            pis = own.get();
        }
    }

    bool fail(const std::string &clause, const std::string &w_)
    {
        if (err.empty())
        {
            err = clause + " " + w_;
            ++g_failed;
        }
        return false;
    }
    ob::ProblemDefinitionPtr def(const std::string &p)
    {
        return p == "A" ? pdefA : p == "B" ? pdefB : ob::ProblemDefinitionPtr();
    }
    void resetBook()
    {
        seenStarts.clear();
        sawNullStart = false;
        goalsSinceReset = 0;
    }
    const std::vector<std::string> &startFlags(const std::string &bound)
    {
        static const std::vector<std::string> B{"inv", "ok"};
        return bound == "B" ? B : startFlagsA;
    }

    bool step(const vt::Edge &e, bool obs)
    {
        if (g_failed >= kMaxFailed)
            return true;
        const json &a = e.args;
        const json &x = e.exp;
        const std::string &act = e.a;
        long boundLive = w.space->liveCount();
        (void)boundLive;
        try
        {
            if (act == "AddStart")
            {
                ++nStartsA;
                std::string f = a["flag"];
                startFlagsA.push_back(f);
                ob::State *s = w.make(nStartsA, flagCode(f));
                pdefA->addStartState(s);
                w.si->freeState(s);
            }
            else if (act == "SetGoal")
            {
                if (a["kind"] == "states")
                {
                    if (g_lazy)
                        goalA = std::make_shared<Lazy>(
                            w.si, [](const ob::GoalLazySamples *, ob::State *) { return false; }, false,
                            std::numeric_limits<double>::epsilon());
                    else
                        goalA = std::make_shared<ob::GoalStates>(w.si);
                    pdefA->setGoal(goalA);
                }
                else
                    pdefA->setGoal(std::make_shared<RegionGoal>(w.si));
            }
            else if (act == "AddGoal")
            {
                ++nGoalsA;
                std::string f = a["flag"];
                goalFlagsA.push_back(f);
                ob::State *s = w.make(nGoalsA, flagCode(f));
                goalA->addState(s);
                w.si->freeState(s);
            }
            else if (act == "SetPlannerPdef")
            {
                // the planner is handed another definition; update() is a separate step
                planner->getProblemDefinition() = def(a["p"]);
            }
            else if (act == "Use" || act == "Update")
            {
                bool r = act == "Use" ? pis->use(def(a["p"])) : pis->update();
                if (r)
                {
                    resetBook();
                    ++g_st.rebinds;
                }
                else
                    ++g_st.useNoop;
                if (obs && r != (x["ret"].get<int>() == 1))
                    return fail(act + ":return", std::string("returned ") + (r ? "true" : "false") +
                                                     " but the binding " + (r ? "should not" : "should") + " change");
            }
            else if (act == "Clear")
            {
                long before = w.space->liveCount();
                pis->clear();
                if (w.space->liveCount() < before)
                    ++g_st.tempFreedOnClear;
                resetBook();
                ++g_st.clears;
            }
            else if (act == "Restart")
            {
                pis->restart();
                resetBook();
                ++g_st.restarts;
            }
            else if (act == "NextStart")
            {
                unsigned before = pis->getSeenStartStatesCount();
                const ob::State *st = pis->nextStart();
                unsigned after = pis->getSeenStartStatesCount();
                int want = x["ret"].get<int>();
                const std::string bound = x["bound"];
                int got = 0;
                if (st)
                {
                    got = (int)std::lround(X(st, 0)) - (bound == "B" ? 5 : 0);
                    ++g_st.nextStartRet;
                    if (after - before > 1)
                        ++g_st.startSkips;
                    if (sawNullStart)
                        ++g_st.lateStarts;
                }
                else
                {
                    ++g_st.nextStartNull;
                    if (sawNullStart)
                        ++g_st.nullAgain;
                    sawNullStart = true;
                }
                if (obs)
                {
                    if (st && (X(st, 1) != FLAG_OK))
                        return fail("NextStart:valid", "returned start " + std::to_string(got) +
                                                           (X(st, 1) > 10 ? " which is out of bounds" : " which the validity checker rejects"));
                    if (st && seenStarts.count(got))
                        return fail("NextStart:once", "start " + std::to_string(got) + " returned a second time without restart()");
                    if (st && want == 0)
                        return fail("NextStart:null", "returned start " + std::to_string(got) + " after the end of the list (expected null)");
                    if (!st && want != 0)
                        return fail("NextStart:missed", "returned null although valid start " + std::to_string(want) + " was never returned");
                    if (st && got != want)
                        return fail("NextStart:order", "returned start " + std::to_string(got) + ", next valid one is " + std::to_string(want));
                }
                if (st)
                    seenStarts.insert(got);
            }
            else if (act == "NextGoal")
            {
                int m = a["m"].get<int>();
                long maxG = x["maxG"].get<long>();
                long copies0 = w.space->copies;
                long evals = 0;
                bool watchdog = false;
                const ob::State *st;
                if (m == 0)
                {
                    ++g_st.plainGoalCalls;
                    st = pis->nextGoal();
                }
                else
                {
                    ++g_st.ptcGoalCalls;
                    // scripted termination condition: true once m samples were drawn in this call
                    // (counted by the space: sampleGoal copies a state) or once the goal is
                    // exhausted by the SPECIFICATION's count - independent of the counter under test
                    ob::PlannerTerminationCondition ptc([&]() {
                        long drawn = w.space->copies - copies0;
                        if (++evals > 8)
                        {
                            watchdog = true;
                            return true;
                        }
                        return drawn >= m || expSampled + drawn >= maxG;
                    });
                    st = pis->nextGoal(ptc);
                }
                long drawn = w.space->copies - copies0;
                int want = x["ret"].get<int>();
                const std::string bound = x["bound"];
                int got = st ? (int)std::lround(X(st, 0)) - (bound == "B" ? 7 : 0) : 0;
                if (st)
                {
                    ++g_st.nextGoalRet;
                    ++goalsSinceReset;
                }
                else
                    ++g_st.nextGoalNull;
                if (drawn > 1 || (drawn == 1 && !st))
                    ++g_st.goalSkips;
                if (watchdog)
                    return fail("NextGoal:hang", "nextGoal(ptc) kept polling (8 evaluations of the termination condition) "
                                                 "although the scripted condition says the goal is exhausted");
                if (obs)
                {
                    if (st && !w.space->isLive(st))
                        return fail("NextGoal:dangling", "returned pointer is not an allocated state");
                    if (st && X(st, 1) != FLAG_OK)
                        return fail("NextGoal:valid", "returned goal " + std::to_string(got) +
                                                          (X(st, 1) > 10 ? " which is out of bounds" : " which the validity checker rejects"));
                    if (st && goalsSinceReset > maxG)
                        return fail("NextGoal:bound", std::to_string(goalsSinceReset) + " goals returned since the last restart, maxSampleCount() is " +
                                                          std::to_string(maxG));
                    if (drawn > std::max(1, m))
                        return fail("NextGoal:attempts", std::to_string(drawn) + " samples drawn with an attempt budget of " + std::to_string(std::max(1, m)));
                    if ((st == nullptr) != (want == 0))
                        return fail("NextGoal:null", st ? "returned goal " + std::to_string(got) + " where null is expected (goal exhausted / not sampleable)" :
                                                          "returned null although goal " + std::to_string(want) + " is available");
                    if (st && got != want)
                        return fail("NextGoal:sample", "returned goal " + std::to_string(got) + ", the next unseen sample is " + std::to_string(want));
                }
            }
            else
                return fail("internal", "unknown action " + act);
        }
        catch (const ompl::Exception &ex)
        {
            return fail(act + ":throws", std::string("unexpected exception: ") + ex.what());
        }
        expSampled = x["sampled"].get<long>();
        return obs ? observe(e) : true;
    }

    // observers after every step: counters, haveMore*, checkValidity, scratch-state accounting
    bool observe(const vt::Edge &e)
    {
        const json &x = e.exp;
        const std::string &act = e.a;
        if ((long)pis->getSeenStartStatesCount() != x["seen"].get<long>())
            return fail(act + ":counter", "getSeenStartStatesCount() = " + std::to_string(pis->getSeenStartStatesCount()) +
                                              ", start states consumed: " + std::to_string(x["seen"].get<long>()));
        if ((long)pis->getSampledGoalsCount() != x["sampled"].get<long>())
            return fail(act + ":counter", "getSampledGoalsCount() = " + std::to_string(pis->getSampledGoalsCount()) +
                                              ", goal samples consumed: " + std::to_string(x["sampled"].get<long>()));
        if (pis->haveMoreStartStates() != x["moreS"].get<bool>())
            return fail(act + ":havemore", std::string("haveMoreStartStates() = ") + (pis->haveMoreStartStates() ? "true" : "false"));
        if (pis->haveMoreGoalStates() != x["moreG"].get<bool>())
            return fail(act + ":havemore", std::string("haveMoreGoalStates() = ") + (pis->haveMoreGoalStates() ? "true" : "false"));
        bool threw = false;
        try
        {
            pis->checkValidity();
        }
        catch (const ompl::Exception &)
        {
            threw = true;
        }
        if (threw == x["valid"].get<bool>())
            return fail(act + ":checkvalidity", threw ? "checkValidity() throws for a definition with starts and a goal" :
                                                        "checkValidity() accepts a missing definition / no start / no goal");
        if (w.space->badFrees)
            return fail(act + ":doublefree", "a state was freed twice");
        // states owned by the definitions: 3 of B + starts and goals of A; anything above is the scratch state
        long extra = w.space->liveCount() - (3 + nStartsA + nGoalsA);
        if (extra != (x["temp"].get<bool>() ? 1 : 0))
            ++g_st.tempDrift;  // layout drift (when the scratch state exists), not a verdict
        if (extra < 0 || extra > 1)
            return fail(act + ":leak", std::to_string(extra) + " states held besides the definitions' own");
        if (x["bound"] == "none" && extra != 0)
            return fail(act + ":leak", "scratch state still allocated after clear()");
        return true;
    }

    bool finish()
    {
        if (!err.empty())
            return false;
        if (g_failed >= kMaxFailed)
            return true;
        g_st.oobCheckerCalls += w.checker->oobCalls;
        // destruction: the iterator, the planner, the definitions: nothing may stay allocated
        own.reset();
        pis = nullptr;
        planner.reset();
        goalA.reset();
        pdefA.reset();
        pdefB.reset();
        if (w.space->badFrees)
            return fail("Destroy:doublefree", "a state was freed twice");
        if (w.space->liveCount() != 0)
            return fail("Destroy:leak", std::to_string(w.space->liveCount()) + " states still allocated after destruction");
        return true;
    }
};

// ------------------------------------------------------------------ probe: fresh iterator
// A planner that was never given a problem definition: its iterator reports zero consumed states.
// poisoning must survive the optimiser: storage contents are dead to the compiler once a
// constructor starts (lifetime DSE), so memset is reached through a volatile pointer
static void *(*volatile g_poison)(void *, int, size_t) = memset;
static int probe()
{
    World w;
    int bad = 0;
    for (int round = 0; round < 8; ++round)
    {
        void *mem = operator new(sizeof(TinyPlanner));
        g_poison(mem, 0xCD - round, sizeof(TinyPlanner));
        TinyPlanner *p = new (mem) TinyPlanner(w.si);
        unsigned a = p->getPlannerInputStates().getSeenStartStatesCount();
        unsigned b = p->getPlannerInputStates().getSampledGoalsCount();
        bool ms = p->getPlannerInputStates().haveMoreStartStates(), mg = p->getPlannerInputStates().haveMoreGoalStates();
        if (a != 0 || b != 0 || ms || mg)
        {
            if (!bad)
                std::cout << "PROBE " << json{{"seen", a}, {"sampled", b}, {"moreS", ms}, {"moreG", mg}, {"round", round}}.dump()
                          << std::endl;
            ++bad;
        }
        p->~TinyPlanner();
        operator delete(mem);
        // the same for a stand-alone iterator constructed for a planner
        auto pl = std::make_shared<TinyPlanner>(w.si);
        void *m2 = operator new(sizeof(ob::PlannerInputStates));
        g_poison(m2, 0xCD - round, sizeof(ob::PlannerInputStates));
        auto *q = new (m2) ob::PlannerInputStates(pl.get());
        if (q->getSeenStartStatesCount() != 0 || q->getSampledGoalsCount() != 0)
        {
            if (!bad)
                std::cout << "PROBE " << json{{"seen", q->getSeenStartStatesCount()}, {"sampled", q->getSampledGoalsCount()}, {"standalone", true}}.dump()
                          << std::endl;
            ++bad;
        }
        q->~PlannerInputStates();
        operator delete(m2);
    }
    std::cout << "SUMMARY " << json{{"rounds", 16}, {"failures", bad}}.dump() << std::endl;
    return bad ? 1 : 0;
}

// ------------------------------------------------------------------ lazy goal sampling: recorder
// One execution = a GoalLazySamples with a scripted sample function (thread S, started by the
// class), a planner thread P calling nextGoal(ptc), optionally a user thread U calling
// stopSampling().  All ordering between the threads is logical (gates on event counts), never
// timed.  Events carry the thread and a per-thread sequence number; the file order is the order
// in which the threads took the log mutex.
struct Sample
{
    int id;
    bool valid, more;
    int gate;  // do not produce before the termination condition was evaluated this many times
};
struct Plan
{
    std::vector<Sample> script;
    int minDist;            // 0: epsilon; 1: states closer than 1.5 positions are "the same"
    int calls;              // nextGoal(ptc) calls
    std::vector<int> callGate;  // call k waits until the sampler logged that many samples (or ended)
    long fireAt;            // ptc becomes true at this evaluation (0 = never)
    int stopAfter;          // -1: nobody calls stopSampling(); else U calls it once the sampler logged that many samples
};

struct Exec
{
    Plan plan;
    std::vector<json> log;
    std::mutex logm;
    std::mutex gm;
    std::condition_variable gcv;
    long ptcEvals{0}, samplesLogged{0};
    bool samplerEnded{false}, plannerDone{false}, samplerWaiting{false};
    std::atomic<bool> ptcFlag{false};
    int seq[4] = {0, 0, 0, 0};

    void emit(int thr, json ev)
    {
        std::lock_guard<std::mutex> g(logm);
        ev["thr"] = thr;
        ev["seq"] = ++seq[thr];
        log.push_back(std::move(ev));
    }
    template <class F>
    void waitFor(F f)
    {
        std::unique_lock<std::mutex> g(gm);
        gcv.wait(g, f);
    }
    template <class F>
    void update(F f)
    {
        {
            std::lock_guard<std::mutex> g(gm);
            f();
        }
        gcv.notify_all();
    }

    static json listOf(const ob::GoalLazySamples *g)
    {
        json l = json::array();
        std::size_t n = g->getStateCount();
        for (std::size_t i = 0; i < n; ++i)
            l.push_back((int)std::lround(X(g->getState(i), 0)));
        return l;
    }

    void run(int execId)
    {
        World w;
        auto pdef = std::make_shared<ob::ProblemDefinition>(w.si);
        ob::State *s0 = w.make(0, FLAG_OK);
        pdef->addStartState(s0);
        w.si->freeState(s0);
        std::size_t k = 0;
        auto fn = [&](const ob::GoalLazySamples *g, ob::State *st) -> bool {
            if (k >= plan.script.size())
            {
                emit(1, json{{"e", "Sample"}, {"id", 0}, {"valid", false}, {"more", false}, {"list", listOf(g)}});
                update([&] { samplerEnded = true; });
                return false;
            }
            const Sample &sm = plan.script[k++];
            update([&] { samplerWaiting = true; });
            waitFor([&] { return ptcEvals >= sm.gate || plannerDone; });
            update([&] { samplerWaiting = false; });
            st->as<ob::RealVectorStateSpace::StateType>()->values[0] = sm.id;
            st->as<ob::RealVectorStateSpace::StateType>()->values[1] = sm.valid ? FLAG_OK : FLAG_INV;
            emit(1, json{{"e", "Sample"}, {"id", sm.id}, {"valid", sm.valid}, {"more", sm.more}, {"list", listOf(g)}});
            update([&] {
                ++samplesLogged;
                if (!sm.more)
                    samplerEnded = true;
            });
            return sm.more;
        };
        double md = plan.minDist == 0 ? std::numeric_limits<double>::epsilon() : 1.5;
        emit(0, json{{"e", "Reset"}, {"exec", execId}, {"minDist", plan.minDist}, {"stop", plan.stopAfter}, {"fireAt", (int)plan.fireAt},
                     {"nscript", (int)plan.script.size()}});
        auto goal = std::make_shared<Lazy>(w.si, fn, false, md);
        w.space->watched = &goal->mutex();
        pdef->setGoal(goal);
        auto planner = std::make_shared<TinyPlanner>(w.si);
        planner->setProblemDefinition(pdef);
        goal->startSampling();
        emit(0, json{{"e", "Start"}});

        std::thread user;
        if (plan.stopAfter >= 0)
            user = std::thread([&] {
                waitFor([&] { return samplesLogged >= plan.stopAfter || samplerEnded; });
                emit(3, json{{"e", "StopCall"}});
                goal->stopSampling();
                // the sample function may be blocked in a gate when the flag is set: it is released by
                // the planner's evaluations; after the join nothing runs any more
                update([&] { samplerEnded = true; });
                emit(3, json{{"e", "StopRet"}, {"sampling", goal->isSampling()}, {"list", listOf(goal.get())}});
            });

        std::thread plannerThread([&] {
            ob::PlannerInputStates &pis = planner->pis();
            for (int c = 0; c < plan.calls; ++c)
            {
                int need = plan.callGate[c];
                waitFor([&] { return samplesLogged >= need || samplerEnded || samplerWaiting; });
                long evals = 0, evalsAfterEnd = 0;
                bool wd = false;
                ob::PlannerTerminationCondition ptc([&]() {
                    ++evals;
                    bool quiescent = false;
                    update([&] {
                        ++ptcEvals;
                        quiescent = samplerEnded;
                    });
                    if (plan.fireAt > 0 && ptcEvals >= plan.fireAt)
                        ptcFlag = true;
                    if (ptcFlag)
                        return true;
                    // logical watchdog (no clock): the sample function has returned false or stopSampling()
                    // has joined the thread - the list is final - and the call still polls: a correct
                    // nextGoal() needs at most three more evaluations unless it is in the documented wait
                    if (quiescent && !goal->isSampling() && ++evalsAfterEnd > 6)
                    {
                        wd = true;
                        return true;
                    }
                    return false;
                });
                emit(2, json{{"e", "Call"}, {"k", c}});
                const ob::State *st = pis.nextGoal(ptc);
                bool fired = ptcFlag;  // monotone: read after the return
                bool sampling = goal->isSampling();
                int n = (int)goal->maxSampleCount();
                emit(2, json{{"e", "Ret"}, {"id", st ? (int)std::lround(X(st, 0)) : 0}, {"ok", st ? X(st, 1) == FLAG_OK : true},
                             {"ptc", fired}, {"wd", wd}, {"sampling", sampling}, {"n", n},
                             {"count", (int)pis.getSampledGoalsCount()}, {"evals", (int)vt::tlcInt(evals)}});
            }
            update([&] { plannerDone = true; });
        });
        plannerThread.join();
        if (user.joinable())
            user.join();
        // let the sampler run out of its script (gates are open now), then stop and join it
        waitFor([&] { return samplerEnded; });
        goal->stopSampling();
        emit(0, json{{"e", "End"}, {"list", listOf(goal.get())}, {"sampling", goal->isSampling()},
                     {"attempts", (int)goal->samplingAttemptsCount()},
                     {"locked", (int)vt::tlcInt(w.space->lockedAccess)}, {"unlocked", (int)vt::tlcInt(w.space->unlockedAccess)}});
        w.space->watched = nullptr;
    }
};

static Plan makePlan(vt::Rng &rng, int idx)
{
    Plan p;
    int n = rng.below(5);  // 0..4 scripted samples
    // the first executions are the named corner cases, the rest is random
    p.minDist = rng.below(3) == 0 ? 1 : 0;
    for (int i = 0; i < n; ++i)
    {
        Sample s;
        s.id = 1 + rng.below(p.minDist ? 5 : 3);
        s.valid = rng.below(4) != 0;
        s.more = true;
        s.gate = rng.below(3) == 0 ? 2 * (1 + rng.below(2)) : 0;
        p.script.push_back(s);
    }
    if (n > 0 && rng.below(3) == 0)
        p.script.back().more = false;  // the function says "no further calls" together with its last state
    p.calls = 1 + rng.below(4);
    for (int c = 0; c < p.calls; ++c)
        p.callGate.push_back(rng.below(2) ? 0 : rng.below(n + 1));
    int f = rng.below(4);
    p.fireAt = f == 0 ? 0 : f == 1 ? 1 : 2 + rng.below(6);
    p.stopAfter = rng.below(3) == 0 ? rng.below(n + 1) : -1;
    switch (idx)
    {
        case 0:  // the planner waits, then the sampler stops without producing; ptc never fires: null, no infinite wait
            p.script = {{1, false, false, 2}};
            p.minDist = 0;
            p.calls = 2;
            p.callGate = {0, 0};
            p.fireAt = 0;
            p.stopAfter = -1;
            break;
        case 1:  // planner waits, sample arrives late: no lost wake-up
            p.script = {{1, true, true, 2}, {2, true, true, 4}};
            p.minDist = 0;
            p.calls = 2;
            p.callGate = {0, 0};
            p.fireAt = 0;
            p.stopAfter = -1;
            break;
        case 2:  // duplicates and invalid candidates
            p.script = {{1, true, true, 0}, {1, true, true, 0}, {2, false, true, 0}, {2, true, true, 0}, {1, true, true, 0}};
            p.minDist = 0;
            p.calls = 3;
            p.callGate = {5, 5, 5};
            p.fireAt = 0;
            p.stopAfter = -1;
            break;
        case 3:  // user stops the sampler while the planner waits
            p.script = {{1, false, true, 2}, {2, true, true, 40}};
            p.minDist = 0;
            p.calls = 1;
            p.callGate = {0};
            p.fireAt = 0;
            p.stopAfter = 1;
            break;
        case 4:  // every goal consumed, sampling over: the documented wait, ended by ptc
            p.script = {{1, true, false, 0}};
            p.minDist = 0;
            p.calls = 2;
            p.callGate = {1, 1};
            p.fireAt = 4;
            p.stopAfter = -1;
            break;
        case 5:  // near duplicates under a large minimum distance
            p.script = {{1, true, true, 0}, {2, true, true, 0}, {3, true, true, 0}, {5, true, true, 0}};
            p.minDist = 1;
            p.calls = 4;
            p.callGate = {4, 4, 4, 4};
            p.fireAt = 0;
            p.stopAfter = -1;
            break;
        default:
            break;
    }
    return p;
}

static int recordLazy(const std::string &out, int nexec)
{
    vt::Rng rng(vt::envSeed() * 7919 + 17);
    std::vector<std::unique_ptr<Exec>> ex;
    for (int i = 0; i < nexec; ++i)
    {
        ex.emplace_back(new Exec);
        ex.back()->plan = makePlan(rng, i);
    }
    // lanes: several executions at a time (each has its own world; the threads mostly sleep)
    const int lanes = 6;
    std::atomic<int> next{0};
    std::vector<std::thread> pool;
    for (int l = 0; l < lanes; ++l)
        pool.emplace_back([&] {
            for (int i; (i = next++) < nexec;)
                ex[i]->run(i);
        });
    for (auto &t : pool)
        t.join();
    vt::Trace tr(out);
    long waits = 0, nulls = 0, goals = 0;
    for (auto &e : ex)
        for (auto &ev : e->log)
        {
            if (ev["e"] == "Ret")
            {
                if (ev["id"].get<int>() == 0)
                    ++nulls;
                else
                    ++goals;
                if (ev["evals"].get<int>() >= 2)
                    ++waits;
            }
            tr.emit(ev);
        }
    std::cout << "RECORDED " << json{{"events", tr.count()}, {"executions", nexec}, {"waited", waits}, {"nulls", nulls}, {"goals", goals}}.dump()
              << std::endl;
    return 0;
}

int main(int argc, char **argv)
{
    vt::installCrashHandlers();
    ompl::msg::noOutputHandler();
    std::string mode = argc > 1 ? argv[1] : "";
    if (mode == "replay" && argc > 6)
    {
        vt::Graph g(argv[2]);
        std::string depth = argv[3];
        long walks = atol(argv[4]);
        g_member = std::string(argv[5]) == "member";
        g_lazy = std::string(argv[6]) == "lazy";
        vt::Report rep;
        auto make = []() { return Driver(); };
        vt::walkEveryEdge<Driver>(g, rep, make);
        if (depth == "pairs")
            vt::walkEveryPair<Driver>(g, rep, make, [](const vt::Edge &e) {
                return e.a == "NextStart" || e.a == "NextGoal" || e.a == "Restart" || e.a == "AddStart" || e.a == "AddGoal";
            });
        vt::walkRandom<Driver>(g, rep, make, walks, 24, vt::envSeed());
        rep.summary(json{{"edges", g.edges.size()},
                         {"states", g.nStates},
                         {"nextStartRet", g_st.nextStartRet},
                         {"nextStartNull", g_st.nextStartNull},
                         {"startSkips", g_st.startSkips},
                         {"lateStarts", g_st.lateStarts},
                         {"nullAgain", g_st.nullAgain},
                         {"nextGoalRet", g_st.nextGoalRet},
                         {"nextGoalNull", g_st.nextGoalNull},
                         {"goalSkips", g_st.goalSkips},
                         {"rebinds", g_st.rebinds},
                         {"useNoop", g_st.useNoop},
                         {"clears", g_st.clears},
                         {"restarts", g_st.restarts},
                         {"tempFreedOnClear", g_st.tempFreedOnClear},
                         {"tempDrift", g_st.tempDrift},
                         {"oobCheckerCalls", g_st.oobCheckerCalls},
                         {"ptcGoalCalls", g_st.ptcGoalCalls},
                         {"plainGoalCalls", g_st.plainGoalCalls},
                         {"skippedAfterFailures", g_failed >= kMaxFailed}});
        return rep.failures ? 1 : 0;
    }
    if (mode == "lazy" && argc > 3)
        return recordLazy(argv[2], atoi(argv[3]));
    if (mode == "probe")
        return probe();
    fprintf(stderr, "usage: inputstates replay <graph> <pairs|edges> <walks> <standalone|member> <states|lazy>\n"
                    "       inputstates lazy <out.ndjson> <executions>\n       inputstates probe\n");
    return 2;
}
