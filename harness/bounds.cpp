// C08 harness: binds specs/base/BoundsAlgebra.tla and specs/base/AttemptLoops.tla (spec -> impl:
// replay of TLC-enumerated cases with spec-computed expectations) and specs/base/SamplerTrace.tla
// (impl -> spec: TLC validation of recorded observations) to the real state spaces, state
// samplers and valid-state samplers of OMPL.
//
//   bounds replay-enforce  <cases.ndjson> <trace.ndjson>
//        every lattice input emitted by BoundsAlgebra: real satisfiesBounds / enforceBounds (twice),
//        compared with the expected result; observations are logged for SamplerTrace
//   bounds replay-attempts <cases.ndjson> <trace.ndjson> <seeds>
//        every answer sequence emitted by AttemptLoops is served, query by query, by this file's
//        StateValidityChecker to the real valid-state samplers; the returned state is matched to
//        the queried states
//   bounds record <trace.ndjson> <seeds>
//        state samplers of every space x bound setting x centre class x distance class x seed,
//        valid-state samplers over grid worlds, enforceBounds on off-lattice inputs
//   bounds probe <space> <sampler> <mode> <centre> <distclass> <seed> <draw>
//        exact reproduction of one recorded sampler call
//
// Verdicts are TLC's (SamplerTrace over the logged observations); FAIL lines only describe.
#include "vtrace.h"

#include "ompl/base/SpaceInformation.h"
#include "ompl/base/StateSampler.h"
#include "ompl/base/StateSpace.h"
#include "ompl/base/StateValidityChecker.h"
#include "ompl/base/samplers/BridgeTestValidStateSampler.h"
#include "ompl/base/samplers/GaussianValidStateSampler.h"
#include "ompl/base/samplers/MaximizeClearanceValidStateSampler.h"
#include "ompl/base/samplers/MinimumClearanceValidStateSampler.h"
#include "ompl/base/samplers/ObstacleBasedValidStateSampler.h"
#include "ompl/base/samplers/UniformValidStateSampler.h"
#include "ompl/base/spaces/DiscreteStateSpace.h"
#include "ompl/base/spaces/RealVectorStateSpace.h"
#include "ompl/base/spaces/SE2StateSpace.h"
#include "ompl/base/spaces/SE3StateSpace.h"
#include "ompl/base/spaces/SO2StateSpace.h"
#include "ompl/base/spaces/SO3StateSpace.h"
#include "ompl/base/spaces/TimeStateSpace.h"
#include "ompl/base/spaces/WrapperStateSpace.h"
#include "ompl/base/spaces/special/KleinBottleStateSpace.h"
#include "ompl/base/spaces/special/MobiusStateSpace.h"
#include "ompl/base/spaces/special/SphereStateSpace.h"
#include "ompl/base/spaces/special/TorusStateSpace.h"
#include "ompl/base/spaces/EmptyStateSpace.h"
#include "ompl/base/spaces/OwenStateSpace.h"
#include "ompl/base/spaces/SpaceTimeStateSpace.h"
#include "ompl/base/spaces/VanaOwenStateSpace.h"
#include "ompl/base/spaces/VanaStateSpace.h"
#include "ompl/base/Constraint.h"
#include "ompl/base/ConstrainedSpaceInformation.h"
#include "ompl/base/spaces/constraint/AtlasStateSpace.h"
#include "ompl/base/spaces/constraint/ProjectedStateSpace.h"
#include "ompl/base/spaces/constraint/TangentBundleStateSpace.h"
#include "ompl/util/Console.h"
#include "ompl/util/Exception.h"
#include "ompl/util/RandomNumbers.h"

#include <boost/math/constants/constants.hpp>
#include <climits>
#include <cmath>
#include <limits>
#include <set>

namespace ob = ompl::base;
using vt::json;

static const double PI = boost::math::constants::pi<double>();

[[noreturn]] static void framework(const std::string &what)
{
    fprintf(stderr, "FRAMEWORK: %s\n", what.c_str());
    fflush(stderr);
    _exit(4);
}

// ============================================================== spaces from descriptors
// A descriptor is the JSON form of a BoundsAlgebra space record:
//   {"t":"RV","lo":[..],"hi":[..],"un":1,"ud":4,"upi":false}   coordinates in units un/ud (x pi)
//   {"t":"SO2","N":8}   {"t":"SO3"}   {"t":"Time","b":true,"lo":..,"hi":..,"un":..,"ud":..}
//   {"t":"Disc","lo":..,"hi":..}   {"t":"C","k":kind,"subs":[..],"w":[..]}   {"t":"W","sub":..}
// Recorded spaces only (no lattice model): "real":"Empty" on an RV of no coordinates (EmptyStateSpace);
// compound kinds Owen / Vana / VanaOwen (3-D Dubins airplane spaces: position bounds from the first three
// coordinates of subs[0], the pitch range is the class's) and SpaceTime (subs = space, time; w[1] = time weight);
// {"t":"W","con":"PJ"|"AT"|"TB","sub":R^3}: projected / atlas / tangent-bundle space with the unit sphere as constraint

static double unitOf(const json &d)
{
    double u = d.value("un", 1.0) / d.value("ud", 1.0);
    if (d.value("upi", false))
        u *= PI;
    return u;
}

static ob::RealVectorBounds rvBounds(const json &d)
{
    const std::size_t n = d["lo"].size();
    ob::RealVectorBounds b((unsigned int)n);
    const double u = unitOf(d);
    for (std::size_t i = 0; i < n; ++i)
    {
        b.low[i] = d["lo"][i].get<double>() * u;
        b.high[i] = d["hi"][i].get<double>() * u;
    }
    return b;
}

// the constraint of the constrained record spaces: the sphere |x| = 1 in R^3
class UnitSphere : public ob::Constraint
{
public:
    UnitSphere() : ob::Constraint(3, 1)
    {
    }
    void function(const Eigen::Ref<const Eigen::VectorXd> &x, Eigen::Ref<Eigen::VectorXd> out) const override
    {
        out[0] = x.norm() - 1.0;
    }
    void jacobian(const Eigen::Ref<const Eigen::VectorXd> &x, Eigen::Ref<Eigen::MatrixXd> out) const override
    {
        out = x.transpose().normalized();
    }
};
// a constrained space needs its SpaceInformation for as long as it lives
static std::vector<std::shared_ptr<void>> &keepAlive()
{
    static std::vector<std::shared_ptr<void>> k;
    return k;
}

static ob::StateSpacePtr build(const json &d)
{
    const std::string t = d["t"];
    if (t == "RV" && d.value("real", std::string()) == "Empty")
        return std::make_shared<ob::EmptyStateSpace>();
    if (t == "RV")
    {
        auto sp = std::make_shared<ob::RealVectorStateSpace>((unsigned int)d["lo"].size());
        sp->setBounds(rvBounds(d));
        return sp;
    }
    if (t == "SO2")
        return std::make_shared<ob::SO2StateSpace>();
    if (t == "SO3")
        return std::make_shared<ob::SO3StateSpace>();
    if (t == "Time")
    {
        auto sp = std::make_shared<ob::TimeStateSpace>();
        if (d["b"].get<bool>())
            sp->setBounds(d["lo"].get<double>() * unitOf(d), d["hi"].get<double>() * unitOf(d));
        return sp;
    }
    if (t == "Disc")
        return std::make_shared<ob::DiscreteStateSpace>(d["lo"].get<int>(), d["hi"].get<int>());
    if (t == "W" && d.contains("con"))
    {
        // construction order of demos/constraint/ConstrainedPlanningCommon.h; library defaults for delta etc.
        const std::string con = d["con"];
        auto amb = build(d["sub"]);
        auto c = std::make_shared<UnitSphere>();
        std::shared_ptr<ob::ConstrainedStateSpace> css;
        std::shared_ptr<ob::ConstrainedSpaceInformation> csi;
        if (con == "PJ")
        {
            css = std::make_shared<ob::ProjectedStateSpace>(amb, c);
            csi = std::make_shared<ob::ConstrainedSpaceInformation>(css);
        }
        else if (con == "AT")
        {
            css = std::make_shared<ob::AtlasStateSpace>(amb, c);
            csi = std::make_shared<ob::ConstrainedSpaceInformation>(css);
        }
        else
        {
            css = std::make_shared<ob::TangentBundleStateSpace>(amb, c);
            csi = std::make_shared<ob::TangentBundleSpaceInformation>(css);
        }
        css->setup();
        csi->setStateValidityChecker([](const ob::State *) { return true; });
        csi->setup();
        if (con != "PJ")
        {
            // "Use AtlasStateSpace::anchorChart() first": the atlas samples from its charts
            ob::State *s = css->allocState();
            double *x = s->as<ob::WrapperStateSpace::StateType>()->getState()->as<ob::RealVectorStateSpace::StateType>()->values;
            x[0] = x[1] = 0;
            x[2] = 1;
            css->as<ob::AtlasStateSpace>()->anchorChart(s);
            css->freeState(s);
        }
        keepAlive().push_back(csi);
        return css;
    }
    if (t == "W")
        return std::make_shared<ob::WrapperStateSpace>(build(d["sub"]));
    if (t == "C")
    {
        const std::string k = d["k"];
        const json &subs = d["subs"];
        if (k == "SE2")
        {
            auto sp = std::make_shared<ob::SE2StateSpace>();
            sp->setBounds(rvBounds(subs[0]));
            return sp;
        }
        if (k == "SE3")
        {
            auto sp = std::make_shared<ob::SE3StateSpace>();
            sp->setBounds(rvBounds(subs[0]));
            return sp;
        }
        if (k == "Torus")
            return std::make_shared<ob::TorusStateSpace>(2.0, 1.0);
        if (k == "Sphere")
            return std::make_shared<ob::SphereStateSpace>(1.5);
        if (k == "Mobius")
            return std::make_shared<ob::MobiusStateSpace>(subs[1]["hi"][0].get<double>() * unitOf(subs[1]), 1.0);
        if (k == "Klein")
            return std::make_shared<ob::KleinBottleStateSpace>();
        if (k == "Owen" || k == "Vana" || k == "VanaOwen")
        {
            ob::RealVectorBounds all = rvBounds(subs[0]), b(3);
            for (unsigned i = 0; i < 3; ++i)
            {
                b.low[i] = all.low[i];
                b.high[i] = all.high[i];
            }
            if (k == "Owen")
            {
                auto sp = std::make_shared<ob::OwenStateSpace>();
                sp->setBounds(b);
                return sp;
            }
            if (k == "Vana")
            {
                auto sp = std::make_shared<ob::VanaStateSpace>();
                sp->setBounds(b);
                return sp;
            }
            auto sp = std::make_shared<ob::VanaOwenStateSpace>();
            sp->setBounds(b);
            return sp;
        }
        if (k == "SpaceTime")
        {
            auto sp = std::make_shared<ob::SpaceTimeStateSpace>(build(subs[0]), 1.0, d["w"][1].get<double>());
            if (subs[1]["b"].get<bool>())
                sp->setTimeBounds(subs[1]["lo"].get<double>() * unitOf(subs[1]), subs[1]["hi"].get<double>() * unitOf(subs[1]));
            return sp;
        }
        auto sp = std::make_shared<ob::CompoundStateSpace>();
        for (std::size_t i = 0; i < subs.size(); ++i)
            sp->addSubspace(build(subs[i]), d["w"][i].get<double>());
        return sp;
    }
    framework("unknown space descriptor " + d.dump());
}

// A leaf = a non-compound component of a (nested, wrapped) state together with its descriptor.
struct Leaf
{
    const json *d;
    const ob::StateSpace *sp;
    ob::State *s;
    std::string t;
};

static void leaves(const json &d, const ob::StateSpace *sp, const ob::State *s, std::vector<Leaf> &out)
{
    const std::string t = d["t"];
    if (t == "C")
    {
        const auto *c = sp->as<ob::CompoundStateSpace>();
        if (c->getSubspaceCount() != d["subs"].size())
            framework("compound descriptor does not match the real space: " + d.dump());
        for (unsigned int i = 0; i < c->getSubspaceCount(); ++i)
            leaves(d["subs"][i], c->getSubspace(i).get(), s->as<ob::CompoundState>()->components[i], out);
    }
    else if (t == "W")
        leaves(d["sub"], sp->as<ob::WrapperStateSpace>()->getSpace().get(),
               s->as<ob::WrapperStateSpace::StateType>()->getState(), out);
    else
        out.push_back(Leaf{&d, sp, const_cast<ob::State *>(s), t});
}

// lattice value of a state, flattened in the same order as leaves()
static void flat(const json &d, const json &x, std::vector<const json *> &out)
{
    const std::string t = d["t"];
    if (t == "C")
        for (std::size_t i = 0; i < d["subs"].size(); ++i)
            flat(d["subs"][i], x[i], out);
    else if (t == "W")
        flat(d["sub"], x, out);
    else
        out.push_back(&x);
}

// the bounds the REAL space reports for a leaf (centres and perturbations are derived from these)
static void leafBounds(const Leaf &L, std::vector<double> &lo, std::vector<double> &hi)
{
    lo.clear();
    hi.clear();
    if (L.t == "RV")
    {
        const auto &b = L.sp->as<ob::RealVectorStateSpace>()->getBounds();
        lo = b.low;
        hi = b.high;
    }
    else if (L.t == "Time")
    {
        const auto *ts = L.sp->as<ob::TimeStateSpace>();
        if (ts->isBounded())
        {
            lo.push_back(ts->getMinTimeBound());
            hi.push_back(ts->getMaxTimeBound());
        }
    }
    else if (L.t == "Disc")
    {
        lo.push_back(L.sp->as<ob::DiscreteStateSpace>()->getLowerBound());
        hi.push_back(L.sp->as<ob::DiscreteStateSpace>()->getUpperBound());
    }
}

// descriptor and real space must describe the same bounds (special spaces set their own)
static void verifyBuilt(const json &d, const ob::StateSpace *sp)
{
    ob::State *s = sp->allocState();
    std::vector<Leaf> ls;
    leaves(d, sp, s, ls);
    for (auto &L : ls)
    {
        std::vector<double> lo, hi;
        leafBounds(L, lo, hi);
        if (L.t == "RV")
        {
            ob::RealVectorBounds b = rvBounds(*L.d);
            if (b.low != lo || b.high != hi)
                framework("descriptor bounds differ from the real space's: " + L.d->dump());
        }
    }
    sp->freeState(s);
}

static std::vector<double> leafValues(const Leaf &L)
{
    if (L.t == "RV")
    {
        const auto *r = L.s->as<ob::RealVectorStateSpace::StateType>();
        return std::vector<double>(r->values, r->values + L.sp->getDimension());
    }
    if (L.t == "SO2")
        return {L.s->as<ob::SO2StateSpace::StateType>()->value};
    if (L.t == "SO3")
    {
        const auto *q = L.s->as<ob::SO3StateSpace::StateType>();
        return {q->x, q->y, q->z, q->w};
    }
    if (L.t == "Time")
        return {L.s->as<ob::TimeStateSpace::StateType>()->position};
    if (L.t == "Disc")
        return {(double)L.s->as<ob::DiscreteStateSpace::StateType>()->value};
    framework("leafValues: " + L.t);
}

static void setLeafValues(const Leaf &L, const std::vector<double> &v)
{
    if (L.t == "RV")
        for (std::size_t i = 0; i < v.size(); ++i)
            L.s->as<ob::RealVectorStateSpace::StateType>()->values[i] = v[i];
    else if (L.t == "SO2")
        L.s->as<ob::SO2StateSpace::StateType>()->value = v[0];
    else if (L.t == "SO3")
    {
        auto *q = L.s->as<ob::SO3StateSpace::StateType>();
        q->x = v[0];
        q->y = v[1];
        q->z = v[2];
        q->w = v[3];
    }
    else if (L.t == "Time")
        L.s->as<ob::TimeStateSpace::StateType>()->position = v[0];
    else if (L.t == "Disc")
        L.s->as<ob::DiscreteStateSpace::StateType>()->value = (int)v[0];
}

static std::vector<double> quatOf(const json &q)
{
    std::vector<double> v(4);
    for (int i = 0; i < 4; ++i)
        v[i] = q["v"][i].get<double>();
    if (q["u"].get<bool>())
    {
        long double n = 0;
        for (double c : v)
            n += (long double)c * c;
        n = sqrtl(n);
        for (double &c : v)
            c = (double)(c / n);
    }
    else
        for (double &c : v)
            c = std::ldexp(c, q["e"].get<int>());
    return v;
}

// lattice value -> doubles of one leaf
static std::vector<double> latticeValues(const Leaf &L, const json &x)
{
    if (L.t == "RV")
    {
        std::vector<double> v;
        const double u = unitOf(*L.d);
        for (auto &c : x)
            v.push_back(c.get<double>() * u);
        return v;
    }
    if (L.t == "SO2")
        return {x.get<double>() * PI / (*L.d)["N"].get<double>()};
    if (L.t == "SO3")
        return quatOf(x);
    if (L.t == "Time")
        return {x.get<double>() * unitOf(*L.d)};
    if (L.t == "Disc")
        return {(double)x.get<int>()};
    framework("latticeValues: " + L.t);
}

struct Space
{
    std::string name;
    json d;
    ob::StateSpacePtr sp;
    bool exact{true};  // lattice values are exactly representable where the case split happens
    bool isSetUp{true};  // StateSpace::setup() refuses a space (or component) of zero extent; bounds
                         // enforcement and the samplers do not need setup(), so those are used without

    std::vector<Leaf> leavesOf(const ob::State *s) const
    {
        std::vector<Leaf> ls;
        leaves(d, sp.get(), s, ls);
        return ls;
    }
    void setLattice(ob::State *s, const json &x) const
    {
        auto ls = leavesOf(s);
        std::vector<const json *> xs;
        flat(d, x, xs);
        if (ls.size() != xs.size())
            framework("lattice state does not fit the space " + name);
        for (std::size_t i = 0; i < ls.size(); ++i)
            setLeafValues(ls[i], latticeValues(ls[i], *xs[i]));
    }
    // "unchanged": bit-identical, or within tol per value.  A quaternion is compared as the rotation it
    // represents (the library's own SO3 equalStates does the same): directions within tol, norms within
    // the resolution at which SO3 defines "in bounds" (1e-9) - enforceBounds only rescales.
    bool same(const ob::State *a, const ob::State *b, double tol) const
    {
        auto la = leavesOf(a), lb = leavesOf(b);
        for (std::size_t i = 0; i < la.size(); ++i)
        {
            auto va = leafValues(la[i]), vb = leafValues(lb[i]);
            if (va == vb)
                continue;
            if (tol == 0.0)
                return false;
            if (la[i].t == "SO3")
            {
                double na = 0, nb = 0;
                for (int k = 0; k < 4; ++k)
                {
                    na += va[k] * va[k];
                    nb += vb[k] * vb[k];
                }
                na = std::sqrt(na);
                nb = std::sqrt(nb);
                if (!(na > 0) || !(nb > 0) || !(std::fabs(na - nb) <= 2e-9))
                    return false;
                for (int k = 0; k < 4; ++k)
                    if (!(std::fabs(va[k] / na - vb[k] / nb) <= tol))
                        return false;
                continue;
            }
            for (std::size_t k = 0; k < va.size(); ++k)
                if (!(va[k] == vb[k]) && !(std::fabs(va[k] - vb[k]) <= tol))
                    return false;
        }
        return true;
    }
    json values(const ob::State *s) const
    {
        json out = json::array();
        for (auto &L : leavesOf(s))
        {
            json a = json::array();
            for (double v : leafValues(L))
            {
                char buf[40];
                snprintf(buf, sizeof buf, "%.17g", v);
                a.push_back(std::string(buf));  // strings: inf / nan survive, full precision
            }
            out.push_back(a);
        }
        return out;
    }
    ob::State *clone(const ob::State *s) const
    {
        ob::State *c = sp->allocState();
        sp->copyState(c, s);
        return c;
    }
};

static bool pow2(long n)
{
    return n > 0 && (n & (n - 1)) == 0;
}
static bool exactDescriptor(const json &d)
{
    const std::string t = d["t"];
    if (t == "C")
    {
        for (auto &s : d["subs"])
            if (!exactDescriptor(s))
                return false;
        return true;
    }
    if (t == "W")
        return exactDescriptor(d["sub"]);
    if (t == "SO2")
        return pow2(d["N"].get<long>());
    if (t == "RV" || t == "Time")
        return pow2(d.value("ud", 1L));
    return true;
}

static Space makeSpace(const std::string &name, const json &d)
{
    Space S;
    S.name = name;
    S.d = d;
    S.sp = build(d);
    try
    {
        S.sp->setup();
    }
    catch (const ompl::Exception &)
    {
        S.isSetUp = false;
    }
    S.exact = exactDescriptor(d);
    verifyBuilt(d, S.sp.get());
    return S;
}

// ---------------------------------------------------------------- which branch does an input hit?
// Measured from the input value and the real bounds (not from the model): names the side of every
// clamp / the wrap arithmetic / the normalisation regime a case exercises.
static std::string classifyLeaf(const Leaf &L, bool &nontrivial)
{
    std::vector<double> v = leafValues(L), lo, hi;
    leafBounds(L, lo, hi);
    std::string c = L.t;
    if (L.t == "RV" || L.t == "Time" || L.t == "Disc")
    {
        if (lo.empty())
            return c + ":unbounded";
        std::set<std::string> parts;
        for (std::size_t i = 0; i < v.size(); ++i)
        {
            const double w = hi[i] - lo[i];
            std::string p = w == 0 ? "zw-" : w >= 1e6 ? "huge-" : hi[i] < 0 ? "neg-" : "";
            const double ext = w > 0 ? w : 1;
            if (v[i] > hi[i])
                p += v[i] - hi[i] >= 10 * ext ? "far-above" : "above";
            else if (v[i] < lo[i])
                p += lo[i] - v[i] >= 10 * ext ? "far-below" : "below";
            else if (v[i] == hi[i] || v[i] == lo[i])
                p += v[i] == lo[i] ? (w == 0 ? "at" : "at-lo") : "at-hi";
            else
                p += "inside";
            if (p.find("inside") == std::string::npos || w == 0)
                nontrivial = true;
            parts.insert(p);
        }
        for (auto &p : parts)
            c += ":" + p;
        return c;
    }
    if (L.t == "SO2")
    {
        const double f = std::fmod(v[0], 2.0 * PI);
        c += f != v[0] ? ":fmod" : ":nofmod";
        c += f < -PI ? ":plus2pi" : f >= PI ? ":minus2pi" : ":keep";
        if (v[0] == PI)
            c += ":exact+pi";
        else if (v[0] == -PI)
            c += ":exact-pi";
        else if (std::fabs(std::remainder(v[0], 2.0 * PI)) > PI - 1e-9)
            c += ":odd-multiple-of-pi";
        if (std::fabs(v[0]) >= 100 * PI)
            c += ":far";
        if (c != "SO2:nofmod:keep")
            nontrivial = true;
        return c;
    }
    if (L.t == "SO3")
    {
        const double n2 = v[0] * v[0] + v[1] * v[1] + v[2] * v[2] + v[3] * v[3];
        const bool zero = v[0] == 0 && v[1] == 0 && v[2] == 0 && v[3] == 0;
        if (zero)
            c += ":zero";
        else if (std::isinf(n2))
            c += ":norm-overflow";
        else if (n2 == 0)
            c += ":norm-underflow";
        else if (n2 == 1.0)
            c += ":unit-exact";
        else if (std::fabs(1.0 - n2) < 2.107342e-08)
            c += ":first-order";
        else if (n2 < 1e-6)
            c += ":tiny";
        else
            c += n2 > 1 ? ":shrink" : ":grow";
        if (c != "SO3:unit-exact")
            nontrivial = true;
        return c;
    }
    return c;
}

// classes of all leaves of a state: joined string for reports; the non-trivial ones (a clamp side, a
// wrap, a degenerate width, a normalisation regime) are added to `hit`, prefixed with the space kind
static std::string classify(const Space &S, const ob::State *s, const std::string &prefix, std::map<std::string, long> &hit)
{
    std::set<std::string> parts;
    for (auto &L : S.leavesOf(s))
    {
        bool nontrivial = false;
        const std::string c = classifyLeaf(L, nontrivial);
        parts.insert(c);
        if (nontrivial)
            ++hit[prefix + "/" + c];
    }
    std::string c;
    for (auto &p : parts)
        c += (c.empty() ? "" : "+") + p;
    return c;
}

// ---------------------------------------------------------------- expectation check (lattice)
static bool matchLeaf(const Leaf &L, const json &x, const json &y, std::string &why)
{
    std::vector<double> got = leafValues(L), in = latticeValues(L, x);
    if (L.t == "SO3")
    {
        if (y["f"].get<bool>())
            return true;  // degenerate input: any rotation will do (bounds are checked separately)
        std::vector<double> e = quatOf(y);
        bool plus = true, minus = true;
        for (int i = 0; i < 4; ++i)
        {
            plus = plus && std::fabs(got[i] - e[i]) <= 1e-12;
            minus = minus && std::fabs(got[i] + e[i]) <= 1e-12;
        }
        if (!plus && !minus)
            why = "quaternion is not the normalised input";
        return plus || minus;
    }
    std::vector<double> e = latticeValues(L, y);
    for (std::size_t i = 0; i < e.size(); ++i)
    {
        double diff = got[i] - e[i];
        double tol = 1e-12 * std::max(1.0, std::fabs(e[i]));
        if (L.t == "SO2")
        {
            diff = std::remainder(diff, 2.0 * PI);
            tol = 1e-12 * std::max(1.0, std::fabs(in[i]));
        }
        if (!(std::fabs(diff) <= tol))
        {
            char buf[160];
            snprintf(buf, sizeof buf, "%s component %zu is %.17g, expected %.17g", L.t.c_str(), i, got[i], e[i]);
            why = buf;
            return false;
        }
    }
    return true;
}

// ---------------------------------------------------------------- failure bookkeeping
struct Failures
{
    std::map<std::string, json> first;
    std::map<std::string, long> count;
    long total{0};
    void add(const std::string &key, const json &example)
    {
        ++total;
        if (count[key]++ == 0)
            first[key] = example;
    }
    void print() const
    {
        int shown = 0;
        for (auto &f : first)
        {
            if (shown++ >= 200)
                break;
            json j = f.second;
            j["key"] = f.first;
            j["count"] = count.at(f.first);
            std::cout << "FAIL " << j.dump() << std::endl;
        }
    }
};

static json ints(const std::vector<int> &v)
{
    json a = json::array();
    for (int x : v)
        a.push_back(x);
    return a;
}

// ============================================================== replay-enforce
static int replayEnforce(const std::string &casesPath, const std::string &tracePath)
{
    auto rows = vt::readNdjson(casesPath);
    if (rows.empty() || !rows[0].contains("settings"))
        framework("cases file does not start with the settings line");
    std::map<int, Space> spaces;
    for (auto &s : rows[0]["settings"])
        spaces[s["sid"].get<int>()] = makeSpace(s["name"], s["sp"]);
    struct Obs
    {
        std::vector<int> inb0, same1, inb1, same2, match;
    };
    std::map<int, Obs> obs;
    std::map<std::string, long> classes;  // non-trivial leaf classes hit, per space kind
    Failures fails;
    long cases = 0;
    for (std::size_t r = 1; r < rows.size(); ++r)
    {
        const json &c = rows[r];
        const int sid = c["sid"];
        auto it = spaces.find(sid);
        if (it == spaces.end())
            framework("case for unknown setting");
        const Space &S = it->second;
        ob::State *s = S.sp->allocState();
        S.setLattice(s, c["x"]);
        const std::string cls = classify(S, s, S.name.substr(0, S.name.find('-')), classes);

        const bool inb0 = S.sp->satisfiesBounds(s);
        const bool inbAgrees = !S.exact || inb0 == c["inb"].get<bool>();
        ob::State *s0 = S.clone(s);
        S.sp->enforceBounds(s);
        const bool same1 = S.same(s, s0, 0.0);
        const bool inb1 = S.sp->satisfiesBounds(s);
        std::string why;
        bool faithful = true;
        {
            auto ls = S.leavesOf(s);
            std::vector<const json *> xs, ys;
            flat(S.d, c["x"], xs);
            flat(S.d, c["y"], ys);
            for (std::size_t i = 0; i < ls.size() && faithful; ++i)
                faithful = matchLeaf(ls[i], *xs[i], *ys[i], why);
        }
        ob::State *s1 = S.clone(s);
        S.sp->enforceBounds(s);
        const bool same2 = S.same(s, s1, 1e-12);

        Obs &o = obs[sid];
        o.inb0.push_back(inb0);
        o.same1.push_back(same1);
        o.inb1.push_back(inb1);
        o.same2.push_back(same2);
        o.match.push_back(faithful && inbAgrees);
        const char *law = !inb1 ? "ResultInBounds" :
                          (inb0 && !same1) ? "NoOpInBounds" :
                          !same2 ? "Idempotent" :
                          !faithful ? "Faithful" :
                          !inbAgrees ? "InBoundsAgrees" : nullptr;
        if (law)
        {
            if (std::string(law) == "InBoundsAgrees")
                why = std::string("satisfiesBounds says ") + (inb0 ? "in" : "out of") + " bounds, the lattice says otherwise";
            fails.add("enforce:" + S.name + ":" + law,
                      json{{"sid", sid}, {"setting", S.name}, {"law", law}, {"x", c["x"]}, {"y", c["y"]},
                           {"input", S.values(s0)}, {"after_enforce", S.values(s1)}, {"after_second", S.values(s)},
                           {"class", cls}, {"why", why}});
        }
        S.sp->freeState(s);
        S.sp->freeState(s0);
        S.sp->freeState(s1);
        ++cases;
    }
    {
        vt::Trace tr(tracePath);
        tr.emit(json{{"e", "Reset"}});
        for (auto &o : obs)
            tr.emit(json{{"e", "Enforce"}, {"sid", o.first}, {"name", spaces[o.first].name}, {"inb0", ints(o.second.inb0)},
                         {"same1", ints(o.second.same1)}, {"inb1", ints(o.second.inb1)}, {"same2", ints(o.second.same2)},
                         {"match", ints(o.second.match)}});
    }
    fails.print();
    json cl = json::object();
    for (auto &c : classes)
        cl[c.first] = c.second;
    std::cout << "SUMMARY " << json{{"cases", cases}, {"failures", fails.total}, {"settings", obs.size()},
                                    {"classes", cl}}.dump() << std::endl;
    return 0;
}

// ============================================================== replay-attempts
// The validity checker IS the script: the k-th state it has not seen before gets the k-th answer.
// A state it has seen before gets the same answer again (the predicate is a function of the
// state), which is what happens when the motion validator re-examines an end point.
struct ScriptChecker : public ob::StateValidityChecker
{
    struct Answer
    {
        bool v;
        double c;
    };
    const ob::StateSpace *space;
    std::vector<Answer> script;
    mutable std::vector<ob::State *> asked;
    mutable std::vector<Answer> given;
    mutable long requery{0}, overrun{0};

    ScriptChecker(const ob::SpaceInformationPtr &si) : ob::StateValidityChecker(si), space(si->getStateSpace().get())
    {
    }
    ~ScriptChecker() override
    {
        reset({});
    }
    void reset(const std::vector<Answer> &s)
    {
        for (auto *a : asked)
            space->freeState(a);
        asked.clear();
        given.clear();
        script = s;
        requery = overrun = 0;
    }
    int find(const ob::State *s) const
    {
        for (std::size_t i = 0; i < asked.size(); ++i)
            if (space->equalStates(asked[i], s))
                return (int)i;
        return -1;
    }
    bool isValid(const ob::State *s, double &dist) const override
    {
        int k = find(s);
        if (k >= 0)
        {
            ++requery;
            dist = given[k].c;
            return given[k].v;
        }
        Answer a{false, 0.0};
        if (asked.size() < script.size())
            a = script[asked.size()];
        else
            ++overrun;
        ob::State *c = space->allocState();
        space->copyState(c, s);
        asked.push_back(c);
        given.push_back(a);
        dist = a.c;
        return a.v;
    }
    bool isValid(const ob::State *s) const override
    {
        double d;
        return isValid(s, d);
    }
    double clearance(const ob::State *s) const override
    {
        double d;
        isValid(s, d);
        return d;
    }
};

// user state spaces whose validSegmentCount is a constant: makes the number of interior points the
// motion validator examines a parameter of the scenario instead of a function of the random draw
struct FixedSegRV : public ob::RealVectorStateSpace
{
    unsigned int nd{1};
    explicit FixedSegRV(unsigned int dim) : ob::RealVectorStateSpace(dim)
    {
    }
    unsigned int validSegmentCount(const ob::State *, const ob::State *) const override
    {
        return nd;
    }
};
struct FixedSegSE2 : public ob::SE2StateSpace
{
    unsigned int nd{1};
    unsigned int validSegmentCount(const ob::State *, const ob::State *) const override
    {
        return nd;
    }
};

static ob::ValidStateSamplerPtr makeValidSampler(const std::string &kind, const ob::SpaceInformation *si)
{
    if (kind == "uniform")
        return std::make_shared<ob::UniformValidStateSampler>(si);
    if (kind == "gaussian")
        return std::make_shared<ob::GaussianValidStateSampler>(si);
    if (kind == "obstacle")
        return std::make_shared<ob::ObstacleBasedValidStateSampler>(si);
    if (kind == "bridge")
        return std::make_shared<ob::BridgeTestValidStateSampler>(si);
    if (kind == "maxclear")
        return std::make_shared<ob::MaximizeClearanceValidStateSampler>(si);
    if (kind == "minclear")
        return std::make_shared<ob::MinimumClearanceValidStateSampler>(si);
    framework("unknown valid-state sampler kind " + kind);
}

static int replayAttempts(const std::string &casesPath, const std::string &tracePath, int seeds)
{
    auto rows = vt::readNdjson(casesPath);
    struct Arena
    {
        std::string name;
        ob::StateSpacePtr sp;
        std::function<void(unsigned int)> setNd;
        ob::SpaceInformationPtr si;
        std::shared_ptr<ScriptChecker> chk;
        ob::State *near, *out;
    };
    std::vector<Arena> arenas;
    {
        auto rv = std::make_shared<FixedSegRV>(2);
        rv->setBounds(-1.0, 3.0);
        arenas.push_back(Arena{"RV2", rv, [rv](unsigned int n) { rv->nd = n; }, nullptr, nullptr, nullptr, nullptr});
        auto se2 = std::make_shared<FixedSegSE2>();
        ob::RealVectorBounds b(2);
        b.setLow(-2.0);
        b.setHigh(5.0);
        se2->setBounds(b);
        arenas.push_back(Arena{"SE2", se2, [se2](unsigned int n) { se2->nd = n; }, nullptr, nullptr, nullptr, nullptr});
    }
    for (auto &a : arenas)
    {
        a.si = std::make_shared<ob::SpaceInformation>(a.sp);
        a.chk = std::make_shared<ScriptChecker>(a.si);
        a.si->setStateValidityChecker(a.chk);
        a.si->setup();
        a.near = a.sp->allocState();
        a.out = a.sp->allocState();
    }
    struct Group
    {
        std::vector<int> ret, inb, val;
    };
    std::map<std::string, Group> groups;
    std::map<std::string, long> perKind, successes, failuresReturned;
    Failures fails, drift;
    long runs = 0, queries = 0, requeries = 0, unexpectedRequery = 0;
    unsigned long long seed = vt::envSeed() * 1000003ULL;
    for (auto &c : rows)
    {
        const std::string kind = c["kind"];
        const unsigned int A = c["A"], nd = c["nd"], imp = c["imp"];
        std::vector<ScriptChecker::Answer> script;
        for (auto &o : c["script"])
            script.push_back({o["v"].get<bool>(), o["c"].get<double>()});
        const bool eret = c["ret"];
        const int eidx = c["idx"];
        for (auto &a : arenas)
            for (int mode = 0; mode < 2; ++mode)
                for (int sdx = 0; sdx < seeds; ++sdx)
                {
                    ompl::RNG::setSeed((std::uint_fast32_t)(++seed % 4000000000ULL + 1));
                    a.setNd(std::max(1u, nd));
                    a.chk->reset(script);
                    auto vs = makeValidSampler(kind, a.si.get());
                    vs->setNrAttempts(A);
                    if (kind == "maxclear")
                        static_cast<ob::MaximizeClearanceValidStateSampler *>(vs.get())->setNrImproveAttempts(imp);
                    if (kind == "minclear")
                        static_cast<ob::MinimumClearanceValidStateSampler *>(vs.get())
                            ->setMinimumObstacleClearance(c["minclr"].get<double>());
                    // a centre and a state to overwrite, both in bounds
                    auto ss = a.sp->allocStateSampler();
                    ss->sampleUniform(a.near);
                    ss->sampleUniform(a.out);
                    bool ret;
                    if (mode == 0)
                        ret = vs->sample(a.out);
                    else
                        ret = vs->sampleNear(a.out, a.near, 0.35 * a.sp->getMaximumExtent());
                    const int k = a.chk->find(a.out);  // which queried state came back (-1: none of them)
                    const bool val = k >= 0 && a.chk->given[k].v;
                    const bool inb = a.sp->satisfiesBounds(a.out);
                    const std::string gkey = kind + "/" + std::to_string(A) + "/" + std::to_string(nd) + "/" + std::to_string(imp);
                    Group &g = groups[gkey];
                    g.ret.push_back(ret);
                    g.inb.push_back(inb);
                    g.val.push_back(val);
                    ++runs;
                    ++perKind[kind];
                    if (ret)
                        ++successes[kind];
                    else
                        ++failuresReturned[kind];
                    queries += (long)a.chk->asked.size();
                    requeries += a.chk->requery;
                    const long expectedRequery = (kind == "obstacle" && eret && eidx == (int)script.size()) ? 1 : 0;
                    // two draws clamped to the same corner are one state for the predicate: the run no longer
                    // consumes the script in the model's order, so only the contract is judged on it
                    const bool coincident = a.chk->requery != expectedRequery;
                    if (coincident)
                        ++unexpectedRequery;
                    json ex{{"case", c}, {"arena", a.name}, {"mode", mode == 0 ? "sample" : "sampleNear"},
                            {"returned", ret}, {"returned_query", k + 1}, {"in_bounds", inb},
                            {"queries", a.chk->asked.size()}, {"state", json::array()}};
                    if (ret && !(inb && val))
                        fails.add("attempts:" + kind + (!val ? (k < 0 ? ":returned-unchecked-state" : ":returned-invalid-state") :
                                                               ":returned-out-of-bounds"), ex);
                    // implementation drift against the transcription (not a verdict)
                    if (coincident)
                        ;
                    else if (ret != eret)
                        drift.add("drift:" + kind + ":flag", ex);
                    else if (k + 1 != eidx)
                        drift.add("drift:" + kind + ":index", ex);
                    else if (a.chk->asked.size() != script.size() || a.chk->overrun)
                        drift.add("drift:" + kind + ":queries", ex);
                }
    }
    {
        vt::Trace tr(tracePath);
        tr.emit(json{{"e", "Reset"}});
        for (auto &g : groups)
            tr.emit(json{{"e", "Valid"}, {"src", "script"}, {"cfg", g.first}, {"vs", g.first.substr(0, g.first.find('/'))},
                         {"ret", ints(g.second.ret)}, {"inb", ints(g.second.inb)}, {"val", ints(g.second.val)}});
    }
    fails.print();
    int shown = 0;
    for (auto &f : drift.first)
        if (shown++ < 10)
        {
            json j = f.second;
            j["key"] = f.first;
            j["count"] = drift.count[f.first];
            std::cout << "DRIFT " << j.dump() << std::endl;
        }
    json pk = json::object(), sc = json::object(), fr = json::object();
    for (auto &p : perKind)
        pk[p.first] = p.second;
    for (auto &p : successes)
        sc[p.first] = p.second;
    for (auto &p : failuresReturned)
        fr[p.first] = p.second;
    std::cout << "SUMMARY " << json{{"cases", rows.size()}, {"runs", runs}, {"failures", fails.total}, {"drift", drift.total},
                                    {"queries", queries}, {"requeries", requeries}, {"coincident_state_runs", unexpectedRequery},
                                    {"per_kind", pk}, {"returned_true", sc}, {"returned_false", fr}}.dump() << std::endl;
    return 0;
}

// ============================================================== record
static const char *CENTRES[] = {"lowcorner", "highcorner", "middle", "seam"};
static const char *DISTS[] = {"zero", "tiny", "extent", "x10", "x1000"};
static const double DISTF[] = {0.0, 1e-9, 1.0, 10.0, 1000.0};

// constrained spaces: a centre is a state of the space, i.e. on the constraint manifold (the unit sphere): the
// point of the sphere in the direction of the generic centre (corner directions lie inside both boxes used)
static void ontoSphere(const Space &S, ob::State *s)
{
    if (!S.d.contains("con"))
        return;
    for (auto &L : S.leavesOf(s))
    {
        std::vector<double> v = leafValues(L);
        double n = std::sqrt(v[0] * v[0] + v[1] * v[1] + v[2] * v[2]);
        if (n < 1e-9)
            v = {1, 1, 1}, n = std::sqrt(3.0);
        for (double &x : v)
            x /= n;
        setLeafValues(L, v);
    }
    if (!S.sp->satisfiesBounds(s))
        framework("centre of a constrained space is out of bounds: " + S.name);
}

// centre state of class c, written leaf by leaf from the REAL bounds
static void centreState(const Space &S, ob::State *s, int c)
{
    int idx = 0;
    for (auto &L : S.leavesOf(s))
    {
        std::vector<double> lo, hi, v;
        leafBounds(L, lo, hi);
        if (L.t == "RV" || L.t == "Disc" || (L.t == "Time" && !lo.empty()))
        {
            for (std::size_t i = 0; i < lo.size(); ++i, ++idx)
            {
                double m = L.t == "Disc" ? std::floor((lo[i] + hi[i]) / 2) : lo[i] + (hi[i] - lo[i]) * 0.5;
                v.push_back(c == 0 ? lo[i] : c == 1 ? hi[i] : c == 2 ? m : (idx % 2 ? hi[i] : lo[i]));
            }
        }
        else if (L.t == "Time")
            v = {c == 0 ? -1e6 : c == 1 ? 1e6 : c == 2 ? 0.0 : 0.5};
        else if (L.t == "SO2")
            v = {c == 0 ? -PI : c == 1 ? std::nextafter(PI, 0.0) : c == 2 ? 0.25 : -PI + 1e-12};
        else if (L.t == "SO3")
        {
            static const double Q[4][4] = {{0, 0, 0, 1}, {1, 0, 0, 0}, {0.5, 0.5, 0.5, 0.5}, {0, 0, 0, -1}};
            v.assign(Q[c], Q[c] + 4);
        }
        setLeafValues(L, v);
    }
    ontoSphere(S, s);
}

// push a state out of range, leaf by leaf; m = 0 leaves it alone (the no-op law)
static void perturb(const Space &S, ob::State *s, int m, vt::Rng &rng)
{
    static const double ANG[] = {0, 10, 1e4, 1e9, 1e300};
    for (auto &L : S.leavesOf(s))
    {
        std::vector<double> lo, hi, v = leafValues(L);
        leafBounds(L, lo, hi);
        if (m == 0)
            continue;
        if (L.t == "RV" || L.t == "Time")
        {
            for (std::size_t i = 0; i < v.size(); ++i)
            {
                const double ext = !lo.empty() && hi[i] > lo[i] ? hi[i] - lo[i] : 1.0;
                const double r = 2 * rng.unit() - 1;
                v[i] = m == 1 ? v[i] + 3 * ext * r : m == 2 ? v[i] + 1e3 * ext * r : m == 3 ? v[i] + 1e9 * ext * r : 1e300 * r;
            }
        }
        else if (L.t == "Disc")
        {
            const double r = 2 * rng.unit() - 1;
            double nv = m == 1 ? v[0] + std::floor(5 * r) : m == 2 ? v[0] + std::floor(1e3 * r) :
                        m == 3 ? v[0] + std::floor(1e9 * r) : (r < 0 ? (double)INT_MIN : (double)INT_MAX);
            v[0] = std::max((double)INT_MIN, std::min((double)INT_MAX, nv));
        }
        else if (L.t == "SO2")
        {
            v[0] += ANG[m] * (2 * rng.unit() - 1);
            // the doubles next to the seam and to the next odd multiples of pi, from both sides: wrap-around code
            // rounds exactly here (an input a hair below -pi must not come back as +pi)
            if (m == 1 && rng.below(6) == 0)
            {
                const double odd = (2 * rng.below(3) + 1) * PI * (rng.below(2) ? 1 : -1);
                v[0] = odd;
                for (int k = rng.below(3); k > 0; --k)
                    v[0] = std::nextafter(v[0], rng.below(2) ? 1e300 : -1e300);
                if (rng.below(2))
                    v[0] = std::nextafter(odd, odd < 0 ? -1e300 : 1e300);
            }
        }
        else if (L.t == "SO3")
        {
            // 1: inside the first-order regime, 2: moderately off + direction noise, 3: tiny, 4: huge
            // (squared norm stays inside the double range; beyond it see the lattice setting SO3-overflow)
            const double sc = m == 1 ? 1.0 + 1e-8 * (2 * rng.unit() - 1) : m == 2 ? 0.2 + 5 * rng.unit() :
                              m == 3 ? std::pow(10.0, -2 - 90 * rng.unit()) : std::pow(10.0, 2 + 90 * rng.unit());
            for (double &c : v)
                c = (c + (m == 2 ? 0.3 * (2 * rng.unit() - 1) : 0.0)) * sc;
        }
        setLeafValues(L, v);
    }
}

// bound settings for the spaces that have bounds: lo/hi per coordinate index (cycled)
struct Setting
{
    const char *name;
    std::vector<double> lo, hi;
    int dlo, dhi;  // discrete
};
static const std::vector<Setting> &settings()
{
    static const std::vector<Setting> S = {
        {"normal", {-2.0, -1.0, 0.0}, {3.0, 1.0, 1.0}, 0, 3},
        {"zerowidth", {1.25, -1.0, 0.0}, {1.25, 1.0, 0.0}, 2, 2},
        {"huge", {-1e6, -3e6, 1e6}, {2e6, 3e6, 1e6 + 4}, -1000000, 1000000},
        {"negative", {-7.0, -1e3, -0.5}, {-3.0, -1e3 + 1, -0.25}, -5, -2},
    };
    return S;
}
static json rvD(const Setting &st, int dim, int off = 0)
{
    json lo = json::array(), hi = json::array();
    for (int i = 0; i < dim; ++i)
    {
        lo.push_back(st.lo[(i + off) % st.lo.size()]);
        hi.push_back(st.hi[(i + off) % st.hi.size()]);
    }
    return json{{"t", "RV"}, {"lo", lo}, {"hi", hi}, {"un", 1}, {"ud", 1}, {"upi", false}};
}
static json so2D()
{
    return json{{"t", "SO2"}, {"N", 8}};
}
static json so3D()
{
    return json{{"t", "SO3"}};
}
static json timeD(const Setting *st)
{
    if (!st)
        return json{{"t", "Time"}, {"b", false}, {"lo", 0}, {"hi", 0}, {"un", 1}, {"ud", 1}};
    return json{{"t", "Time"}, {"b", true}, {"lo", st->lo[0]}, {"hi", st->hi[0]}, {"un", 1}, {"ud", 1}};
}
static json discD(const Setting &st)
{
    return json{{"t", "Disc"}, {"lo", st.dlo}, {"hi", st.dhi}};
}
static json compD(const char *k, std::vector<json> subs, std::vector<double> w)
{
    return json{{"t", "C"}, {"k", k}, {"subs", subs}, {"w", w}};
}
static json wrapD(const json &sub)
{
    return json{{"t", "W"}, {"sub", sub}};
}

// position bounds from the setting; Vana / VanaOwen add the pitch coordinate, whose range is the class's default
static json airD(const Setting &st, const char *k)
{
    json r = rvD(st, 3);
    if (std::string(k) != "Owen")
    {
        r["lo"].push_back(-boost::math::double_constants::sixth_pi);
        r["hi"].push_back(boost::math::double_constants::sixth_pi);
    }
    return compD(k, {r, so2D()}, {1, 0.5});
}

static std::vector<std::pair<std::string, json>> recordSpaces()
{
    std::vector<std::pair<std::string, json>> out;
    for (auto &st : settings())
    {
        const std::string n = st.name;
        out.push_back({"Owen/" + n, airD(st, "Owen")});
        out.push_back({"Vana/" + n, airD(st, "Vana")});
        out.push_back({"VanaOwen/" + n, airD(st, "VanaOwen")});
        out.push_back({"SpaceTime/" + n, compD("SpaceTime", {rvD(st, 2), timeD(&st)}, {0.5, 0.5})});
        out.push_back({"RV1/" + n, rvD(st, 1)});
        out.push_back({"RV3/" + n, rvD(st, 3)});
        out.push_back({"SE2/" + n, compD("SE2", {rvD(st, 2), so2D()}, {1, 0.5})});
        out.push_back({"SE3/" + n, compD("SE3", {rvD(st, 3, 1), so3D()}, {1, 1})});
        out.push_back({"Time/" + n, timeD(&st)});
        out.push_back({"Discrete/" + n, discD(st)});
        out.push_back({"Nested/" + n, compD("C", {compD("C", {rvD(st, 2, 1), so2D()}, {1, 3}), discD(st), timeD(&st)}, {2, 1, 4})});
        out.push_back({"NestedSO3/" + n, compD("C", {so3D(), compD("C", {so2D(), timeD(nullptr)}, {1, 1}), rvD(st, 1)}, {1, 2, 0})});
        out.push_back({"WrapperSE2/" + n, wrapD(compD("SE2", {rvD(st, 2), so2D()}, {1, 0.5}))});
        out.push_back({"WrapperRV2/" + n, wrapD(rvD(st, 2, 2))});
        if (n != "negative")
        {
            json r1 = rvD(st, 1);
            const double im = n == "normal" ? 1.0 : n == "zerowidth" ? 0.0 : 1e6;
            r1["lo"][0] = -im;
            r1["hi"][0] = im;
            out.push_back({"Mobius/" + n, compD("Mobius", {so2D(), r1}, {1, 1})});
        }
    }
    json rpi{{"t", "RV"}, {"lo", json::array({0})}, {"hi", json::array({8})}, {"un", 1}, {"ud", 8}, {"upi", true}};
    out.push_back({"SO2", so2D()});
    out.push_back({"SO3", so3D()});
    out.push_back({"Time/unbounded", timeD(nullptr)});
    out.push_back({"Torus", compD("Torus", {so2D(), so2D()}, {1, 1})});
    out.push_back({"Sphere", compD("Sphere", {so2D(), rpi}, {1, 1})});
    out.push_back({"Klein", compD("Klein", {rpi, so2D()}, {1, 1})});
    out.push_back({"WrapperSO2", wrapD(so2D())});
    out.push_back({"WrapperSO3", wrapD(so3D())});
    out.push_back({"WrapperTorus", wrapD(compD("Torus", {so2D(), so2D()}, {1, 1}))});
    out.push_back({"SpaceTime/unbounded-time", compD("SpaceTime", {rvD(settings()[0], 2), timeD(nullptr)}, {0.75, 0.25})});
    out.push_back({"Empty", json{{"t", "RV"}, {"lo", json::array()}, {"hi", json::array()}, {"un", 1}, {"ud", 1}, {"upi", false}, {"real", "Empty"}}});
    // the constrained spaces wrap R^3 = [-2, 2]^3, resp. a box the unit sphere sticks out of
    Setting wide{"wide", {-2.0}, {2.0}, 0, 0}, tight{"tight", {-0.75}, {0.75}, 0, 0};
    for (const char *con : {"PJ", "AT", "TB"})
        for (const Setting *st : {&wide, &tight})
        {
            json w = wrapD(rvD(*st, 3));
            w["con"] = con;
            out.push_back({std::string(con[0] == 'P' ? "ProjectedSphere/" : con[0] == 'A' ? "AtlasSphere/" : "TangentBundleSphere/") + st->name, w});
        }
    return out;
}

// the samplers a space offers: its own (default / compound / wrapper) and, for compounds, one
// subspace sampler per direct component plus one for a component of a component
struct SamplerChoice
{
    std::string tag;
    const ob::StateSpace *sub;  // nullptr: the space's own sampler
};
static std::vector<SamplerChoice> samplerChoices(const Space &S)
{
    std::vector<SamplerChoice> out{{"own", nullptr}};
    if (S.d["t"] == "C" && S.isSetUp)  // subspace samplers copy by substate locations, computed in setup()
    {
        const auto *c = S.sp->as<ob::CompoundStateSpace>();
        for (unsigned int i = 0; i < c->getSubspaceCount(); ++i)
        {
            out.push_back({"sub" + std::to_string(i), c->getSubspace(i).get()});
            if (c->getSubspace(i)->isCompound() && S.d["subs"][i]["t"] == "C")
                out.push_back({"sub" + std::to_string(i) + ".0",
                               c->getSubspace(i)->as<ob::CompoundStateSpace>()->getSubspace(0).get()});
        }
    }
    return out;
}
static ob::StateSamplerPtr allocChoice(const Space &S, const SamplerChoice &ch)
{
    return ch.sub ? S.sp->allocSubspaceStateSampler(ch.sub) : S.sp->allocStateSampler();
}

static const int DRAWS = 2;  // calls per freshly seeded sampler

// one class of sampler calls; returns the in-bounds flags (seed-major), logs Threw on exception
static bool sampleClass(const Space &S, const SamplerChoice &ch, char mode, int c, int dc, int seed0, int seeds,
                        std::vector<int> &flags, std::string &threw, json *firstBad)
{
    ob::State *near = S.sp->allocState(), *out = S.sp->allocState();
    centreState(S, near, c);
    const double ext = S.sp->getMaximumExtent();
    const double dist = DISTF[dc] * (ext > 0 && std::isfinite(ext) ? ext : 1.0);
    bool ok = true;
    for (int sd = 0; sd < seeds && ok; ++sd)
    {
        ompl::RNG::setSeed((std::uint_fast32_t)(seed0 + sd));
        auto smp = allocChoice(S, ch);
        for (int k = 0; k < DRAWS; ++k)
        {
            S.sp->copyState(out, near);  // a subspace sampler only writes its part
            try
            {
                if (mode == 'U')
                    smp->sampleUniform(out);
                else if (mode == 'N')
                    smp->sampleUniformNear(out, near, dist);
                else
                    smp->sampleGaussian(out, near, dist);
            }
            catch (const std::exception &e)
            {
                threw = e.what();
                ok = false;
                break;
            }
            catch (const char *e)
            {
                threw = e;
                ok = false;
                break;
            }
            const bool in = S.sp->satisfiesBounds(out);
            if (!in && firstBad && firstBad->is_null())
                *firstBad = json{{"seed", seed0 + sd}, {"draw", k}, {"centre", S.values(near)}, {"distance", dist},
                                 {"state", S.values(out)}};
            flags.push_back(in);
        }
    }
    S.sp->freeState(near);
    S.sp->freeState(out);
    return ok;
}

// ---- grid worlds for the valid-state samplers: 4 x 4 unit cells over [0,4]^2, bit y*4+x = obstacle
struct World
{
    const char *name;
    unsigned int mask;
};
static const World WORLDS[] = {{"empty", 0x0000}, {"full", 0xFFFF}, {"checker", 0xA5A5}, {"corridor", 0xFF0F},
                               {"onefree", 0xFFFF & ~(1u << 6)}, {"half", 0x3333}, {"oneblocked", 1u << 9}};

static void xyOf(const std::string &arena, const ob::State *s, double &x, double &y)
{
    if (arena == "SE2")
    {
        x = s->as<ob::SE2StateSpace::StateType>()->getX();
        y = s->as<ob::SE2StateSpace::StateType>()->getY();
    }
    else
    {
        x = s->as<ob::RealVectorStateSpace::StateType>()->values[0];
        y = s->as<ob::RealVectorStateSpace::StateType>()->values[1];
    }
}
static int cellIndex(double v)
{
    int i = (int)std::floor(v);
    return i < 0 ? 0 : i > 3 ? 3 : i;
}
// the predicate handed to OMPL
struct GridChecker : public ob::StateValidityChecker
{
    std::string arena;
    unsigned int mask;
    GridChecker(const ob::SpaceInformationPtr &si, std::string a, unsigned int m)
      : ob::StateValidityChecker(si), arena(std::move(a)), mask(m)
    {
    }
    bool isValid(const ob::State *s) const override
    {
        double x, y;
        xyOf(arena, s, x, y);
        return !((mask >> (cellIndex(y) * 4 + cellIndex(x))) & 1u);
    }
    double clearance(const ob::State *s) const override
    {
        double x, y, best = 10.0;
        xyOf(arena, s, x, y);
        for (int cy = 0; cy < 4; ++cy)
            for (int cx = 0; cx < 4; ++cx)
                if ((mask >> (cy * 4 + cx)) & 1u)
                {
                    double dx = std::max({cx - x, 0.0, x - (cx + 1)}), dy = std::max({cy - y, 0.0, y - (cy + 1)});
                    best = std::min(best, std::sqrt(dx * dx + dy * dy));
                }
        return best;
    }
};
// the harness's own copy, written differently: scan the cells for the one containing the point
static bool oracleValid(unsigned int mask, double x, double y)
{
    x = std::min(std::max(x, 0.0), 4.0);
    y = std::min(std::max(y, 0.0), 4.0);
    for (int cy = 0; cy < 4; ++cy)
        for (int cx = 0; cx < 4; ++cx)
        {
            const bool inX = x >= cx && (x < cx + 1 || (cx == 3 && x <= 4)), inY = y >= cy && (y < cy + 1 || (cy == 3 && y <= 4));
            if (inX && inY)
                return !((mask >> (cy * 4 + cx)) & 1u);
        }
    return false;
}

static int record(const std::string &tracePath, int seeds)
{
    vt::Trace tr(tracePath);
    tr.emit(json{{"e", "Reset"}});
    const int seed0 = (int)(vt::envSeed() % 20000ULL) * 100000 + 1;
    vt::Rng rng(vt::envSeed() * 77 + 5);
    long calls = 0, sampleEvents = 0, offEvents = 0, validEvents = 0, offInputs = 0, validCalls = 0;
    std::map<std::string, long> nontrivial;  // measured classes of enforceBounds inputs off the lattice
    json badSamples = json::array();
    std::map<std::string, long> vsTrue, vsFalse;

    // ---- A. state samplers
    for (auto &nd : recordSpaces())
    {
        Space S = makeSpace(nd.first, nd.second);
        for (auto &ch : samplerChoices(S))
        {
            for (char mode : {'U', 'N', 'G'})
                for (int c = 0; c < 4; ++c)
                    for (int dc = 0; dc < 5; ++dc)
                    {
                        if (mode == 'U' && (c != 2 || dc != 0))
                            continue;  // uniform sampling has no centre and no distance
                        std::vector<int> flags;
                        std::string threw;
                        json bad;
                        const bool ok = sampleClass(S, ch, mode, c, dc, seed0, mode == 'U' ? 4 * seeds : seeds, flags, threw, &bad);
                        calls += (long)flags.size();
                        json ev{{"sp", S.name}, {"smp", ch.tag}, {"mode", std::string(1, mode)}, {"c", CENTRES[c]},
                                {"dc", DISTS[dc]}, {"seed0", seed0}, {"draws", DRAWS}};
                        if (!ok)
                        {
                            ev["e"] = "Threw";
                            ev["what"] = threw;
                        }
                        else
                        {
                            ev["e"] = "Sample";
                            ev["in"] = ints(flags);
                        }
                        tr.emit(ev);
                        ++sampleEvents;
                        if (!bad.is_null() && badSamples.size() < 50)
                        {
                            bad["sp"] = S.name;
                            bad["smp"] = ch.tag;
                            bad["mode"] = std::string(1, mode);
                            bad["c"] = CENTRES[c];
                            bad["dc"] = DISTS[dc];
                            badSamples.push_back(bad);
                        }
                    }
        }
        // ---- C. enforceBounds laws off the lattice, on sampler outputs pushed out of range
        for (int m = 0; m < 5; ++m)
        {
            std::vector<int> inb0, same1, inb1, same2;
            ompl::RNG::setSeed((std::uint_fast32_t)(seed0 + 7 * m));
            auto smp = S.sp->allocStateSampler();
            ob::State *s = S.sp->allocState();
            for (int i = 0; i < 4 * seeds; ++i)
            {
                smp->sampleUniform(s);
                perturb(S, s, m, rng);
                const std::string cls = classify(S, s, S.name.substr(0, S.name.find('/')), nontrivial);
                ob::State *s0 = S.clone(s);
                inb0.push_back(S.sp->satisfiesBounds(s));
                S.sp->enforceBounds(s);
                same1.push_back(S.same(s, s0, 1e-12));
                inb1.push_back(S.sp->satisfiesBounds(s));
                ob::State *s1 = S.clone(s);
                S.sp->enforceBounds(s);
                same2.push_back(S.same(s, s1, 1e-12));
                if (!inb1.back() || !same2.back() || (inb0.back() && !same1.back()))
                    if (badSamples.size() < 50)
                        badSamples.push_back(json{{"sp", S.name}, {"enforce_off", m}, {"input", S.values(s0)},
                                                  {"after_enforce", S.values(s1)}, {"after_second", S.values(s)}, {"class", cls}});
                S.sp->freeState(s0);
                S.sp->freeState(s1);
                ++offInputs;
            }
            S.sp->freeState(s);
            tr.emit(json{{"e", "EnforceOff"}, {"sp", S.name}, {"mag", m}, {"inb0", ints(inb0)}, {"same1", ints(same1)},
                         {"inb1", ints(inb1)}, {"same2", ints(same2)}});
            ++offEvents;
        }
    }

    // ---- B. valid-state samplers over grid worlds
    struct ArenaDef
    {
        std::string name;
        ob::StateSpacePtr sp;
    };
    std::vector<ArenaDef> arenas;
    {
        auto rv = std::make_shared<ob::RealVectorStateSpace>(2);
        rv->setBounds(0.0, 4.0);
        arenas.push_back({"RV2", rv});
        auto se2 = std::make_shared<ob::SE2StateSpace>();
        ob::RealVectorBounds b(2);
        b.setLow(0.0);
        b.setHigh(4.0);
        se2->setBounds(b);
        arenas.push_back({"SE2", se2});
        auto flatY = std::make_shared<ob::RealVectorStateSpace>(2);
        ob::RealVectorBounds f(2);
        f.setLow(0, 0.0);
        f.setHigh(0, 4.0);
        f.setLow(1, 1.5);
        f.setHigh(1, 1.5);
        flatY->setBounds(f);
        arenas.push_back({"RV2flat", flatY});
    }
    static const char *KINDS[] = {"uniform", "gaussian", "obstacle", "bridge", "maxclear", "minclear"};
    static const unsigned int ATT[] = {1, 5, 40};
    for (auto &ar : arenas)
        for (auto &w : WORLDS)
        {
            auto si = std::make_shared<ob::SpaceInformation>(ar.sp);
            si->setStateValidityChecker(std::make_shared<GridChecker>(si, ar.name, w.mask));
            si->setStateValidityCheckingResolution(0.02);
            si->setup();
            ob::State *near = ar.sp->allocState(), *out = ar.sp->allocState();
            for (const char *kind : KINDS)
                for (unsigned int A : ATT)
                    for (int call = 0; call < 4; ++call)
                    {
                        // call 0: sample; 1: near the middle, small; 2: near the low corner, far; 3: distance 0
                        std::vector<int> ret, inb, val;
                        for (int sd = 0; sd < seeds; ++sd)
                        {
                            ompl::RNG::setSeed((std::uint_fast32_t)(seed0 + sd));
                            auto vs = makeValidSampler(kind, si.get());
                            vs->setNrAttempts(A);
                            if (std::string(kind) == "minclear")
                                static_cast<ob::MinimumClearanceValidStateSampler *>(vs.get())->setMinimumObstacleClearance(0.3);
                            auto ss = ar.sp->allocStateSampler();
                            ss->sampleUniform(out);
                            ss->sampleUniform(near);
                            double *nv = ar.sp->getValueAddressAtIndex(near, 0);
                            if (call == 1)
                                nv[0] = 2.2;
                            if (call == 2)
                                nv[0] = 0.0;
                            const double dist = call == 1 ? 0.6 : call == 2 ? 10.0 : 0.0;
                            bool r;
                            try
                            {
                                r = call == 0 ? vs->sample(out) : vs->sampleNear(out, near, dist);
                            }
                            catch (const std::exception &e)
                            {
                                tr.emit(json{{"e", "Threw"}, {"vs", kind}, {"world", w.name}, {"arena", ar.name}, {"what", e.what()}});
                                continue;
                            }
                            double x, y;
                            xyOf(ar.name, out, x, y);
                            ret.push_back(r);
                            inb.push_back(ar.sp->satisfiesBounds(out));
                            val.push_back(oracleValid(w.mask, x, y));
                            ++validCalls;
                            ++(r ? vsTrue : vsFalse)[kind];
                            if (r && !(inb.back() && val.back()) && badSamples.size() < 50)
                                badSamples.push_back(json{{"vs", kind}, {"world", w.name}, {"arena", ar.name}, {"attempts", A},
                                                          {"call", call}, {"seed", seed0 + sd}, {"x", x}, {"y", y},
                                                          {"in_bounds", inb.back()}, {"valid", val.back()}});
                        }
                        tr.emit(json{{"e", "Valid"}, {"src", "grid"}, {"vs", kind}, {"world", w.name}, {"arena", ar.name},
                                     {"A", A}, {"call", call}, {"seed0", seed0}, {"ret", ints(ret)}, {"inb", ints(inb)},
                                     {"val", ints(val)}});
                        ++validEvents;
                    }
            ar.sp->freeState(near);
            ar.sp->freeState(out);
        }
    for (auto &b : badSamples)
        std::cout << "BAD " << b.dump() << std::endl;
    std::cout << "NBAD " << badSamples.size() << std::endl;
    json nt = json::object(), vt_ = json::object(), vf = json::object();
    for (auto &c : nontrivial)
        nt[c.first] = c.second;
    for (auto &c : vsTrue)
        vt_[c.first] = c.second;
    for (auto &c : vsFalse)
        vf[c.first] = c.second;
    std::cout << "SUMMARY " << json{{"sampler_calls", calls}, {"sample_events", sampleEvents}, {"enforce_off_events", offEvents},
                                    {"enforce_off_inputs", offInputs}, {"valid_events", validEvents}, {"valid_calls", validCalls},
                                    {"off_lattice_classes", nt}, {"valid_true", vt_}, {"valid_false", vf},
                                    {"seed0", seed0}, {"seeds", seeds}}.dump() << std::endl;
    return 0;
}

// ============================================================== probe: one recorded sampler call again
static int probe(int argc, char **argv)
{
    if (argc < 9)
        framework("probe <space> <sampler> <mode> <centre> <distclass> <seed> <draw>");
    const std::string name = argv[2], smp = argv[3], mode = argv[4], cn = argv[5], dn = argv[6];
    const int seed = atoi(argv[7]), draw = atoi(argv[8]);
    int c = -1, dc = -1;
    for (int i = 0; i < 4; ++i)
        if (cn == CENTRES[i])
            c = i;
    for (int i = 0; i < 5; ++i)
        if (dn == DISTS[i])
            dc = i;
    for (auto &nd : recordSpaces())
        if (nd.first == name)
        {
            Space S = makeSpace(nd.first, nd.second);
            for (auto &ch : samplerChoices(S))
                if (ch.tag == smp && c >= 0 && dc >= 0)
                {
                    ob::State *near = S.sp->allocState(), *out = S.sp->allocState();
                    centreState(S, near, c);
                    const double ext = S.sp->getMaximumExtent();
                    const double dist = DISTF[dc] * (ext > 0 && std::isfinite(ext) ? ext : 1.0);
                    ompl::RNG::setSeed((std::uint_fast32_t)seed);
                    auto sm = allocChoice(S, ch);
                    bool in = true;
                    for (int k = 0; k <= draw; ++k)
                    {
                        S.sp->copyState(out, near);
                        if (mode == "U")
                            sm->sampleUniform(out);
                        else if (mode == "N")
                            sm->sampleUniformNear(out, near, dist);
                        else
                            sm->sampleGaussian(out, near, dist);
                        in = S.sp->satisfiesBounds(out);
                    }
                    std::cout << "PROBE " << json{{"space", name}, {"descriptor", S.d}, {"sampler", smp}, {"mode", mode},
                                                  {"centre", S.values(near)}, {"distance", dist}, {"seed", seed}, {"draw", draw},
                                                  {"state", S.values(out)}, {"satisfiesBounds", in}}.dump() << std::endl;
                    return in ? 0 : 1;
                }
        }
    framework("probe: no such space / sampler / class");
}

int main(int argc, char **argv)
{
    vt::installCrashHandlers();
    ompl::msg::noOutputHandler();
    const std::string mode = argc > 1 ? argv[1] : "";
    if (mode == "replay-enforce" && argc > 3)
        return replayEnforce(argv[2], argv[3]);
    if (mode == "replay-attempts" && argc > 4)
        return replayAttempts(argv[2], argv[3], atoi(argv[4]));
    if (mode == "record" && argc > 3)
        return record(argv[2], atoi(argv[3]));
    if (mode == "probe")
        return probe(argc, argv);
    fprintf(stderr, "usage: bounds replay-enforce <cases> <trace> | replay-attempts <cases> <trace> <seeds> | "
                    "record <trace> <seeds> | probe <space> <sampler> <mode> <centre> <distclass> <seed> <draw>\n");
    return 2;
}
