// C02 - control planners' solutions replay through the propagator.
//
//   control replay-propagate <cases.ndjson>
//       spec -> impl: every case enumerated by TLC from specs/control/Propagate.tla is executed on the
//       real control::SpaceInformation (integer propagator on R^1, exact in double, state space that
//       counts allocState / freeState) and compared with the expectation the CONTRACT computed.
//   control record <out.ndjson> <runs.txt>
//       impl -> spec: one planner run per line of runs.txt, one SolveReport event per run whose
//       path facts come from an oracle that never calls the code under test (own copy of the
//       propagator step function, own validity predicate, own bounds and goal distance).  TLC
//       judges the reports against specs/control/ControlPathContract.tla.
//
//   control c20one <job json>
//       C20 for control planners: ONE run in this fresh process (RNG::setSeed first, evaluation-count
//       termination), complete outcome printed as bit patterns (tools/checks/c20_control.py).
//   control c03ctl <jobs.ndjson> <out.ndjson> <shard> <nshards> [skip]
//       C03 for control planners: life-cycle histories (SetPdef / NewQuery / Solve(k) / Clear / ClearQuery /
//       GetPlannerData / Setup / Destroy) executed on a control planner; judged by
//       specs/control/ControlLifecycleTrace.tla (tools/checks/c03_control.py).
//
// A line of runs.txt:
//   run planner system layout obstMask startCell goalCell thr minD maxD stepMicro dcs budget seed
// planner: RRT RRTi SST EST KPIECE1 PDST SyclopRRT SyclopEST      system: point car dint
// thr: normal tiny huge     dcs: number of control samples of the directed control sampler
// budget: number of evaluations of the termination condition (no wall clock anywhere)
#include "vtrace.h"

#include <ompl/base/ProblemDefinition.h>
#include <ompl/base/PlannerTerminationCondition.h>
#include <ompl/base/ProjectionEvaluator.h>
#include <ompl/base/goals/GoalSampleableRegion.h>
#include <ompl/base/spaces/RealVectorStateSpace.h>
#include <ompl/base/spaces/SE2StateSpace.h>
#include <ompl/control/PathControl.h>
#include <ompl/control/PlannerData.h>
#include <ompl/control/SimpleDirectedControlSampler.h>
#include <ompl/control/SpaceInformation.h>
#include <ompl/control/StatePropagator.h>
#include <ompl/control/planners/est/EST.h>
#include <ompl/control/planners/kpiece/KPIECE1.h>
#include <ompl/control/planners/pdst/PDST.h>
#include <ompl/control/planners/rrt/RRT.h>
#include <ompl/control/planners/sst/SST.h>
#include <ompl/control/planners/syclop/GridDecomposition.h>
#include <ompl/control/planners/syclop/SyclopEST.h>
#include <ompl/control/planners/syclop/SyclopRRT.h>
#include <ompl/control/spaces/RealVectorControlSpace.h>
#include <ompl/util/Console.h>
#include <ompl/util/RandomNumbers.h>

#include <array>
#include <cmath>
#include <set>
#include <sys/time.h>

namespace ob = ompl::base;
namespace oc = ompl::control;
using vt::json;

// ------------------------------------------------------------------ counting state spaces
struct AllocCounter
{
    long allocs{0}, frees{0}, badFrees{0};
    std::set<const ob::State *> live;
    void onAlloc(const ob::State *s)
    {
        ++allocs;
        live.insert(s);
    }
    void onFree(const ob::State *s)
    {
        ++frees;
        if (!live.erase(s))
            ++badFrees;
    }
    long net() const
    {
        return allocs - frees;
    }
};

template <class Base>
class Counting : public Base
{
public:
    template <class... A>
    explicit Counting(A &&...a) : Base(std::forward<A>(a)...)
    {
    }
    ob::State *allocState() const override
    {
        ob::State *s = Base::allocState();
        counter.onAlloc(s);
        return s;
    }
    void freeState(ob::State *s) const override
    {
        counter.onFree(s);
        Base::freeState(s);
    }
    mutable AllocCounter counter;
};

// ====================================================================== part 1: replay-propagate
namespace prop
{
    using R1 = Counting<ob::RealVectorStateSpace>;
    static std::set<long> g_valid;   // valid integer positions of the current case
    static long g_isValidCalls = 0;

    static double &val(ob::State *s)
    {
        return s->as<ob::RealVectorStateSpace::StateType>()->values[0];
    }
    static double val(const ob::State *s)
    {
        return s->as<ob::RealVectorStateSpace::StateType>()->values[0];
    }

    struct World
    {
        std::shared_ptr<R1> space;
        std::shared_ptr<oc::RealVectorControlSpace> cspace;
        oc::SpaceInformationPtr si;
        double h;
        explicit World(double stepSize) : h(stepSize)
        {
            space = std::make_shared<R1>(1);
            ob::RealVectorBounds b(1);
            b.setLow(-1000);
            b.setHigh(1000);
            space->setBounds(b);
            cspace = std::make_shared<oc::RealVectorControlSpace>(space, 1);
            ob::RealVectorBounds cb(1);
            cb.setLow(-10);
            cb.setHigh(10);
            cspace->setBounds(cb);
            si = std::make_shared<oc::SpaceInformation>(space, cspace);
            si->setMinMaxControlDuration(1, 20);
            si->setPropagationStepSize(h);
            si->setStateValidityChecker([](const ob::State *s) {
                ++g_isValidCalls;
                double v = val(s);
                long k = std::lround(v);
                return (double)k == v && g_valid.count(k) > 0;
            });
            double hh = h;
            // one step of +-h moves the state by exactly +-u (integers: exact in double)
            si->setStatePropagator([hh](const ob::State *s, const oc::Control *c, const double duration, ob::State *r) {
                double u = c->as<oc::RealVectorControlSpace::ControlType>()->values[0];
                val(r) = val(s) + u * (duration / hh);
            });
            si->setup();
        }
    };

    struct Tally
    {
        std::map<std::string, long> kinds;
        std::map<std::string, json> first;
        long checks{0};
        void fail(const std::string &kind, const json &c, const json &emb, const std::string &why)
        {
            if (kinds[kind]++ == 0)
            {
                first[kind] = json{{"kind", kind}, {"case", c}, {"embedding", emb}, {"why", why}};
                std::cout << "FAILKIND " << first[kind].dump() << std::endl;
            }
        }
    };

    static const double GARBAGE = 12345.0;

    // one case under one affine embedding: position after k steps = x0 + sgn * k * u
    static void runCase(World &w, const json &c, long x0, long u, Tally &t, long &aliasDeviations, json &cov)
    {
        const int steps = c["steps"].get<int>();
        const bool alloc = c["alloc"].get<bool>();
        const int cap = c["cap"].get<int>();
        const json &exp = c["exp"];
        const int n = std::abs(steps);
        const int sgn = steps > 0 ? 1 : -1;
        const json emb{{"x0", x0}, {"u", u}, {"h", w.h}};
        auto pos = [&](int k) { return (double)(x0 + (long)sgn * k * u); };

        g_valid.clear();
        g_valid.insert(x0);
        if (steps != 0)
            for (int k = 1; k <= (int)c["valid"].size(); ++k)
                if (c["valid"][k - 1].get<int>() == 1)
                    g_valid.insert(x0 + (long)sgn * k * u);

        AllocCounter &cnt = w.space->counter;
        const oc::SpaceInformation &si = *w.si;
        ob::State *in = si.allocState();
        ob::State *res = si.allocState();
        oc::Control *ctl = si.allocControl();
        ctl->as<oc::RealVectorControlSpace::ControlType>()->values[0] = (double)u;
        val(in) = (double)x0;
        auto str = [](double v) { return std::to_string(v); };

        // ---------------- overload A
        val(res) = GARBAGE;
        long net0 = cnt.net(), bad0 = cnt.badFrees;
        unsigned int rA = si.propagateWhileValid(in, ctl, steps, res);
        ++t.checks;
        if ((int)rA != exp["rA"].get<int>())
            t.fail("A:count", c, emb, "single-result overload returned " + std::to_string(rA) + ", contract says " + exp["rA"].dump());
        if (val(res) != pos(exp["rA"].get<int>()))
            t.fail("A:state", c, emb, "single-result overload left " + str(val(res)) + " in result, contract says " + str(pos(exp["rA"].get<int>())));
        if (val(in) != (double)x0)
            t.fail("A:input-modified", c, emb, "input state changed to " + str(val(in)));
        if (cnt.net() != net0 || cnt.badFrees != bad0)
            t.fail("A:leak", c, emb, "allocState/freeState imbalance " + std::to_string(cnt.net() - net0) + " (bad frees " + std::to_string(cnt.badFrees - bad0) + ")");
        double xA = val(res);

        // ---------------- overload B
        std::vector<ob::State *> vec, before;
        if (!alloc)
            for (int j = 0; j < cap; ++j)
            {
                vec.push_back(si.allocState());
                val(vec.back()) = GARBAGE;
            }
        before = vec;
        net0 = cnt.net();
        bad0 = cnt.badFrees;
        unsigned int rB = si.propagateWhileValid(in, ctl, steps, vec, alloc);
        ++t.checks;
        const int erB = exp["rB"].get<int>();
        if ((int)rB != erB)
            t.fail("B:count", c, emb, "vector overload returned " + std::to_string(rB) + ", contract says " + std::to_string(erB));
        if ((int)vec.size() != exp["lenB"].get<int>())
            t.fail("B:size", c, emb, "result.size() = " + std::to_string(vec.size()) + ", contract says " + exp["lenB"].dump());
        else
        {
            bool okStates = true, okPtrs = true;
            std::set<ob::State *> distinct(vec.begin(), vec.end());
            for (int j = 0; j < erB && j < (int)vec.size(); ++j)
                if (vec[j] == nullptr || val(vec[j]) != pos(j + 1))
                    okStates = false;
            if (alloc)
                okPtrs = distinct.size() == vec.size() && !distinct.count(nullptr);
            else
                okPtrs = vec == before;
            if (!okStates)
                t.fail("B:state", c, emb, "vector overload: the first r entries are not the states after 1..r steps");
            if (!okPtrs)
                t.fail("B:pointers", c, emb, "vector overload: result entries null / duplicated / replaced");
        }
        if (val(in) != (double)x0)
            t.fail("B:input-modified", c, emb, "input state changed to " + str(val(in)));
        long expectNet = alloc ? exp["lenB"].get<long>() : 0;
        if (cnt.net() - net0 != expectNet || cnt.badFrees != bad0)
            t.fail("B:leak", c, emb, "vector overload: net allocations " + std::to_string(cnt.net() - net0) + ", contract says " + std::to_string(expectNet));
        if (exp["cmp"].get<bool>())
        {
            double xB = rB == 0 ? (double)x0 : (rB <= vec.size() && vec[rB - 1] ? val(vec[rB - 1]) : GARBAGE);
            if (rA != rB || xA != xB)
                t.fail("AB:disagree", c, emb, "overloads disagree: A (" + std::to_string(rA) + ", " + str(xA) + ") B (" + std::to_string(rB) + ", " + str(xB) + ")");
        }
        for (auto *s : vec)
            if (s)
                si.freeState(s);
        vec.clear();

        // ---------------- plain propagate (no validity): contract = state after |steps| steps
        val(res) = GARBAGE;
        si.propagate(in, ctl, steps, res);
        if (val(res) != pos(n))
            t.fail("P:state", c, emb, "propagate() left " + str(val(res)) + ", contract says " + str(pos(n)));
        {
            std::vector<ob::State *> pv;
            net0 = cnt.net();
            si.propagate(in, ctl, steps, pv, true);
            bool ok = (int)pv.size() == n && cnt.net() - net0 == n;
            for (int j = 0; ok && j < n; ++j)
                ok = pv[j] && val(pv[j]) == pos(j + 1);
            if (!ok)
                t.fail("P:vector", c, emb, "propagate(vector, alloc) does not return the |steps| successive states");
            for (auto *s : pv)
                if (s)
                    si.freeState(s);
        }

        // ---------------- aliasing (result == state): recorded, never a verdict
        if (alloc)
        {
            ob::State *al = si.allocState();
            val(al) = (double)x0;
            unsigned int r = si.propagateWhileValid(al, ctl, steps, al);
            if ((int)r != exp["rA"].get<int>() || val(al) != pos(exp["rA"].get<int>()))
                ++aliasDeviations;
            si.freeState(al);
        }

        // coverage of the contract's case split
        const int erA = exp["rA"].get<int>();
        std::string shape = steps == 0 ? "zero" : erA == 0 ? "firstInvalid" : erA < n ? "stopsMidway" : "allValid";
        cov[shape] = cov.value(shape, 0L) + 1;
        if (steps < 0)
            cov["backward"] = cov.value("backward", 0L) + 1;
        if (!alloc && cap < n)
            cov["capacityLimited"] = cov.value("capacityLimited", 0L) + 1;
        if (alloc)
            cov["alloc"] = cov.value("alloc", 0L) + 1;

        si.freeControl(ctl);
        si.freeState(in);
        si.freeState(res);
    }

    static int replay(const std::string &path)
    {
        auto cases = vt::readNdjson(path);
        World w1(1.0), w2(0.5), w3(0.25);
        Tally t;
        long aliasDev = 0;
        json cov = json::object();
        long scenarios = 0;
        for (auto &c : cases)
        {
            runCase(w1, c, 0, 1, t, aliasDev, cov);
            runCase(w2, c, 5, 3, t, aliasDev, cov);
            runCase(w3, c, -7, -2, t, aliasDev, cov);
            scenarios += 3;
        }
        long failures = 0;
        json kinds = json::object();
        for (auto &k : t.kinds)
        {
            failures += k.second;
            kinds[k.first] = k.second;
        }
        long leftover = w1.space->counter.net() + w2.space->counter.net() + w3.space->counter.net();
        std::cout << "SUMMARY "
                  << json{{"cases", cases.size()}, {"scenarios", scenarios}, {"checks", t.checks}, {"failures", failures},
                          {"kinds", kinds}, {"aliasDeviations", aliasDev}, {"coverage", cov},
                          {"isValidCalls", g_isValidCalls}, {"leftoverStates", leftover}}
                         .dump()
                  << std::endl;
        return failures ? 1 : 0;
    }
}

// ====================================================================== part 2: record planner runs
namespace plan
{
    static const int W = 4, H = 4;   // cells of size 1

    // ---------------- the harness's own model of a system: a pure step function on doubles
    struct System
    {
        std::string name;
        int dim;                      // state dimension as doubles
        std::vector<bool> isAngle;    // component is an angle in [-pi, pi)
        double ulow[2], uhigh[2];     // control bounds
        std::vector<double> lo, hi;   // bounds of the non-position components (index >= 2); angles unbounded
        void (*step)(const double *x, const double *u, double dt, double *out);
    };

    static double wrapPi(double a)
    {
        const double pi = 3.14159265358979323846;
        while (a >= pi)
            a -= 2.0 * pi;
        while (a < -pi)
            a += 2.0 * pi;
        return a;
    }
    static void stepPoint(const double *x, const double *u, double dt, double *out)
    {
        double nx = x[0] + dt * u[0], ny = x[1] + dt * u[1];
        out[0] = nx;
        out[1] = ny;
    }
    static const double CAR_L = 0.3;
    static void stepCar(const double *x, const double *u, double dt, double *out)
    {
        double nx = x[0] + dt * u[0] * std::cos(x[2]);
        double ny = x[1] + dt * u[0] * std::sin(x[2]);
        double nt = wrapPi(x[2] + dt * u[0] * std::tan(u[1]) / CAR_L);
        out[0] = nx;
        out[1] = ny;
        out[2] = nt;
    }
    static const double VMAX = 1.0;
    static double clampV(double v)
    {
        return v > VMAX ? VMAX : v < -VMAX ? -VMAX : v;
    }
    static void stepDint(const double *x, const double *u, double dt, double *out)
    {
        double nx = x[0] + dt * x[2], ny = x[1] + dt * x[3];
        double nvx = clampV(x[2] + dt * u[0]), nvy = clampV(x[3] + dt * u[1]);
        out[0] = nx;
        out[1] = ny;
        out[2] = nvx;
        out[3] = nvy;
    }
    static System makeSystem(const std::string &name)
    {
        if (name == "point")
            return System{"point", 2, {false, false}, {-1.0, -0.5}, {1.0, 1.0}, {}, {}, stepPoint};
        if (name == "car")   // asymmetric: reverse is slow, steering mostly to the right
            return System{"car", 3, {false, false, true}, {-0.3, -0.5}, {1.0, 0.2}, {}, {}, stepCar};
        if (name == "dint")
            return System{"dint", 4, {false, false, false, false}, {-1.0, -0.6}, {1.0, 1.0}, {-VMAX, -VMAX}, {VMAX, VMAX}, stepDint};
        fprintf(stderr, "unknown system %s\n", name.c_str());
        exit(3);
    }

    // ---------------- the map and the harness's own validity predicate
    struct Map
    {
        unsigned obst;   // bit c set: cell c = y * W + x is an obstacle
        bool cellFree(int c) const
        {
            return c >= 0 && c < W * H && !((obst >> c) & 1u);
        }
    };
    static int cellOf(const double *x)
    {
        if (!(x[0] >= 0.0 && x[0] < (double)W && x[1] >= 0.0 && x[1] < (double)H))
            return -1;
        return (int)std::floor(x[1]) * W + (int)std::floor(x[0]);
    }
    static bool ownValid(const System &sys, const Map &m, const double *x)
    {
        for (int i = 0; i < sys.dim; ++i)
            if (!std::isfinite(x[i]))
                return false;
        int c = cellOf(x);
        if (c < 0 || !m.cellFree(c))
            return false;
        for (int i = 2; i < sys.dim; ++i)
            if (!sys.isAngle[i] && (x[i] < sys.lo[i - 2] || x[i] > sys.hi[i - 2]))
                return false;
        return true;
    }
    static double goalDist(const double *x, double gx, double gy)
    {
        double dx = x[0] - gx, dy = x[1] - gy;
        return std::sqrt(dx * dx + dy * dy);
    }

    // ---------------- glue to OMPL state types
    static void toVec(const System &sys, const ob::State *s, double *x)
    {
        if (sys.name == "car")
        {
            const auto *se = s->as<ob::SE2StateSpace::StateType>();
            x[0] = se->getX();
            x[1] = se->getY();
            x[2] = se->getYaw();
        }
        else
            for (int i = 0; i < sys.dim; ++i)
                x[i] = s->as<ob::RealVectorStateSpace::StateType>()->values[i];
    }
    static void fromVec(const System &sys, const double *x, ob::State *s)
    {
        if (sys.name == "car")
        {
            auto *se = s->as<ob::SE2StateSpace::StateType>();
            se->setXY(x[0], x[1]);
            se->setYaw(x[2]);
        }
        else
            for (int i = 0; i < sys.dim; ++i)
                s->as<ob::RealVectorStateSpace::StateType>()->values[i] = x[i];
    }

    class XYProjection : public ob::ProjectionEvaluator
    {
    public:
        XYProjection(const ob::StateSpacePtr &space, const System *sys) : ob::ProjectionEvaluator(space), sys_(sys)
        {
            setCellSizes(std::vector<double>{0.5, 0.5});
            bounds_.resize(2);
            bounds_.setLow(0.0);
            bounds_.setHigh(0, (double)W);
            bounds_.setHigh(1, (double)H);
        }
        unsigned int getDimension() const override
        {
            return 2;
        }
        void project(const ob::State *state, Eigen::Ref<Eigen::VectorXd> projection) const override
        {
            double x[4];
            toVec(*sys_, state, x);
            projection(0) = x[0];
            projection(1) = x[1];
        }

    private:
        const System *sys_;
    };

    class XYDecomposition : public oc::GridDecomposition
    {
    public:
        XYDecomposition(const ob::RealVectorBounds &b, const System *sys) : oc::GridDecomposition(W, 2, b), sys_(sys)
        {
        }
        void project(const ob::State *s, std::vector<double> &coord) const override
        {
            double x[4];
            toVec(*sys_, s, x);
            coord.resize(2);
            coord[0] = x[0];
            coord[1] = x[1];
        }
        void sampleFullState(const ob::StateSamplerPtr &sampler, const std::vector<double> &coord, ob::State *s) const override
        {
            sampler->sampleUniform(s);
            double x[4];
            toVec(*sys_, s, x);
            x[0] = coord[0];
            x[1] = coord[1];
            fromVec(*sys_, x, s);
        }

    private:
        const System *sys_;
    };

    // goal: a disc around the centre of the goal cell, position only
    class DiscGoal : public ob::GoalSampleableRegion
    {
    public:
        DiscGoal(const ob::SpaceInformationPtr &si, const System *sys, double gx, double gy, double thr)
          : ob::GoalSampleableRegion(si), sys_(sys), gx_(gx), gy_(gy)
        {
            setThreshold(thr);
        }
        double distanceGoal(const ob::State *st) const override
        {
            double x[4];
            toVec(*sys_, st, x);
            return goalDist(x, gx_, gy_);
        }
        void sampleGoal(ob::State *st) const override
        {
            double x[4] = {gx_, gy_, 0.0, 0.0};
            fromVec(*sys_, x, st);
        }
        unsigned int maxSampleCount() const override
        {
            return 1;
        }
        // the one sample is available at once and no other will ever appear: a planner that waits for
        // goal samples (PlannerInputStates::nextGoal sleeps 10 ms per attempt) must not wait here
        bool couldSample() const override
        {
            return false;
        }

    private:
        const System *sys_;
        double gx_, gy_;
    };

    struct RunSpec
    {
        long run;
        std::string planner, system, layout, thr;
        unsigned obst;
        int startCell, goalCell, minD, maxD, dcs;
        long stepMicro, budget, seed;
        std::string text;
    };

    static long micro(double v)
    {
        if (!std::isfinite(v))
            return 2000000000L;
        double m = std::round(v * 1e6);
        if (m > 2e9)
            return 2000000000L;
        if (m < -2e9)
            return -2000000000L;
        return (long)m;
    }

    // the oracle: facts about one path, computed without the library's propagation / validity code
    static json examinePath(const System &sys, const Map &map, int minD, int maxD, double stepSize, const double *start,
                            double gx, double gy, double thr, oc::PathControl &path, json &metrics)
    {
        const auto &states = path.getStates();
        const auto &controls = path.getControls();
        const auto &durs = path.getControlDurations();
        json p;
        p["nStates"] = (long)states.size();
        p["nControls"] = (long)controls.size();
        p["nDurations"] = (long)durs.size();
        bool startIsAStart = false, replayMatches = true, allStepsValid = true, controlsInBounds = true, whole = true;
        bool dursInRange = true;
        long totalSteps = 0, zeroDur = 0;
        double worstErr = 0.0;
        std::vector<int> cells;
        bool truncated = false;
        auto pushCell = [&](const double *x) {
            int c = cellOf(x);
            if (c < 0)
                c = W * H;   // outside the map: no such cell
            if (cells.empty() || cells.back() != c)
            {
                if (cells.size() < 120)
                    cells.push_back(c);
                else
                    truncated = true;
            }
        };
        std::vector<std::vector<double>> X(states.size(), std::vector<double>(4, 0.0));
        for (std::size_t i = 0; i < states.size(); ++i)
            toVec(sys, states[i], X[i].data());
        if (!states.empty())
        {
            startIsAStart = ownValid(sys, map, start);
            for (int k = 0; k < sys.dim; ++k)
                if (std::fabs(X[0][k] - start[k]) > 1e-12)
                    startIsAStart = false;
            pushCell(X[0].data());
            for (auto &x : X)
                if (!ownValid(sys, map, x.data()))
                    allStepsValid = false;
        }
        std::size_t nseg = std::min(controls.size(), durs.size());
        if (states.size() < nseg + 1)
            nseg = states.empty() ? 0 : states.size() - 1;
        for (std::size_t i = 0; i < nseg; ++i)
        {
            const double *u = controls[i]->as<oc::RealVectorControlSpace::ControlType>()->values;
            for (int k = 0; k < 2; ++k)
                if (!(u[k] >= sys.ulow[k] && u[k] <= sys.uhigh[k]))
                    controlsInBounds = false;
            double q = durs[i] / stepSize;
            long k = std::lround(q);
            if (!std::isfinite(q) || std::fabs(q - (double)k) > 1e-9 || k < 0)
            {
                whole = false;
                k = std::max(0L, std::min(k, 100000L));
            }
            if (k == 0)
                ++zeroDur;
            if (k < minD || k > maxD)
                dursInRange = false;
            totalSteps += k;
            double x[4];
            for (int c = 0; c < 4; ++c)
                x[c] = X[i][c];
            for (long j = 0; j < k; ++j)
            {
                sys.step(x, u, stepSize, x);
                if (!ownValid(sys, map, x))
                    allStepsValid = false;
                pushCell(x);
            }
            double scale = 1.0, err = 0.0;
            for (int c = 0; c < sys.dim; ++c)
            {
                scale = std::max(scale, std::fabs(X[i + 1][c]));
                double d = std::fabs(x[c] - X[i + 1][c]);
                if (sys.isAngle[c])
                    d = std::fabs(wrapPi(x[c] - X[i + 1][c]));
                if (!(d <= err))
                    err = d;   // also catches NaN
            }
            if (!(err <= 1e-9 * scale))
                replayMatches = false;
            if (!(err <= worstErr))
                worstErr = err;
        }
        if (states.size() != controls.size() + 1 || durs.size() != controls.size())
            replayMatches = false;   // cannot even be replayed as given
        double lastDist = states.empty() ? 1e9 : goalDist(X.back().data(), gx, gy);
        p["startIsAStart"] = startIsAStart;
        p["replayMatches"] = replayMatches;
        p["allStepsValid"] = allStepsValid;
        p["controlsInBounds"] = controlsInBounds;
        p["durationsWholeSteps"] = whole;
        p["lastInGoal"] = lastDist < thr;
        p["lastDist"] = micro(lastDist);
        p["cells"] = cells;
        p["cellsTruncated"] = truncated;
        // recorded, not judged
        p["dursInRange"] = dursInRange;
        p["zeroDurations"] = zeroDur;
        p["steps"] = vt::tlcInt(totalSteps);
        p["replayErrNano"] = micro(worstErr * 1e3);
        metrics["pathSteps"] = metrics.value("pathSteps", 0L) + totalSteps;
        return p;
    }

    static const char *statusName(ob::PlannerStatus status)
    {
        switch ((ob::PlannerStatus::StatusType)status)
        {
            case ob::PlannerStatus::EXACT_SOLUTION: return "EXACT_SOLUTION";
            case ob::PlannerStatus::APPROXIMATE_SOLUTION: return "APPROXIMATE_SOLUTION";
            case ob::PlannerStatus::TIMEOUT: return "TIMEOUT";
            case ob::PlannerStatus::INVALID_START: return "INVALID_START";
            case ob::PlannerStatus::INVALID_GOAL: return "INVALID_GOAL";
            case ob::PlannerStatus::UNRECOGNIZED_GOAL_TYPE: return "UNRECOGNIZED_GOAL_TYPE";
            case ob::PlannerStatus::CRASH: return "CRASH";
            case ob::PlannerStatus::ABORT: return "ABORT";
            case ob::PlannerStatus::INFEASIBLE: return "INFEASIBLE";
            default: return "UNKNOWN";
        }
    }

    // control space that counts allocControl / freeControl (recorded only)
    class CountingControls : public oc::RealVectorControlSpace
    {
    public:
        CountingControls(const ob::StateSpacePtr &space, unsigned int dim) : oc::RealVectorControlSpace(space, dim)
        {
        }
        oc::Control *allocControl() const override
        {
            ++allocs;
            return oc::RealVectorControlSpace::allocControl();
        }
        void freeControl(oc::Control *c) const override
        {
            ++frees;
            oc::RealVectorControlSpace::freeControl(c);
        }
        mutable long allocs{0}, frees{0};
    };

    // the planning laboratory: one system on one map (state space, control space, space information with
    // the harness's validity predicate and step function), shared by the C02 / C20 / C03 modes
    struct Lab
    {
        const System &sys;
        Map map;
        double stepSize;
        ob::StateSpacePtr space;
        std::shared_ptr<CountingControls> cspace;
        oc::SpaceInformationPtr si;
        AllocCounter *counter{nullptr};
        long validCalls{0}, propCalls{0};
        bool hashing{false};
        unsigned long long vhash{1469598103934665603ULL};   // FNV-1a over the bits of every state handed to isValid

        static const System &systemByName(const std::string &name)
        {
            static const System systems[3] = {makeSystem("point"), makeSystem("car"), makeSystem("dint")};
            const System &s = name == "point" ? systems[0] : name == "car" ? systems[1] : systems[2];
            if (s.name != name)
            {
                fprintf(stderr, "unknown system %s\n", name.c_str());
                exit(3);
            }
            return s;
        }
        Lab(const Lab &) = delete;
        Lab(const std::string &system, unsigned obst, long stepMicro, int minD, int maxD, int dcs)
          : sys(systemByName(system)), map{obst}, stepSize((double)stepMicro * 1e-6)
        {
            if (sys.name == "car")
            {
                auto s = std::make_shared<Counting<ob::SE2StateSpace>>();
                ob::RealVectorBounds b(2);
                b.setLow(0.0);
                b.setHigh(0, (double)W);
                b.setHigh(1, (double)H);
                s->setBounds(b);
                counter = &s->counter;
                space = s;
            }
            else
            {
                auto s = std::make_shared<Counting<ob::RealVectorStateSpace>>(sys.dim);
                ob::RealVectorBounds b(sys.dim);
                b.setLow(0, 0.0);
                b.setLow(1, 0.0);
                b.setHigh(0, (double)W);
                b.setHigh(1, (double)H);
                for (int i = 2; i < sys.dim; ++i)
                {
                    b.setLow(i, sys.lo[i - 2]);
                    b.setHigh(i, sys.hi[i - 2]);
                }
                s->setBounds(b);
                counter = &s->counter;
                space = s;
            }
            cspace = std::make_shared<CountingControls>(space, 2);
            ob::RealVectorBounds cb(2);
            for (int k = 0; k < 2; ++k)
            {
                cb.setLow(k, sys.ulow[k]);
                cb.setHigh(k, sys.uhigh[k]);
            }
            cspace->setBounds(cb);
            si = std::make_shared<oc::SpaceInformation>(space, cspace);
            si->setMinMaxControlDuration(minD, maxD);
            si->setPropagationStepSize(stepSize);
            si->setStateValidityChecker([this](const ob::State *s) {
                ++validCalls;
                double x[4] = {0, 0, 0, 0};
                toVec(sys, s, x);
                if (hashing)
                    for (int i = 0; i < sys.dim; ++i)
                    {
                        unsigned long long u;
                        memcpy(&u, &x[i], 8);
                        vhash = (vhash ^ u) * 1099511628211ULL;
                    }
                return ownValid(sys, map, x);
            });
            si->setStatePropagator([this](const ob::State *s, const oc::Control *c, const double duration, ob::State *r) {
                ++propCalls;
                double x[4], out[4];
                toVec(sys, s, x);
                sys.step(x, c->as<oc::RealVectorControlSpace::ControlType>()->values, duration, out);
                fromVec(sys, out, r);
            });
            if (dcs > 1)
            {
                unsigned int k = (unsigned int)dcs;
                si->setDirectedControlSamplerAllocator([k](const oc::SpaceInformation *s) {
                    return std::make_shared<oc::SimpleDirectedControlSampler>(s, k);
                });
            }
            si->setup();
        }

        ob::ProblemDefinitionPtr makePdef(const double *start, double gx, double gy, double thr)
        {
            auto pdef = std::make_shared<ob::ProblemDefinition>(si);
            setQuery(pdef, start, gx, gy, thr);
            return pdef;
        }
        void setQuery(const ob::ProblemDefinitionPtr &pdef, const double *start, double gx, double gy, double thr)
        {
            pdef->clearSolutionPaths();
            pdef->clearStartStates();
            ob::State *st = si->allocState();
            fromVec(sys, start, st);
            pdef->addStartState(st);
            si->freeState(st);
            pdef->setGoal(std::make_shared<DiscGoal>(si, &sys, gx, gy, thr));
        }

        ob::PlannerPtr makePlanner(const std::string &name)
        {
            ob::PlannerPtr planner;
            auto proj = std::make_shared<XYProjection>(space, &sys);
            ob::RealVectorBounds db(2);
            db.setLow(0.0);
            db.setHigh(0, (double)W);
            db.setHigh(1, (double)H);
            if (name == "RRT" || name == "RRTi")
            {
                auto p = std::make_shared<oc::RRT>(si);
                p->setIntermediateStates(name == "RRTi");
                planner = p;
            }
            else if (name == "SST")
                planner = std::make_shared<oc::SST>(si);
            else if (name == "EST")
            {
                auto p = std::make_shared<oc::EST>(si);
                p->setProjectionEvaluator(proj);
                planner = p;
            }
            else if (name == "KPIECE1")
            {
                auto p = std::make_shared<oc::KPIECE1>(si);
                p->setProjectionEvaluator(proj);
                planner = p;
            }
            else if (name == "PDST")
            {
                auto p = std::make_shared<oc::PDST>(si);
                p->setProjectionEvaluator(proj);
                planner = p;
            }
            else if (name == "SyclopRRT" || name == "SyclopEST")
            {
                auto decomp = std::make_shared<XYDecomposition>(db, &sys);
                std::shared_ptr<oc::Syclop> p;
                if (name == "SyclopRRT")
                    p = std::make_shared<oc::SyclopRRT>(si, decomp);
                else
                    p = std::make_shared<oc::SyclopEST>(si, decomp);
                p->setNumFreeVolumeSamples(500);
                p->setNumRegionExpansions(10);
                p->setNumTreeExpansions(5);
                planner = p;
            }
            else
            {
                fprintf(stderr, "unknown planner %s\n", name.c_str());
                exit(3);
            }
            return planner;
        }
    };

    static double thresholdOf(const std::string &thr)
    {
        return thr == "tiny" ? 1e-4 : thr == "huge" ? 8.0 : 0.45;
    }

    // oracle facts of one solution held by a problem definition
    static json solutionFacts(Lab &lab, int minD, int maxD, const double *start, double gx, double gy, double thr,
                              const ob::PlannerSolution &sol, json &metrics, long &libCheckDisagree)
    {
        auto *pc = dynamic_cast<oc::PathControl *>(sol.path_.get());
        json p;
        if (pc == nullptr)
        {
            // not a control path: nothing can be replayed
            p = json{{"nStates", 0}, {"nControls", 0}, {"nDurations", 0}, {"startIsAStart", false},
                     {"replayMatches", false}, {"allStepsValid", false}, {"controlsInBounds", false},
                     {"durationsWholeSteps", false}, {"lastInGoal", false}, {"lastDist", 2000000000L},
                     {"cells", json::array()}, {"cellsTruncated", true}, {"dursInRange", false},
                     {"zeroDurations", 0}, {"steps", 0}, {"replayErrNano", 0}, {"libCheck", false}};
        }
        else
        {
            p = examinePath(lab.sys, lab.map, minD, maxD, lab.stepSize, start, gx, gy, thr, *pc, metrics);
            bool lib = pc->check();   // the library's own definition, recorded for comparison only
            p["libCheck"] = lib;
            bool oracle = p["startIsAStart"].get<bool>() && p["replayMatches"].get<bool>() &&
                          p["allStepsValid"].get<bool>() && p["durationsWholeSteps"].get<bool>();
            if (lib != oracle)
                ++libCheckDisagree;
        }
        p["approx"] = sol.approximate_;
        p["diff"] = micro(sol.difference_);
        return p;
    }

    static json obstList(const Map &map)
    {
        json obst = json::array();
        for (int c = 0; c < W * H; ++c)
            if (!map.cellFree(c))
                obst.push_back(c);
        return obst;
    }

    // One run = one fresh planner on one problem.  The first report describes the first solve().  Half of the runs with
    // a non-trivial budget then CONTINUE: up to two further solve() calls on the same planner and problem definition
    // (no clear()), each with its own report (`resumed`), which lists the solution paths that call added - "whenever a
    // control-based planner reports a solution" includes the solutions of a resumed search.
    static std::vector<json> runOne(const RunSpec &rs)
    {
        const double thr = thresholdOf(rs.thr);
        const double gx = (rs.goalCell % W) + 0.5, gy = (rs.goalCell / W) + 0.5;
        double start[4] = {(rs.startCell % W) + 0.5, (rs.startCell / W) + 0.5, 0.0, 0.0};
        double goalState[4] = {gx, gy, 0.0, 0.0};

        ompl::RNG::setSeed((std::uint_fast32_t)rs.seed);   // before any RNG of this run exists

        std::vector<json> out;
        json base{{"e", "SolveReport"}, {"run", rs.run}, {"spec", rs.text}, {"planner", rs.planner}, {"system", rs.system},
                  {"layout", rs.layout}, {"W", W}, {"H", H}, {"startCell", rs.startCell}, {"goalCell", rs.goalCell},
                  {"thr", rs.thr}, {"thrMicro", micro(thr)}, {"minD", rs.minD}, {"maxD", rs.maxD},
                  {"stepMicro", rs.stepMicro}, {"dcs", rs.dcs}, {"budget", rs.budget}, {"seed", rs.seed}};
        json metrics = json::object();
        {
            Lab lab(rs.system, rs.obst, rs.stepMicro, rs.minD, rs.maxD, rs.dcs);
            base["obst"] = obstList(lab.map);
            base["startValid"] = ownValid(lab.sys, lab.map, start);
            base["goalValid"] = ownValid(lab.sys, lab.map, goalState);
            auto pdef = lab.makePdef(start, gx, gy, thr);
            ob::PlannerPtr planner = lab.makePlanner(rs.planner);
            planner->setProblemDefinition(pdef);
            // one run in five: the planner is set up while the space information still carries another propagation
            // step size (and duration range); the final values are set afterwards, before solve() - a planner must
            // describe its motions with the step size the propagator was actually run with
            const bool lateStep = rs.seed % 5 == 1;
            if (lateStep)
            {
                lab.si->setPropagationStepSize(lab.stepSize * 2.5);
                planner->setup();
                lab.si->setPropagationStepSize(lab.stepSize);
            }
            else
                planner->setup();
            base["lateStep"] = lateStep;

            const int nsolves = (rs.budget >= 100 && rs.budget <= 6000 && rs.seed % 2 == 0) ? 3 : 1;
            std::set<const ob::Path *> known;
            for (int call = 0; call < nsolves; ++call)
            {
                json ev = base;
                long evals = 0;
                const long budget = rs.budget;
                ob::PlannerTerminationCondition ptc([&evals, budget] { return ++evals > budget; });
                ob::PlannerStatus status = planner->solve(ptc);

                ev["status"] = statusName(status);
                ev["statusCode"] = (int)(ob::PlannerStatus::StatusType)status;
                ev["resumed"] = call > 0;
                ev["call"] = call;
                ev["evals"] = vt::tlcInt(evals);
                json paths = json::array();
                long libCheckDisagree = 0;
                for (const auto &sol : pdef->getSolutions())
                {
                    if (known.count(sol.path_.get()))
                        continue;   // reported with the call that added it
                    known.insert(sol.path_.get());
                    paths.push_back(solutionFacts(lab, rs.minD, rs.maxD, start, gx, gy, thr, sol, metrics, libCheckDisagree));
                }
                ev["nAdded"] = (long)paths.size();
                ev["paths"] = paths;
                ev["hasExact"] = pdef->hasExactSolution();
                ev["hasApprox"] = pdef->hasApproximateSolution();
                ev["libCheckDisagree"] = libCheckDisagree;
                ev["validCalls"] = vt::tlcInt(lab.validCalls);
                ev["propCalls"] = vt::tlcInt(lab.propCalls);
                out.push_back(ev);
                if (status == ob::PlannerStatus::INVALID_START || status == ob::PlannerStatus::INVALID_GOAL)
                    break;
            }
            // the solution paths stay alive until here: `known` compares addresses
            pdef->clearSolutionPaths();
            planner->clear();
            planner.reset();
            pdef.reset();
            out.back()["statesLeakedBeforeTeardown"] = lab.counter->net();
            for (std::size_t i = 0; i + 1 < out.size(); ++i)
                out[i]["statesLeakedBeforeTeardown"] = 0;
        }
        return out;
    }

    // per-run watchdog on CPU time (never wall clock: the machine may be arbitrarily loaded)
    static const int RUN_CPU_LIMIT_S = 300;
    static bool g_hangProtocol = false;   // true: emit a Hang event and exit 75 (tools/planrun.py resumes behind the run)
    static json g_current;                // what is running (for the Hang event)
    static void onCpuLimit(int)
    {
        if (g_hangProtocol)
        {
            json ev = g_current.is_object() ? g_current : json::object();
            ev["e"] = "Hang";
            if (vt::Trace::current())
            {
                vt::Trace::current()->emit(ev);
                vt::Trace::current()->flush();
            }
            std::cout << "HANG " << ev.dump() << std::endl;
            _exit(75);
        }
        vt::crashEvent("watchdog: one planner run used more than 300 s of CPU under an evaluation budget");
        _exit(71);
    }
    static void armWatchdog(int seconds)
    {
        struct itimerval it;
        memset(&it, 0, sizeof it);
        it.it_value.tv_sec = seconds;
        setitimer(ITIMER_PROF, &it, nullptr);
    }

    static int record(const std::string &out, const std::string &specFile)
    {
        signal(SIGPROF, onCpuLimit);
        ompl::msg::setLogLevel(ompl::msg::LOG_NONE);
        vt::Trace tr(out);
        std::ifstream in(specFile);
        if (!in)
        {
            fprintf(stderr, "cannot read %s\n", specFile.c_str());
            return 3;
        }
        tr.emit(json{{"e", "Reset"}});
        std::string line;
        long n = 0;
        std::map<std::string, long> byStatus;
        while (std::getline(in, line))
        {
            if (line.empty() || line[0] == '#')
                continue;
            std::istringstream ss(line);
            RunSpec rs;
            rs.text = line;
            if (!(ss >> rs.run >> rs.planner >> rs.system >> rs.layout >> rs.obst >> rs.startCell >> rs.goalCell >> rs.thr >>
                  rs.minD >> rs.maxD >> rs.stepMicro >> rs.dcs >> rs.budget >> rs.seed))
            {
                fprintf(stderr, "bad run line: %s\n", line.c_str());
                return 3;
            }
            armWatchdog(RUN_CPU_LIMIT_S);
            std::vector<json> evs = runOne(rs);
            armWatchdog(0);
            for (auto &ev : evs)
            {
                ++byStatus[ev["status"].get<std::string>()];
                tr.emit(ev);
            }
            tr.flush();
            ++n;
        }
        json st = json::object();
        for (auto &k : byStatus)
            st[k.first] = k.second;
        std::cout << "RECORDED " << json{{"runs", n}, {"status", st}}.dump() << std::endl;
        return 0;
    }

    // ================================================================== C20: one run in a fresh process
    // job: {planner, system, obst (mask), start, goal, thr, minD, maxD, stepMicro, dcs, budget, seed, solves}
    static unsigned long long fnv(unsigned long long h, double v)
    {
        unsigned long long u;
        memcpy(&u, &v, 8);
        return (h ^ u) * 1099511628211ULL;
    }
    static int c20one(const std::string &jobText)
    {
        json job = json::parse(jobText);
        unsigned seed = job["seed"];
        ompl::RNG::setSeed(seed);   // FIRST: before any random generator of this process exists
        bool seedTookEffect = ompl::RNG::getSeed() == seed;
        ompl::msg::setLogLevel(ompl::msg::LOG_NONE);
        signal(SIGPROF, onCpuLimit);
        const std::string thrName = job.value("thr", std::string("normal"));
        const double thr = thresholdOf(thrName);
        const int startCell = job["start"], goalCell = job["goal"];
        const double gx = (goalCell % W) + 0.5, gy = (goalCell / W) + 0.5;
        double start[4] = {(startCell % W) + 0.5, (startCell / W) + 0.5, 0.0, 0.0};
        Lab lab(job["system"], job["obst"].get<unsigned>(), job["stepMicro"], job["minD"], job["maxD"], job.value("dcs", 1));
        lab.hashing = true;
        auto pdef = lab.makePdef(start, gx, gy, thr);
        ob::PlannerPtr planner = lab.makePlanner(job["planner"]);
        planner->setProblemDefinition(pdef);
        std::string fp;
        char buf[96];
        armWatchdog(120);
        int nsolves = job.value("solves", 1);
        for (int i = 0; i < nsolves; ++i)
        {
            long evals = 0;
            const long budget = job["budget"];
            ob::PlannerTerminationCondition ptc([&evals, budget] { return ++evals > budget; });
            ob::PlannerStatus st = planner->solve(ptc);
            snprintf(buf, sizeof buf, "%s/%ld/", statusName(st), evals);
            fp += buf;
        }
        armWatchdog(0);
        snprintf(buf, sizeof buf, "q%ld/h%016llx/n%zu", lab.validCalls, lab.vhash, pdef->getSolutionCount());
        fp += buf;
        unsigned long long ph = 1469598103934665603ULL;
        for (auto &sol : pdef->getSolutions())
        {
            auto *pc = dynamic_cast<oc::PathControl *>(sol.path_.get());
            if (pc)
            {
                for (auto *st : pc->getStates())
                {
                    double x[4] = {0, 0, 0, 0};
                    toVec(lab.sys, st, x);
                    for (int c = 0; c < lab.sys.dim; ++c)
                        ph = fnv(ph, x[c]);
                }
                for (auto *c : pc->getControls())
                    for (int k = 0; k < 2; ++k)
                        ph = fnv(ph, c->as<oc::RealVectorControlSpace::ControlType>()->values[k]);
                for (double d : pc->getControlDurations())
                    ph = fnv(ph, d);
            }
            ph = fnv(ph, sol.difference_);
            ph = (ph ^ (sol.approximate_ ? 3 : 5)) * 1099511628211ULL;
        }
        snprintf(buf, sizeof buf, "/p%016llx", ph);
        fp += buf;
        std::cout << "OBS " << json{{"val", fp}, {"seedTookEffect", seedTookEffect}}.dump() << std::endl;
        return 0;
    }

    // ================================================================== C03: one life-cycle history on one planner
    // job: {id, planner, system, obst (mask), minD, maxD, stepMicro, dcs, thr, seed, ops: [{a, p?, k?}, ...]}
    struct Query
    {
        int startCell, goalCell;
        double start[4];
        double gx, gy;
    };
    static long budgetValue(const std::string &k)
    {
        if (k == "inf")
            return 4000;
        return atol(k.c_str() + 1);   // "k13" -> 13
    }
    static const int BOUND_AFTER_K = 24;   // evaluations tolerated after the k-th (same class as single-threaded geometric planners)

    static void runLifecycle(const json &job, vt::Trace &tr)
    {
        unsigned seed = job["seed"];
        ompl::RNG::setSeed(seed);
        vt::Rng jit(seed * 2654435761u + 7);
        const std::string plannerName = job["planner"];
        const int minD = job["minD"], maxD = job["maxD"];
        const std::string thrName = job.value("thr", std::string("normal"));
        const double thr = thresholdOf(thrName);
        Lab lab(job["system"], job["obst"].get<unsigned>(), job["stepMicro"], minD, maxD, job.value("dcs", 1));
        std::vector<int> freeCells;
        for (int c = 0; c < W * H; ++c)
            if (lab.map.cellFree(c))
                freeCells.push_back(c);
        auto pickQuery = [&]() {
            auto cell = [&]() {
                if (jit.below(12) == 0 || freeCells.empty())
                    return jit.below(W * H);
                return freeCells[jit.below((int)freeCells.size())];
            };
            Query q;
            q.startCell = cell();
            q.goalCell = cell();
            // the start is jittered inside its cell: distinct queries have distinct start states (staleness oracle);
            // the goal is the disc around the centre of its cell (goals are regions, never states of the tree)
            q.start[0] = (q.startCell % W) + 0.5 + (jit.unit() - 0.5) * 0.6;
            q.start[1] = (q.startCell / W) + 0.5 + (jit.unit() - 0.5) * 0.6;
            q.start[2] = q.start[3] = 0.0;
            q.gx = (q.goalCell % W) + 0.5;
            q.gy = (q.goalCell / W) + 0.5;
            return q;
        };
        std::map<std::string, ob::ProblemDefinitionPtr> pdefs;
        std::map<std::string, Query> cur;
        std::vector<Query> past;
        auto applyQuery = [&](const std::string &p, const Query &q) {
            auto &pd = pdefs[p];
            if (!pd)
                pd = std::make_shared<ob::ProblemDefinition>(lab.si);
            lab.setQuery(pd, q.start, q.gx, q.gy, thr);
            cur[p] = q;
            past.push_back(q);
        };
        // how many of these states are the start state of a query other than `now`?
        auto staleCount = [&](const std::vector<std::array<double, 4>> &pts, const Query &now) {
            int n = 0;
            for (auto &pt : pts)
                for (auto &q : past)
                {
                    if (q.start[0] == now.start[0] && q.start[1] == now.start[1])
                        continue;
                    if (pt[0] == q.start[0] && pt[1] == q.start[1])
                    {
                        ++n;
                        break;
                    }
                }
            return n;
        };
        Query qa = pickQuery(), qb = pickQuery();
        applyQuery("A", qa);
        applyQuery("B", qb);
        const json obst = obstList(lab.map);
        tr.emit(json{{"e", "Reset"}, {"planner", plannerName}, {"system", lab.sys.name}, {"W", W}, {"H", H}, {"obst", obst},
                     {"seed", seed}, {"B", BOUND_AFTER_K}, {"job", job.value("id", 0)},
                     {"qA", json{{"start", qa.startCell}, {"goal", qa.goalCell}}},
                     {"qB", json{{"start", qb.startCell}, {"goal", qb.goalCell}}}});
        ob::PlannerPtr planner = lab.makePlanner(plannerName);
        std::string bound;
        auto rankOf = [&](const ob::PlannerSolution &s) {
            return json{{"approx", s.approximate_}, {"diff", micro(s.difference_)}, {"len", micro(s.length_)}};
        };
        const json noRank{{"approx", false}, {"diff", 0}, {"len", 0}};
        json metrics = json::object();
        for (auto &op : job["ops"])
        {
            std::string a = op["a"];
            json ev{{"e", a}};
            g_current["op"] = a;   // a crash / hang event names the call it happened in
            if (a == "SetPdef")
            {
                bound = op["p"];
                planner->setProblemDefinition(pdefs[bound]);
                ev["p"] = bound;
            }
            else if (a == "NewQuery")
            {
                std::string p = op["p"];
                Query q = pickQuery();
                applyQuery(p, q);
                ev["p"] = p;
                ev["start"] = q.startCell;
                ev["goal"] = q.goalCell;
            }
            else if (a == "Clear")
                planner->clear();
            else if (a == "ClearQuery")
                planner->clearQuery();
            else if (a == "Setup")
                planner->setup();
            else if (a == "Solve")
            {
                auto pd = pdefs[bound];
                const Query &q = cur[bound];
                const std::string kname = op["k"];
                const long k = budgetValue(kname);
                const bool stopOnExact = kname == "inf";
                long evals = 0;
                const ob::ProblemDefinition *pdp = pd.get();
                ob::PlannerTerminationCondition ptc([&evals, k, stopOnExact, pdp] {
                    long n = ++evals;
                    if (stopOnExact && pdp->hasExactSolution())
                        return true;
                    return n > k;
                });
                std::size_t nBefore = pd->getSolutionCount();
                bool hadTop = nBefore > 0;
                json topBefore = hadTop ? rankOf(pd->getSolutions()[0]) : noRank;
                std::set<const ob::Path *> before;
                for (auto &s : pd->getSolutions())
                    before.insert(s.path_.get());
                ob::PlannerStatus st = planner->solve(ptc);
                double goalState[4] = {q.gx, q.gy, 0.0, 0.0};
                ev["k"] = kname;
                ev["kval"] = stopOnExact ? -1 : k;
                ev["evals"] = vt::tlcInt(evals);
                ev["planner"] = plannerName;
                ev["system"] = lab.sys.name;
                ev["W"] = W;
                ev["H"] = H;
                ev["obst"] = obst;
                ev["startCell"] = q.startCell;
                ev["goalCell"] = q.goalCell;
                ev["thr"] = thrName;
                ev["startValid"] = ownValid(lab.sys, lab.map, q.start);
                ev["goalValid"] = ownValid(lab.sys, lab.map, goalState);
                ev["status"] = statusName(st);
                ev["nBefore"] = (int)nBefore;
                ev["nAfter"] = (int)pd->getSolutionCount();
                ev["hasExact"] = pd->hasExactSolution();
                json sols = json::array();
                long libCheckDisagree = 0;
                auto all = pd->getSolutions();
                for (auto &s : all)
                {
                    json f = solutionFacts(lab, minD, maxD, q.start, q.gx, q.gy, thr, s, metrics, libCheckDisagree);
                    f["added"] = before.count(s.path_.get()) == 0;
                    std::vector<std::array<double, 4>> pts;
                    if (auto *pc = dynamic_cast<oc::PathControl *>(s.path_.get()))
                        for (auto *state : pc->getStates())
                        {
                            std::array<double, 4> x{{0, 0, 0, 0}};
                            toVec(lab.sys, state, x.data());
                            pts.push_back(x);
                        }
                    f["stale"] = staleCount(pts, q);
                    sols.push_back(f);
                }
                ev["sols"] = sols;
                ev["hadTop"] = hadTop;
                ev["topBefore"] = topBefore;
                ev["topAfter"] = all.empty() ? noRank : rankOf(all[0]);
            }
            else if (a == "GetPlannerData")
            {
                oc::PlannerData data(lab.si);
                planner->getPlannerData(data);
                std::vector<std::array<double, 4>> pts;
                for (unsigned i = 0; i < data.numVertices(); ++i)
                {
                    const ob::State *st = data.getVertex(i).getState();
                    if (!st)
                        continue;
                    std::array<double, 4> x{{0, 0, 0, 0}};
                    toVec(lab.sys, st, x.data());
                    pts.push_back(x);
                }
                ev["nVerts"] = (int)data.numVertices();
                ev["nEdges"] = (int)data.numEdges();
                ev["stale"] = bound.empty() ? 0 : staleCount(pts, cur[bound]);
            }
            else if (a == "Destroy")
            {
                planner.reset();
                pdefs.clear();
                ev["live"] = lab.counter->net();
                ev["badFrees"] = lab.counter->badFrees;
                ev["allocs"] = vt::tlcInt(lab.counter->allocs);
                ev["liveControls"] = lab.cspace->allocs - lab.cspace->frees;   // recorded only
                tr.emit(ev);
                break;
            }
            tr.emit(ev);
        }
    }

    static void onLifecycleCrash(int sig)
    {
        json ev = g_current.is_object() ? g_current : json::object();
        ev["e"] = "Crash";
        ev["what"] = sig == SIGSEGV ? "SIGSEGV" : sig == SIGABRT ? "SIGABRT" : sig == SIGFPE ? "SIGFPE" : "signal";
        if (vt::Trace::current())
        {
            vt::Trace::current()->emit(ev);
            vt::Trace::current()->flush();
        }
        std::cout << "CRASH " << ev.dump() << std::endl;
        _exit(70);
    }

    // same command-line protocol as `planners c03` (tools/planrun.py drives it): RUN <n> before each job,
    // RECORDED <n> at the end, exit 75 after a Hang event, resume with [skip]
    static int lifecycleShard(int argc, char **argv)
    {
        auto jobs = vt::readNdjson(argv[2]);
        int shard = atoi(argv[4]), nshards = atoi(argv[5]);
        long skip = argc > 6 ? atol(argv[6]) : 0;
        ompl::msg::setLogLevel(ompl::msg::LOG_NONE);
        vt::Trace tr(argv[3], skip > 0);
        g_hangProtocol = true;
        signal(SIGPROF, onCpuLimit);
        signal(SIGSEGV, onLifecycleCrash);
        signal(SIGABRT, onLifecycleCrash);
        signal(SIGFPE, onLifecycleCrash);
        long n = 0;
        for (std::size_t i = 0; i < jobs.size(); ++i)
        {
            if ((int)(i % nshards) != shard)
                continue;
            if (n++ < skip)
                continue;
            const json &job = jobs[i];
            g_current = json{{"planner", job["planner"]}, {"job", job.value("id", 0)}, {"idx", n - 1}, {"op", "-"}};
            std::cout << "RUN " << (n - 1) << std::endl;
            armWatchdog(40);
            runLifecycle(job, tr);
            armWatchdog(0);
            tr.flush();
        }
        std::cout << "RECORDED " << n << std::endl;
        return 0;
    }
}

int main(int argc, char **argv)
{
    vt::installCrashHandlers();
    std::string mode = argc > 1 ? argv[1] : "";
    if (mode == "replay-propagate" && argc > 2)
    {
        ompl::msg::setLogLevel(ompl::msg::LOG_NONE);
        return prop::replay(argv[2]);
    }
    if (mode == "record" && argc > 3)
        return plan::record(argv[2], argv[3]);
    if (mode == "c20one" && argc > 2)
        return plan::c20one(argv[2]);
    if (mode == "c03ctl" && argc >= 6)
        return plan::lifecycleShard(argc, argv);
    fprintf(stderr, "usage: control replay-propagate <cases.ndjson> | record <out.ndjson> <runs.txt> | c20one <job json> | "
                    "c03ctl <jobs.ndjson> <out.ndjson> <shard> <nshards> [skip]\n");
    return 2;
}
