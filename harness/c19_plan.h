// C19, planner scenarios: helpers of harness/concplan.cpp.
//  - the hook-event recorder (per-thread buffers, global sequence numbers, seeded schedule perturbation at the
//    YIELD hooks and at accesses made without the lock that is named as protecting them);
//  - the "Solve" report row in the format base/PlannerContractTrace.tla judges (same facts as harness/planners.cpp
//    computes for C01: every perturbed multi-threaded run is held to the single-threaded planner contract);
//  - a valid-state sampler whose sampleNear() fails now and then (allowed by its documentation), which is what
//    drives pSBL through its `continue` path.
#pragma once
#include "planlab.h"
#include <ompl/util/VerifHooks.h>
#include <ompl/base/samplers/UniformValidStateSampler.h>
#include <chrono>
#include <cstring>
#include <mutex>
#include <thread>
#include <sched.h>

#ifndef OMPL_VERIF
#error "the C19 planner harness needs the OMPL_VERIF hooks"
#endif

namespace c19
{
    using namespace lab;
    using ompl::verif::Event;

    // ---------------------------------------------------------------- recorder
    struct Rec
    {
        unsigned long long seq;
        Event ev;
    };
    struct ThreadBuf
    {
        std::vector<Rec> recs;
        unsigned long long rng;
        long accesses{0};
        bool backoff{false};
    };
    struct Recorder
    {
        std::atomic<unsigned long long> seq{0};
        std::mutex regMutex;  // protects bufs only (taken once per thread)
        std::vector<std::unique_ptr<ThreadBuf>> bufs;
        std::atomic<long> dropped{0}, yields{0}, sleeps{0};
        long accessCapPerThread{20000};
        int perturb{0};  // 0 none | 1 sched_yield at YIELD hooks | 2 + short sleeps, also at unprotected accesses
        unsigned long long seed{1};
        // YIELD sites where a thread is held back until the others have progressed: "site" = every arrival, "site#k" = the k-th arrival only, "site%m" = every m-th arrival
        struct Stall
        {
            std::string site;
            long k;       // > 0: the k-th arrival only
            long every;   // > 0: every every-th arrival
            std::unique_ptr<std::atomic<long>> arrivals;
        };
        std::vector<Stall> stall;
        void addStall(const std::string &spec)
        {
            auto h = spec.find_first_of("#%");
            long v = h == std::string::npos ? 0 : atol(spec.c_str() + h + 1);
            bool periodic = h != std::string::npos && spec[h] == '%';
            stall.push_back(Stall{spec.substr(0, h), periodic ? 0 : v, periodic ? v : 0,
                                  std::unique_ptr<std::atomic<long>>(new std::atomic<long>(0))});
        }
    };
    inline Recorder &rec()
    {
        static Recorder r;
        return r;
    }
    inline ThreadBuf *myBuf()
    {
        static thread_local ThreadBuf *b = nullptr;
        if (!b)
        {
            Recorder &r = rec();
            std::lock_guard<std::mutex> g(r.regMutex);
            r.bufs.emplace_back(new ThreadBuf());
            b = r.bufs.back().get();
            b->rng = (r.seed * 0x9E3779B97F4A7C15ULL) ^ (0xD1B54A32D192ED03ULL * (r.bufs.size() + 1));
            b->recs.reserve(4096);
        }
        return b;
    }
    inline unsigned long long next(ThreadBuf *b)
    {
        b->rng ^= b->rng << 13;
        b->rng ^= b->rng >> 7;
        b->rng ^= b->rng << 17;
        return b->rng;
    }
    inline void sinkFn(const Event &e)
    {
        Recorder &r = rec();
        ThreadBuf *b = myBuf();
        if (e.kind == Event::YIELD)
        {
            if (r.perturb == 0)
                return;
            for (auto &st : r.stall)
                if (st.site == e.name)
                {
                    long n = st.arrivals->fetch_add(1) + 1;
                    if (st.every > 0 ? n % st.every == 0 : (st.k == 0 || st.k == n))
                    {
                        // hold this thread until the OTHER threads have made progress (2500 more events logged), at most
                        // 60 ms: independent of how loaded the machine is
                        ++r.sleeps;
                        const unsigned long long s0 = r.seq.load();
                        for (int i = 0; i < 300 && r.seq.load() - s0 < 2500; ++i)
                            std::this_thread::sleep_for(std::chrono::microseconds(200));
                    }
                    return;
                }
            unsigned long long x = next(b) % 100;
            if (x < 25)
            {
                ++r.yields;
                sched_yield();
            }
            else if (r.perturb >= 2 && x < 33)
            {
                ++r.sleeps;
                std::this_thread::sleep_for(std::chrono::microseconds(20 + next(b) % 180));
            }
            return;
        }
        // accesses to the thread-safe surface underneath (termination flags, motion counters, seed generator ...) are
        // C19's other layer (harness/conc.cpp); here they would only swamp the log.  Dropping ACCESS events is always
        // sound for the race rule (fewer comparisons); ordering events are never dropped.
        if (e.kind == Event::ACCESS && (!strncmp(e.name, "PTC.", 4) || !strncmp(e.name, "MotionValidator.", 16) ||
                                        !strncmp(e.name, "SeedGenerator.", 14) || !strncmp(e.name, "AllocatedSpaces.", 16) ||
                                        !strncmp(e.name, "GNAT.", 5)))
            return;
        if (e.kind == Event::ACCESS && ++b->accesses > r.accessCapPerThread && b->accesses % 64 != 0)
        {
            // beyond the cap one access in 64 is kept (a thread polling in a tight loop stays visible)
            // only accesses may be dropped (fewer comparisons); ordering events never are (that could invent races)
            ++r.dropped;
            return;
        }
        b->recs.push_back(Rec{r.seq.fetch_add(1), e});
        // a failed try_lock() is retried in a tight loop that would eat an evaluation-count budget within milliseconds
        // (the threads it waits for may not even be scheduled on a loaded machine): back off
        // (not here: the caller may hold other locks around its try_lock(); at its next access event)
        if (e.kind == Event::TRYFAIL)
            b->backoff = true;
        else if (r.perturb >= 1 && b->backoff && e.kind == Event::ACCESS && e.heldMask == 0)
        {
            b->backoff = false;
            std::this_thread::sleep_for(std::chrono::microseconds(300));
        }
        // a non-atomic access made while owning none of the mutexes named at the site: this is where an unlucky
        // schedule would bite, so widen the window now and then
        if (r.perturb >= 2 && e.kind == Event::ACCESS && !e.atomic && e.heldMask == 0 && next(b) % 100 < 15)
        {
            ++r.sleeps;
            std::this_thread::sleep_for(std::chrono::microseconds(30 + next(b) % 250));
        }
    }

    struct Ids
    {
        std::map<long, int> tids;
        std::map<const void *, int> objs;
        int tidOf(long t)
        {
            auto it = tids.find(t);
            if (it == tids.end())
                it = tids.emplace(t, (int)tids.size() + 1).first;
            return it->second;
        }
        int objOf(const void *o)
        {
            auto it = objs.find(o);
            if (it == objs.end())
                it = objs.emplace(o, (int)objs.size() + 1).first;
            return it->second;
        }
    };

    // writes the events recorded so far (all planner threads have been joined) and empties the buffers
    inline long flush(vt::Trace &tr, const std::string &scenario, Ids &ids)
    {
        Recorder &r = rec();
        std::vector<Rec> recs;
        {
            std::lock_guard<std::mutex> g(r.regMutex);
            for (auto &b : r.bufs)
            {
                recs.insert(recs.end(), b->recs.begin(), b->recs.end());
                b->recs.clear();
                b->accesses = 0;
            }
        }
        std::sort(recs.begin(), recs.end(), [](const Rec &a, const Rec &b) { return a.seq < b.seq; });
        tr.emit(json{{"e", "Scenario"}, {"name", scenario}});
        for (auto &rc : recs)
        {
            const Event &e = rc.ev;
            std::string full(e.name), name = full, site;
            auto at = full.find('@');
            if (at != std::string::npos)
            {
                name = full.substr(0, at);
                site = full.substr(at + 1);
            }
            json j;
            switch (e.kind)
            {
                case Event::ACCESS:
                {
                    json held = json::array();
                    for (unsigned i = 0; i < e.nlocks && i < 4; ++i)
                        if (e.heldMask & (1u << i))
                            held.push_back(ids.objOf(e.locks[i]));
                    j = json{{"e", "Access"}, {"t", ids.tidOf(e.tid)}, {"res", name}, {"site", site},
                             {"obj", ids.objOf(e.object)}, {"w", e.write}, {"a", e.atomic}, {"locks", held},
                             {"named", (int)e.nlocks}};
                    break;
                }
                case Event::FORK:
                    j = json{{"e", "Fork"}, {"t", ids.tidOf(e.tid)}, {"tok", ids.objOf(e.object)}};
                    break;
                case Event::BEGIN:
                    j = json{{"e", "Begin"}, {"t", ids.tidOf(e.tid)}, {"tok", ids.objOf(e.object)}};
                    break;
                case Event::END:
                    j = json{{"e", "End"}, {"t", ids.tidOf(e.tid)}, {"tok", ids.objOf(e.object)}};
                    break;
                case Event::JOIN:
                    j = json{{"e", "Join"}, {"t", ids.tidOf(e.tid)}, {"tok", ids.objOf(e.object)}};
                    break;
                case Event::ACQUIRE:
                    if (e.nlocks == 1 && e.heldMask == 0)
                    {
                        // the hook says "locked" but the calling thread is measured not to own the mutex: no edge
                        j = json{{"e", "Note"}, {"t", ids.tidOf(e.tid)}, {"what", "acquire event without ownership"}, {"name", name}};
                        break;
                    }
                    j = json{{"e", "Acquire"}, {"t", ids.tidOf(e.tid)}, {"m", ids.objOf(e.object)}, {"name", name}, {"site", site}};
                    break;
                case Event::RELEASE:
                    j = json{{"e", "Release"}, {"t", ids.tidOf(e.tid)}, {"m", ids.objOf(e.object)}, {"name", name}, {"site", site},
                             {"measured", e.nlocks == 1}, {"owned", e.heldMask != 0}};
                    break;
                case Event::ACQUIRE_SHARED:
                    j = json{{"e", "AcquireShared"}, {"t", ids.tidOf(e.tid)}, {"m", ids.objOf(e.object)}, {"name", name}, {"site", site}};
                    break;
                case Event::RELEASE_SHARED:
                    j = json{{"e", "ReleaseShared"}, {"t", ids.tidOf(e.tid)}, {"m", ids.objOf(e.object)}, {"name", name}, {"site", site}};
                    break;
                case Event::TRYFAIL:
                    j = json{{"e", "TryFail"}, {"t", ids.tidOf(e.tid)}, {"m", ids.objOf(e.object)}, {"name", name}, {"site", site}};
                    break;
                default:
                    continue;
            }
            tr.emit(j);
        }
        return (long)recs.size();
    }

    // ---------------------------------------------------------------- a sampler whose sampleNear() may fail
    class FlakyValidSampler : public ob::ValidStateSampler
    {
    public:
        FlakyValidSampler(const ob::SpaceInformation *si, std::atomic<long> *calls, long every)
          : ob::ValidStateSampler(si), inner_(si), calls_(calls), every_(every)
        {
            name_ = "flaky";
        }
        bool sample(ob::State *s) override
        {
            return inner_.sample(s);
        }
        bool sampleNear(ob::State *s, const ob::State *near, double d) override
        {
            if (every_ > 0 && (calls_->fetch_add(1) + 1) % every_ == 0)
                return false;  // "Return false in case of failure"
            return inner_.sampleNear(s, near, d);
        }

    private:
        ob::UniformValidStateSampler inner_;
        std::atomic<long> *calls_;
        long every_;
    };

    // ---------------------------------------------------------------- the report row judged by the planner contract
    inline json solutionFacts(const Problem &pr, const ob::ProblemDefinition &pd, const ob::PlannerSolution &s)
    {
        json j;
        auto *pg = dynamic_cast<og::PathGeometric *>(s.path_.get());
        j["approx"] = s.approximate_;
        j["diff"] = fx(s.difference_);
        j["optimized"] = s.optimized_;
        if (!pg)
        {
            j["n"] = 0;
            j["startOk"] = false;
            j["inBounds"] = false;
            j["vertsValid"] = false;
            j["endInGoal"] = false;
            j["endDist"] = 0;
            j["endDistMax"] = 0;
            j["run"] = 0;
            j["pairsOk"] = false;
            j["cells"] = json::array();
            j["cellsTruncated"] = true;
            return j;
        }
        PathFacts f = examine(pr, pd, *pg);
        j["n"] = f.nStates;
        j["startOk"] = f.startIsAStart;
        j["inBounds"] = f.allInBounds;
        j["vertsValid"] = f.verticesValid;
        j["endInGoal"] = f.endInGoal;
        j["endDist"] = fx(f.endDist);
        j["endDistMax"] = fx(f.endDistMax);
        j["run"] = fx(f.maxInvalidRun);
        j["pairsOk"] = f.pairsRecheckOk;
        json cells = json::array();
        bool truncated = false;
        {
            const auto &sp = pr.space;
            ob::State *tmp = sp->allocState();
            int lastCell = -1;
            auto visit = [&](const ob::State *st) {
                double x, y;
                xy(sp, st, x, y);
                if (!pr.world.pointValid(x, y))
                    return;
                int cx = std::min((int)x, pr.world.W - 1), cy = std::min((int)y, pr.world.H - 1);
                int c = cy * pr.world.W + cx;
                if (c != lastCell)
                {
                    if (cells.size() < 400)
                        cells.push_back(c);
                    else
                        truncated = true;
                    lastCell = c;
                }
            };
            if (f.nStates >= 1)
                visit(pg->getState(0));
            for (int i = 0; i + 1 < f.nStates; ++i)
            {
                const ob::State *a = pg->getState(i), *b = pg->getState(i + 1);
                double d = sp->distance(a, b);
                int n = std::min(200000, std::max(1, (int)std::ceil(d / (pr.resolutionLength / 10.0))));
                for (int k = 1; k <= n; ++k)
                {
                    sp->interpolate(a, b, (double)k / n, tmp);
                    visit(tmp);
                }
            }
            sp->freeState(tmp);
        }
        j["cells"] = cells;
        j["cellsTruncated"] = truncated;
        return j;
    }
}
