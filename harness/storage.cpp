// C09 harness.
//   storage layout <shapes.ndjson> <pairs.ndjson|-> <table.ndjson> <r> <K> <crossAll 0|1>
//   storage pdata  <graph.ndjson> <shapes.ndjson> <table.ndjson> <r> <K> <mode edges|pairs> <walks> <shape ids...>
//   storage record <out.ndjson> <shapes.ndjson> <shape id> <executions> <ops>
//   storage xkind  <shapes.ndjson> <table.ndjson> <shape id>      archives handed to the loader of another kind
// Exit 0 with a SUMMARY line; failures are FAIL lines.  Exit 3: the harness itself could not do its job.
#include "storage_pdata.h"
#include <sys/resource.h>

BOOST_CLASS_EXPORT(ompl::control::PlannerDataEdgeControl);

using namespace c09;

static std::map<std::string, json> readShapes(const std::string &path, std::vector<std::string> &order)
{
    std::map<std::string, json> rows;
    for (auto &j : vt::readNdjson(path))
    {
        const std::string id = j["id"].get<std::string>();
        if (!rows.count(id))
            order.push_back(id);
        rows[id] = j;
    }
    return rows;
}

// ------------------------------------------------------------------------------------ layout
static int cmdLayout(int argc, char **argv)
{
    if (argc < 8)
        return 3;
    std::vector<std::string> order;
    auto rows = readShapes(argv[2], order);
    const std::string pairsPath = argv[3];
    FaultTable tab(argv[4]);
    const int r = atoi(argv[5]), K = atoi(argv[6]);
    const bool crossAll = atoi(argv[7]) != 0;
    vt::Report rep;
    Counters cnt;
    vt::Rng rng(vt::envSeed() * 977 + r);
    std::vector<std::shared_ptr<Shape>> all;
    for (auto &id : order)
        all.push_back(makeShape(rows[id]));
    long idx = 0;
    for (auto &sp : all)
    {
        if (idx++ % K != r)
            continue;
        ++rep.scenarios;
        ++rep.steps;
        std::string why = checkShape(*sp, cnt);
        if (!why.empty())
        {
            rep.fail(json{{"shape", sp->id}, {"part", "layout"}}, why);
            continue;
        }
        cnt.add("shapes_replayed");
        if (sp->len == 0)
            cnt.add("shapes_zero_length");
        if (sp->wrapped)
            cnt.add("shapes_wrapped");
        ++rep.scenarios;
        why = checkStateStorage(*sp, all, tab, cnt, crossAll, rng);
        if (!why.empty())
            rep.fail(json{{"shape", sp->id}, {"part", "state-storage"}}, why);
        else
            cnt.add("state_storages_replayed");
    }
    if (pairsPath != "-")
    {
        // a second set of instances: the two spaces of a pair are related by their names only
        std::map<std::string, std::shared_ptr<Shape>> a, b;
        for (auto &sp : all)
            if (sp->pair)
            {
                a[sp->id] = sp;
                b[sp->id] = makeShape(rows[sp->id]);
            }
        std::ifstream in(pairsPath);
        std::string line;
        long li = 0;
        while (std::getline(in, line))
        {
            if (line.empty() || li++ % K != r)
                continue;
            json row = json::parse(line);
            auto d = a.find(row["dst"].get<std::string>()), s = b.find(row["src"].get<std::string>());
            if (d == a.end() || s == b.end())
                throw FrameworkFailure("pair row refers to a shape that was not emitted");
            ++rep.scenarios;
            ++rep.steps;
            std::string why = checkPair(row, *d->second, *s->second, cnt);
            if (!why.empty())
                rep.fail(json{{"dst", d->first}, {"src", s->first}, {"part", "pair"}}, why);
        }
    }
    rep.summary(json{{"counters", cnt.dump()}, {"table_hits", tab.dump()}});
    return 0;
}

// ------------------------------------------------------------------------------------ pdata
struct Scenario
{
    std::vector<int> path;
    std::size_t observeFrom;
    int variant;
};

static int cmdPdata(int argc, char **argv)
{
    if (argc < 10)
        return 3;
    vt::Graph g(argv[2]);
    std::vector<std::string> order;
    auto rows = readShapes(argv[3], order);
    FaultTable tab(argv[4]);
    const int r = atoi(argv[5]), K = atoi(argv[6]);
    const std::string mode = argv[7];
    const long walks = atol(argv[8]);
    std::vector<std::unique_ptr<Env>> envs;
    for (int i = 9; i < argc; ++i)
    {
        if (!rows.count(argv[i]))
            throw FrameworkFailure(std::string("planner-data shape not emitted: ") + argv[i]);
        envs.push_back(std::make_unique<Env>(makeShape(rows[argv[i]]), 2));
    }
    Env otherControl(makeShape(rows[argv[9]]), 3);
    vt::Report rep;
    Counters cnt;
    vt::Rng rng(vt::envSeed() * 7919 + r);
    std::size_t envTurn = r;

    auto runOne = [&](const std::vector<int> &path, std::size_t observeFrom, int variant, bool control) {
        Env *env = envs[envTurn++ % envs.size()].get();
        auto make = [&] { return Driver(env, control, variant); };
        const long before = rep.failures;
        vt::runScenario<Driver>(g, path, observeFrom, rep, make);
        if (rep.failures == before)
            for (int ei : path)
                cnt.add("act_" + g.edges[ei].a);
    };

    // A. scenarios
    for (std::size_t i = 0; i < g.edges.size(); ++i)
    {
        if ((long)i % K != r)
            continue;
        std::vector<int> path = g.pathTo(g.edges[i].s);
        path.push_back((int)i);
        for (int control = 0; control < 2; ++control)
            runOne(path, path.size() - 1, (int)(i / K + control) % 2, control != 0);
        if (mode == "pairs")
        {
            const std::string &a1 = g.edges[i].a;
            for (int e2 : g.out[g.edges[i].d])
            {
                const std::string &a2 = g.edges[e2].a;
                // the second step exercises what the first one left behind
                const bool use = a2 == "RemoveVertex" || (a1 == "RemoveVertex" && a2 != "AddDup" && a2 != "AddEdgeDup") ||
                                 (a1 == "Clear" && a2 != "Clear");
                if (!use)
                    continue;
                path.push_back(e2);
                runOne(path, path.size() - 1, (int)(e2 % 2), (e2 / 2) % 2 != 0);
                path.pop_back();
            }
        }
    }
    for (long w = 0; w < walks; ++w)
    {
        std::vector<int> path;
        int s = 0;
        for (int k = 0; k < 30 && !g.out[s].empty(); ++k)
        {
            int e = g.out[s][rng.below((int)g.out[s].size())];
            if (g.edges[e].a == "Clear" && rng.below(4) != 0)
                continue;
            path.push_back(e);
            s = g.edges[e].d;
        }
        runOne(path, 0, (int)(w % 2), (w / 2) % 2 != 0);
    }
    // B. archives: once per state of the model, reached along the shortest history
    for (int d = 0; d < g.nStates; ++d)
    {
        if (d % K != r)
            continue;
        std::vector<int> path = g.pathTo(d);
        for (int control = 0; control < 2; ++control)
        {
            Env *env = envs[(d / K + control) % envs.size()].get();
            Driver drv(env, control != 0, (d + control) % 2);
            bool ok = true;
            for (int ei : path)
                ok = ok && drv.step(g.edges[ei], false);
            if (ok && !path.empty())
            {
                std::string why = compareObservers(*drv.pd, drv.cur, *env, control != 0, true);
                ok = why.empty();
            }
            if (!ok)
            {
                cnt.add("archive_states_skipped");  // reported by part A
                continue;
            }
            std::vector<StorageFinding> found;
            storageTests(*drv.pd, drv.cur, *env, control != 0, envs, &otherControl, tab, cnt, found);
            ++rep.scenarios;
            cnt.add(control ? "archives_control" : "archives_base");
            bool both = false;
            {
                std::set<unsigned int> st;
                for (auto &x : drv.cur["starts"])
                    st.insert(x.get<unsigned int>());
                for (auto &x : drv.cur["goals"])
                    if (st.count(x.get<unsigned int>()))
                        both = true;
            }
            if (both)
                cnt.add("archives_with_start_and_goal_vertex");
            for (auto &f : found)
            {
                json sc = vt::describe(g, path);
                sc.push_back(json{{"a", "Store+Load"}, {"args", json{{"control", control}, {"space", env->shape->id}}}});
                rep.fail(sc, f.check + ": " + f.why);
            }
        }
    }
    rep.summary(json{{"counters", cnt.dump()}, {"table_hits", tab.dump()}, {"edges", g.edges.size()}, {"states", g.nStates}});
    return 0;
}

// ------------------------------------------------------------------------------------ record
// random histories over larger graphs; every line carries the complete observer table as read back
static json observe(const ob::PlannerData &pd, const Env &env, bool control)
{
    json o;
    const unsigned int n = pd.numVertices();
    o["n"] = n;
    o["ne"] = pd.numEdges();
    o["verts"] = json::array();
    o["starts"] = json::array();
    o["goals"] = json::array();
    o["sl"] = json::array();
    o["gl"] = json::array();
    o["edges"] = json::array();
    o["out"] = json::array();
    o["inc"] = json::array();
    for (unsigned int i = 0; i < n; ++i)
    {
        const auto &v = pd.getVertex(i);
        o["verts"].push_back(json::array({env.sidOf(v.getState()), vt::tlcInt(v.getTag())}));
        if (pd.isStartVertex(i))
            o["starts"].push_back(i);
        if (pd.isGoalVertex(i))
            o["goals"].push_back(i);
        std::vector<unsigned int> lst;
        pd.getEdges(i, lst);
        for (unsigned int j : lst)
            o["out"].push_back(json::array({i, j}));
        pd.getIncomingEdges(i, lst);
        for (unsigned int j : lst)
            o["inc"].push_back(json::array({j, i}));
        for (unsigned int j = 0; j < n; ++j)
        {
            ob::Cost c;
            if (pd.edgeExists(i, j) && pd.getEdgeWeight(i, j, &c))
            {
                long w = (long)c.value();
                if (control)
                {
                    // the control and the duration must be the ones that belong to this weight
                    const auto &ec = static_cast<const oc::PlannerDataEdgeControl &>(pd.getEdge(i, j));
                    double cv[2];
                    controlValues((int)w, cv, 2);
                    if (ec.getDuration() != durationOf((int)w) || ec.getControl() == nullptr ||
                        memcmp(ec.getControl()->as<oc::RealVectorControlSpace::ControlType>()->values, cv, sizeof cv) != 0)
                        w = -w - 1000000;  // a weight no history contains: the spec rejects the line
                }
                o["edges"].push_back(json::array({i, j, vt::tlcInt(w)}));
            }
        }
    }
    for (unsigned int k = 0; k < pd.numStartVertices(); ++k)
        o["sl"].push_back(vt::tlcInt(pd.getStartIndex(k) == ob::PlannerData::INVALID_INDEX ? -1 : (long)pd.getStartIndex(k)));
    for (unsigned int k = 0; k < pd.numGoalVertices(); ++k)
        o["gl"].push_back(vt::tlcInt(pd.getGoalIndex(k) == ob::PlannerData::INVALID_INDEX ? -1 : (long)pd.getGoalIndex(k)));
    return o;
}

static int cmdRecord(int argc, char **argv)
{
    if (argc < 7)
        return 3;
    vt::Trace tr(argv[2]);
    std::vector<std::string> order;
    auto rows = readShapes(argv[3], order);
    if (!rows.count(argv[4]))
        throw FrameworkFailure("shape not emitted");
    Env env(makeShape(rows[argv[4]]), 2);
    const int execs = atoi(argv[5]), ops = atoi(argv[6]);
    vt::Rng rng(vt::envSeed() * 104729 + 17);
    long roundtrips = 0, removes = 0;
    for (int x = 0; x < execs; ++x)
    {
        const bool control = x % 2 == 1;
        const bool last = x == execs - 1;
        Driver drv(&env, control, x % 4 / 2);
        ob::PlannerData &pd = *drv.pd;
        tr.emit(json{{"e", "Reset"}});
        auto inv = [](unsigned int v) { return v == ob::PlannerData::INVALID_INDEX ? -1L : (long)v; };
        auto bothMarked = [&] {
            for (unsigned int i = 0; i < pd.numVertices(); ++i)
                if (pd.isStartVertex(i) && pd.isGoalVertex(i))
                    return true;
            return false;
        };
        for (int k = 0; k < ops; ++k)
        {
            json ev;
            const int sid = 1 + rng.below(MAX_SID), tag = rng.below(50);
            const unsigned int n = pd.numVertices();
            const unsigned int v1 = rng.below((int)n + 1), v2 = rng.below((int)n + 1);
            int op = rng.below(100);
            if (last && k == ops - 1)
                op = 1000;
            if (op < 22)
                ev = json{{"e", "AddVertex"}, {"sid", sid}, {"tag", tag}, {"ret", inv(pd.addVertex(ob::PlannerDataVertex(env.states[sid], tag)))}};
            else if (op < 28)
                ev = json{{"e", "AddStart"}, {"sid", sid}, {"tag", tag}, {"ret", inv(pd.addStartVertex(ob::PlannerDataVertex(env.states[sid], tag)))}};
            else if (op < 34)
                ev = json{{"e", "AddGoal"}, {"sid", sid}, {"tag", tag}, {"ret", inv(pd.addGoalVertex(ob::PlannerDataVertex(env.states[sid], tag)))}};
            else if (op < 40)
                ev = json{{"e", "MarkStart"}, {"sid", sid}, {"ret", (int)pd.markStartState(env.states[sid])}};
            else if (op < 48)
                ev = json{{"e", "MarkGoal"}, {"sid", sid}, {"ret", (int)pd.markGoalState(env.states[sid])}};
            else if (op < 54)
                ev = json{{"e", "Tag"}, {"sid", sid}, {"tag", tag}, {"ret", (int)pd.tagState(env.states[sid], tag)}};
            else if (op < 76)
            {
                const int w = 1 + rng.below(900);
                ev = json{{"e", "AddEdge"}, {"v1", v1}, {"v2", v2}, {"w", w}, {"ret", (int)drv.addEdge(v1, v2, w, w)}};
            }
            else if (op < 82)
                ev = json{{"e", "RemoveEdge"}, {"v1", v1}, {"v2", v2},
                          {"ret", (int)(v1 < n && v2 < n ? pd.removeEdge(v1, v2) : false)}};
            else if (op < 93)
            {
                bool ret;
                if (drv.variant == 1 && v1 < n)
                    ret = pd.removeVertex(ob::PlannerDataVertex(pd.getVertex(v1).getState()));
                else
                    ret = pd.removeVertex(v1);
                ev = json{{"e", "RemoveVertex"}, {"v", v1}, {"ret", (int)ret}};
                removes += ret;
            }
            else if (op < 94)
            {
                pd.clear();
                ev = json{{"e", "Clear"}};
            }
            else
            {
                // a vertex marked start and goal is known not to survive the archive (reported by the
                // replay under its own key); here it is recorded only as the very last line of the file
                if (op == 1000)
                {
                    if (pd.numVertices() == 0)
                        pd.addVertex(ob::PlannerDataVertex(env.states[1], 3));
                    pd.markStartState(pd.getVertex(0).getState());
                    pd.markGoalState(pd.getVertex(0).getState());
                }
                else if (bothMarked())
                {
                    --k;
                    continue;
                }
                std::string bytes;
                bool ok = storePD(pd, control, bytes);
                auto pd2 = freshPD(env, control);
                ok = ok && loadPD(*pd2, control, bytes);
                ev = json{{"e", "RoundTrip"}, {"ret", (int)ok}, {"both", op == 1000 ? 1 : 0}};
                ev["obs"] = observe(*pd2, env, control);
                if (op == 1000)
                    ev["orig"] = observe(pd, env, control);  // lets the check tell the known loss from any other
                tr.emit(ev);
                ++roundtrips;
                continue;
            }
            ev["obs"] = observe(pd, env, control);
            tr.emit(ev);
        }
    }
    std::cout << "SUMMARY " << json{{"events", tr.count()}, {"roundtrips", roundtrips}, {"removes", removes}}.dump() << std::endl;
    return 0;
}


// ------------------------------------------------------------------------------------ xkind
// The realistic "wrong marker": an archive of one kind handed to the loader of another.  Each load runs
// in a child process with a 4 GiB address-space limit: the foreign header makes the loader read a
// garbage length, and an attempt to allocate it must end as "rejected and reported", not as a crash
// (and must never really take 16 GiB on the machine that runs the check).
static int cmdXkind(int argc, char **argv)
{
    if (argc < 5)
        return 3;
    std::vector<std::string> order;
    auto rows = readShapes(argv[2], order);
    FaultTable tab(argv[3]);
    if (!rows.count(argv[4]))
        throw FrameworkFailure("shape not emitted");
    Env env(makeShape(rows[argv[4]]), 2);
    vt::Report rep;
    Counters cnt;
    std::string arch[3];
    const char *kinds[3] = {"SS", "PD", "PDC"};
    arch[0] = storeStates(*env.shape, 3);
    json obs{{"n", 3}, {"ne", 1}, {"verts", json::array({json::array({1, 1}), json::array({2, 2}), json::array({3, 3})})},
             {"starts", json::array({0})}, {"goals", json::array({2})}, {"edges", json::array({json::array({0, 1, 12})})}};
    std::vector<std::pair<unsigned int, unsigned int>> eo{{0, 1}};
    for (int control = 0; control < 2; ++control)
    {
        Rebuilt r;
        rebuild(r, env, control != 0, obs, 3, eo, 1);
        if (!storePD(*r.pd, control != 0, arch[1 + control]))
            throw FrameworkFailure("cannot store the sample graph");
    }
    for (int a = 0; a < 3; ++a)
        for (int l = 0; l < 3; ++l)
        {
            if (a == l)
                continue;
            if (tab.lookup(kinds[a], "foreign", "marker", false, true) != "Reject")
                throw FrameworkFailure("table accepts a foreign archive");
            fflush(stdout);
            pid_t pid = fork();
            if (pid < 0)
                throw FrameworkFailure("fork failed");
            if (pid == 0)
            {
                struct rlimit lim{4ULL << 30, 4ULL << 30};
                setrlimit(RLIMIT_AS, &lim);
                int devnull = open("/dev/null", O_WRONLY);
                dup2(devnull, 1);
                dup2(devnull, 2);
                capture().reset();
                bool accepted;
                if (l == 0)
                {
                    ob::StateStorage st(env.shape->root);
                    std::istringstream in(arch[a]);
                    st.load(in);
                    accepted = st.size() > 0;
                }
                else
                {
                    auto pd = freshPD(env, l == 2);
                    accepted = loadPD(*pd, l == 2, arch[a]);
                }
                _exit(accepted ? 11 : capture().reported() ? 10 : 12);
            }
            int status = 0;
            waitpid(pid, &status, 0);
            ++rep.scenarios;
            ++rep.steps;
            json sc{{"archive", kinds[a]}, {"loader", kinds[l]}, {"space", env.shape->id}, {"part", "foreign-archive"}};
            if (!WIFEXITED(status) || (WEXITSTATUS(status) != 10 && WEXITSTATUS(status) != 11 && WEXITSTATUS(status) != 12))
                rep.fail(sc, std::string("xkind-crash: the loader did not survive an archive of another kind (") +
                                 (WIFSIGNALED(status) ? "signal " + std::to_string(WTERMSIG(status))
                                                      : "exit " + std::to_string(WEXITSTATUS(status))) +
                                 ", uncaught exception under a 4 GiB address-space limit)");
            else if (WEXITSTATUS(status) == 11)
                rep.fail(sc, "xkind-accepted: an archive of another kind was accepted");
            else if (WEXITSTATUS(status) == 12)
                rep.fail(sc, "xkind-silent: an archive of another kind was rejected without a message");
            else
                cnt.add("foreign_archives_rejected");
        }
    rep.summary(json{{"counters", cnt.dump()}, {"table_hits", tab.dump()}});
    return 0;
}

int main(int argc, char **argv)
{
    vt::installCrashHandlers();
    installCapture();
    const std::string cmd = argc > 1 ? argv[1] : "";
    try
    {
        if (cmd == "layout")
            return cmdLayout(argc, argv);
        if (cmd == "pdata")
            return cmdPdata(argc, argv);
        if (cmd == "record")
            return cmdRecord(argc, argv);
        if (cmd == "xkind")
            return cmdXkind(argc, argv);
    }
    catch (const FrameworkFailure &f)
    {
        std::cout << "FRAMEWORK " << f.what() << std::endl;
        return 3;
    }
    fprintf(stderr, "usage: storage layout|pdata|record ...\n");
    return 3;
}
