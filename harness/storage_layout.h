// C09 layout replay: every shape emitted by StateLayout.tla is built as a real state space and compared
// with what the specification computed; every ordered pair of the pair family is copied across;
// a StateStorage of every shape is stored, loaded, truncated at every byte and loaded into every
// other shape.
#pragma once
#include "storage_shapes.h"
#include <ompl/base/StateStorage.h>

namespace c09
{
    struct Counters
    {
        std::map<std::string, long> n;
        void add(const std::string &k, long v = 1)
        {
            n[k] += v;
        }
        json dump() const
        {
            json j = json::object();
            for (auto &kv : n)
                j[kv.first] = kv.second;
            return j;
        }
    };

    // returns "" or "check-name: detail"
    inline std::string checkShape(const Shape &s, Counters &cnt)
    {
        const ob::StateSpace *sp = s.root.get();
        if (!s.drift.empty())
            return "se-definition: " + s.drift;
        // signature, length, dimension
        std::vector<int> sig;
        sp->computeSignature(sig);
        if (sig != s.sig)
            return "computeSignature: real " + json(sig).dump() + " model " + json(s.sig).dump();
        if ((int)sp->getSerializationLength() != s.len)
            return "getSerializationLength: real " + std::to_string(sp->getSerializationLength()) + " model " +
                   std::to_string(s.len);
        if ((int)sp->getDimension() != s.dim)
            return "getDimension: real " + std::to_string(sp->getDimension()) + " model " + std::to_string(s.dim);
        cnt.add("signature_checks");

        const Values v1 = expected(s, 1), v2 = expected(s, 2);
        if (!distinctSentinels(v1))
            throw FrameworkFailure("sentinels collide for " + s.id);
        Holder a(s.root), b(s.root);
        fill(s, a.st, 1);
        if (project(s, a.st) != v1)
            throw FrameworkFailure("projection does not read back what it wrote for " + s.id);

        // serialize: whole image against the model's layout, double by double
        const std::string img = serializeState(sp, a.st);
        if (img == "GUARD")
            return "serialize-overrun: bytes outside [0, length) written";
        const std::string want = imageOf(s, v1);
        for (const NodeInfo *n : s.leaves())
        {
            const int step = n->k == "D" ? 4 : 8, cnt2 = n->k == "D" ? 1 : n->nv;
            for (int i = 0; i < cnt2; ++i)
                if (memcmp(&img[n->off + step * i], &want[n->off + step * i], step) != 0)
                    return "serialize-offset: component " + n->name + " at " + pathKey(n->path) + " value " +
                           std::to_string(i) + " not found at byte " + std::to_string(n->off + step * i);
            cnt.add("leaf_images_compared");
        }
        if (img != want)
            return "serialize-image: image differs from the model layout";
        // every component's own image sits at its running offset
        for (const NodeInfo &n : s.nodes)
        {
            const ob::StateSpace *sub = subspace(s, n.path);
            if ((int)sub->getSerializationLength() != n.len)
                return "component-length: " + n.name + " real " + std::to_string(sub->getSerializationLength()) +
                       " model " + std::to_string(n.len);
            const std::string part = serializeState(sub, substate(s, a.st, n.path));
            if (part != img.substr(n.off, n.len))
                return "component-offset: image of " + n.name + " is not at offset " + std::to_string(n.off);
            cnt.add("component_offsets_compared");
        }

        // value order
        std::vector<double> reals;
        sp->copyToReals(reals, a.st);
        if ((int)reals.size() != s.nvals)
            return "copyToReals-count: real " + std::to_string(reals.size()) + " model " + std::to_string(s.nvals);
        if (s.nvals && memcmp(reals.data(), v1.d.data(), s.nvals * 8) != 0)
            return "copyToReals-order: values not in the model's depth-first order";
        if ((int)sp->getValueLocations().size() != s.nvals)
            return "getValueLocations-count";
        for (int m = 0; m < s.nvals; ++m)
        {
            const double *p = sp->getValueAddressAtLocation(a.st, sp->getValueLocations()[m]);
            const auto &vo = s.vorder[m];
            const NodeInfo *leaf = s.nodeAt(vo.first);
            if (!leaf || p != leafDouble(*leaf, substate(s, a.st, vo.first), vo.second))
                return "getValueLocations-order: location " + std::to_string(m) + " is not " + pathKey(vo.first) + "[" +
                       std::to_string(vo.second) + "]";
            const double *q = sp->getValueAddressAtIndex(a.st, m);
            if (q != p)
                return "getValueAddressAtIndex: index " + std::to_string(m);
        }
        if (sp->getValueAddressAtIndex(a.st, s.nvals) != nullptr)
            return "getValueAddressAtIndex: index past the end is not null";
        cnt.add("value_orders_compared");

        // copyState / cloneState
        fill(s, b.st, 2);
        sp->copyState(b.st, a.st);
        if (project(s, b.st) != v1)
            return "copyState: copy differs: " + project(s, b.st).str();
        if (!sp->equalStates(a.st, b.st))
            return "copyState: equalStates(original, copy) is false";
        if (project(s, a.st) != v1)
            return "copyState: source modified";
        {
            ob::State *c = sp->cloneState(a.st);
            const bool same = project(s, c) == v1 && sp->equalStates(a.st, c);
            sp->freeState(c);
            if (!same)
                return "cloneState: clone differs";
        }
        // deserialize(serialize(x)) and deserialize of the image the model prescribes
        fill(s, b.st, 2);
        sp->deserialize(b.st, img.data());
        if (project(s, b.st) != v1)
            return "deserialize: round trip differs: " + project(s, b.st).str() + " want " + v1.str();
        if (!sp->equalStates(a.st, b.st))
            return "deserialize: equalStates false after round trip";
        {
            const std::string img2 = imageOf(s, v2);
            sp->deserialize(b.st, img2.data());
            if (project(s, b.st) != v2)
                return "deserialize-offset: state read from the model's image differs";
            if (serializeState(sp, b.st) != img2)
                return "serialize-image: second image differs";
        }
        // reals round trip: the doubles come back; discrete components are not part of the vector
        fill(s, b.st, 2);
        sp->copyFromReals(b.st, reals);
        {
            Values got = project(s, b.st), wantv = v1;
            wantv.z = v2.z;
            if (got != wantv)
                return "copyFromReals: " + got.str() + " want " + wantv.str();
            if (v1.z.empty() && !sp->equalStates(a.st, b.st))
                return "copyFromReals: equalStates false";
        }
        // equality discriminates
        if (s.len > 0)
        {
            fill(s, b.st, 2);
            if (v1 != v2 && sp->equalStates(a.st, b.st))
                return "equalStates: different states reported equal";
        }
        cnt.add("copy_roundtrips");

        // ScopedState
        {
            ob::ScopedState<> x(s.root), y(s.root);
            x = a.st;
            if (project(s, x.get()) != v1)
                return "ScopedState-assign: operator=(State*)";
            fill(s, y.get(), 2);
            y = x;
            if (project(s, y.get()) != v1 || !(x == y))
                return "ScopedState-assign: operator=(ScopedState)";
            ob::ScopedState<> z(x);
            if (project(s, z.get()) != v1)
                return "ScopedState-copy: copy constructor";
            ob::ScopedState<> w(s.root, a.st);
            if (project(s, w.get()) != v1)
                return "ScopedState-copy: (space, state) constructor";
            std::vector<double> r = x.reals();
            if ((int)r.size() != s.nvals || (s.nvals && memcmp(r.data(), v1.d.data(), s.nvals * 8) != 0))
                return "ScopedState-reals: not the model's value order";
            fill(s, y.get(), 2);
            y = r;
            Values wantv = v1;
            wantv.z = v2.z;
            if (project(s, y.get()) != wantv)
                return "ScopedState-assign: operator=(vector<double>)";
            for (int m = 0; m < s.nvals; ++m)
                if (memcmp(&x[(unsigned int)m], &v1.d[m], 8) != 0)
                    return "ScopedState-index: operator[]";
            cnt.add("scoped_state_checks");
        }
        // wrapper delegation: the wrapper answers exactly as the wrapped space
        if (s.wrapped)
        {
            const ob::StateSpace *in = s.inner.get();
            std::vector<int> sig2;
            in->computeSignature(sig2);
            if (sig2 != sig || in->getSerializationLength() != sp->getSerializationLength() ||
                in->getDimension() != sp->getDimension() || in->isCompound() != sp->isCompound())
                return "wrapper-delegation: signature / length / dimension differ from the wrapped space";
            if (serializeState(in, unwrap(s, a.st)) != img)
                return "wrapper-delegation: serialize differs from the wrapped space";
            std::vector<double> r2;
            in->copyToReals(r2, unwrap(s, a.st));
            if (r2 != reals)
                return "wrapper-delegation: copyToReals differs";
            cnt.add("wrapper_checks");
        }
        return "";
    }

    // ------------------------------------------------------------------ partial copies
    inline std::string checkPair(const json &row, const Shape &dst, const Shape &src, Counters &cnt)
    {
        const Values vd = expected(dst, 1), vs = expected(src, 2);
        // what the destination must hold afterwards
        Values want = vd;
        {
            std::map<std::string, int> dstOrd, srcOrd;
            int o = 0;
            for (const NodeInfo *n : dst.leaves())
                if (n->k == "D")
                    dstOrd[pathKey(n->path)] = o++;
            o = 0;
            for (const NodeInfo *n : src.leaves())
                if (n->k == "D")
                    srcOrd[pathKey(n->path)] = o++;
            for (auto &x : row["xfer"])
            {
                const NodeInfo *to = dst.nodeAt(x["to"].get<std::vector<int>>());
                const NodeInfo *from = src.nodeAt(x["from"].get<std::vector<int>>());
                if (!to || !from || to->k != from->k || to->nv != from->nv)
                    throw FrameworkFailure("pair row names unknown or mismatched leaves");
                if (to->k == "D")
                    want.z[dstOrd[pathKey(to->path)]] = vs.z[srcOrd[pathKey(from->path)]];
                else
                    for (int i = 0; i < to->nv; ++i)
                        want.d[to->v0 + i] = vs.d[from->v0 + i];
            }
        }
        const int wantRet = row["ret"].get<int>();
        // copyStateData
        {
            Holder d(dst.root), s(src.root);
            fill(dst, d.st, 1);
            fill(src, s.st, 2);
            int ret = (int)ob::copyStateData(dst.root, d.st, src.root, s.st);
            if (project(dst, d.st) != want)
                return "copyStateData-data: destination holds " + project(dst, d.st).str() + " want " + want.str();
            if (project(src, s.st) != vs)
                return "copyStateData-data: source modified";
            if (ret != wantRet)
                return "copyStateData-result: returned " + std::to_string(ret) + " model " + std::to_string(wantRet);
        }
        // the named variant with what getCommonSubspaces reports
        {
            std::vector<std::string> common;
            dst.root->getCommonSubspaces(src.root, common);
            // any list of common subspaces that do not contain each other and together reach every
            // destination component the model transfers is a correct answer
            std::set<std::string> allCommon;
            for (auto &x : row["allcommon"])
                allCommon.insert(x.get<std::string>());
            std::set<std::string> reached, wantReached;
            for (auto &nm : common)
            {
                if (!allCommon.count(nm))
                    return "getCommonSubspaces: lists " + nm + " which the spaces do not share";
                for (const NodeInfo &n : dst.nodes)
                    if (n.name == nm)
                        for (const NodeInfo *lf : dst.leaves())
                            if (lf->path.size() >= n.path.size() && std::equal(n.path.begin(), n.path.end(), lf->path.begin()))
                                reached.insert(pathKey(lf->path));
            }
            for (auto &x : row["xfer"])
                wantReached.insert(pathKey(x["to"].get<std::vector<int>>()));
            if (reached != wantReached)
                return "getCommonSubspaces: real " + json(common).dump() + " does not reach the components the model transfers " +
                       row["common"].dump();
            Holder d(dst.root), s(src.root);
            fill(dst, d.st, 1);
            fill(src, s.st, 2);
            ob::copyStateData(dst.root, d.st, src.root, s.st, common);
            if (project(dst, d.st) != want)
                return "copyStateData-subspaces: destination differs";
        }
        // ScopedState operator<< and operator>>
        {
            ob::ScopedState<> d(dst.root), s(src.root);
            fill(dst, d.get(), 1);
            fill(src, s.get(), 2);
            d << s;
            if (project(dst, d.get()) != want)
                return "ScopedState-shift: operator<<";
            fill(dst, d.get(), 1);
            s >> d;
            if (project(dst, d.get()) != want)
                return "ScopedState-shift: operator>>";
            if (wantRet == 2 && src.len > 0)
            {
                // everything of the source found a place: extracting it again gives the source back
                ob::ScopedState<> back(src.root);
                fill(src, back.get(), 3);
                back << d;
                if (project(src, back.get()) != vs)
                    return "ScopedState-shift: round trip through the covering space";
            }
        }
        cnt.add("pairs_copied");
        cnt.add("pairs_ret" + std::to_string(wantRet));
        if (!row["xfer"].empty())
            cnt.add("pairs_with_transfer");
        return "";
    }

    // ------------------------------------------------------------------ StateStorage
    struct Regions  // byte ranges of the archive fields: name, begin, end
    {
        std::vector<std::tuple<std::string, std::size_t, std::size_t>> r;
        void add(const std::string &n, std::size_t b, std::size_t e)
        {
            r.emplace_back(n, b, e);
        }
        // the first incomplete field when only k bytes are kept, and whether part of it is present
        std::pair<std::string, bool> classify(std::size_t k) const
        {
            for (auto &x : r)
                if (std::get<1>(x) <= k && k < std::get<2>(x))
                    return {std::get<0>(x), k > std::get<1>(x)};
            return {"?", false};
        }
    };
    inline std::size_t findMarker(const std::string &bytes, std::uint32_t marker)
    {
        std::string m((const char *)&marker, 4);
        std::size_t p = bytes.find(m);
        if (p == std::string::npos || bytes.find(m, p + 1) != std::string::npos)
            throw FrameworkFailure("archive marker not found exactly once");
        return p;
    }

    struct FaultTable  // outcome required by Storage.tla per (kind, fault, field, partial, samesig)
    {
        std::map<std::string, std::string> expect;
        std::map<std::string, long> hits;
        explicit FaultTable(const std::string &path)
        {
            for (auto &j : vt::readNdjson(path))
                expect[key(j["kind"], j["fault"], j["field"], j["partial"], j["samesig"])] = j["expect"].get<std::string>();
        }
        static std::string key(const std::string &kind, const std::string &fault, const std::string &field, bool partial,
                               bool samesig)
        {
            return kind + "|" + fault + "|" + field + "|" + (partial ? "mid" : "start") + "|" + (samesig ? "same" : "diff");
        }
        const std::string &lookup(const std::string &kind, const std::string &fault, const std::string &field, bool partial,
                                  bool samesig)
        {
            const std::string k = key(kind, fault, field, partial, samesig);
            auto it = expect.find(k);
            if (it == expect.end())
                throw FrameworkFailure("Storage.tla has no scenario for " + k);
            ++hits[k];
            return it->second;
        }
        json dump() const
        {
            json j = json::object();
            for (auto &kv : hits)
                j[kv.first] = kv.second;
            return j;
        }
    };

    static const std::uint32_t MARKER_SS = 0x4C504D4F, MARKER_PD = 0x5044414D, MARKER_PDC = 0x5044434D;

    inline std::string storeStates(const Shape &s, int n)
    {
        ob::StateStorage st(s.root);
        Holder h(s.root);
        for (int i = 0; i < n; ++i)
        {
            fill(s, h.st, 10 + i);
            st.addState(h.st);
        }
        std::ostringstream out;
        capture().reset();
        st.store(out);
        if (capture().reported())
            return "";
        return out.str();
    }

    // others: the shapes to load into (all of them for this shard's source shapes)
    inline std::string checkStateStorage(const Shape &s, const std::vector<std::shared_ptr<Shape>> &all, FaultTable &tab,
                                         Counters &cnt, bool crossAll, vt::Rng &rng)
    {
        const int N = 3;
        const std::string bytes = storeStates(s, N), empty = storeStates(s, 0);
        if (bytes.empty() || empty.empty())
            return "ss-store: store() reported an error";
        // field boundaries: the header is the archive of an empty storage, the items have fixed length
        if (bytes.size() != empty.size() + (std::size_t)N * s.len)
            return "ss-length: archive of " + std::to_string(N) + " states has " + std::to_string(bytes.size()) +
                   " bytes, header " + std::to_string(empty.size()) + " + " + std::to_string(N) + " x model length " +
                   std::to_string(s.len);
        Regions reg;
        const std::size_t m = findMarker(bytes, MARKER_SS), H = empty.size();
        reg.add("hdr", 0, m);
        reg.add("marker", m, m + 8);
        reg.add("counts", m + 8, m + 16);
        reg.add("sig", m + 16, H);
        for (int i = 0; i < N; ++i)
            if (s.len > 0)
                reg.add("item1", H + (std::size_t)i * s.len, H + (std::size_t)(i + 1) * s.len);
        std::vector<std::string> images;
        for (int i = 0; i < N; ++i)
            images.push_back(imageOf(s, expected(s, 10 + i)));
        for (int i = 0; i < N; ++i)
            if (bytes.substr(H + (std::size_t)i * s.len, s.len) != images[i])
                return "ss-item-image: state " + std::to_string(i) + " is not stored as the model's image";

        auto loadInto = [&](const Shape &t, const std::string &data, std::size_t &size, std::vector<std::string> &got) {
            ob::StateStorage st(t.root);
            std::istringstream in(data);
            capture().reset();
            st.load(in);
            size = st.size();
            got.clear();
            for (std::size_t i = 0; i < st.size(); ++i)
                got.push_back(serializeState(t.root.get(), st.getState((unsigned int)i)));
        };
        std::size_t size;
        std::vector<std::string> got;
        // (i) round trip
        tab.lookup("SS", "none", "", false, true);
        loadInto(s, bytes, size, got);
        if (capture().reported() || size != (std::size_t)N)
            return "ss-roundtrip: load of the intact archive gives " + std::to_string(size) + " states, " +
                   std::to_string(capture().reported()) + " messages";
        for (int i = 0; i < N; ++i)
            if (got[i] != images[i])
                return "ss-roundtrip: state " + std::to_string(i) + " differs after load";
        cnt.add("ss_roundtrips");
        // (ii) every truncation
        for (std::size_t k = 0; k < bytes.size(); ++k)
        {
            auto cls = reg.classify(k);
            if (tab.lookup("SS", "truncate", cls.first, cls.second, true) != "Reject")
                throw FrameworkFailure("table expects acceptance of a truncation");
            loadInto(s, bytes.substr(0, k), size, got);
            if (!capture().reported())
                return "ss-truncation-silent: prefix of " + std::to_string(k) + " of " + std::to_string(bytes.size()) +
                       " bytes (cut in " + cls.first + ") loaded without error or warning, size " + std::to_string(size);
            if (size >= (std::size_t)N)
                return "ss-truncation-fullsize: prefix of " + std::to_string(k) + " bytes gives all " +
                       std::to_string(size) + " states";
            for (std::size_t i = 0; i < size; ++i)
                if (got[i] != images[i])
                    return "ss-truncation-prefix: state " + std::to_string(i) + " loaded from a prefix differs";
            cnt.add("ss_truncations");
            cnt.add("ss_trunc_" + cls.first + (cls.second ? "_mid" : "_start"));
        }
        // wrong marker (bytes patched in place)
        {
            std::string bad = bytes;
            bad[m] ^= 0x5A;
            tab.lookup("SS", "marker", "marker", false, true);
            loadInto(s, bad, size, got);
            if (!capture().reported() || size != 0)
                return "ss-wrong-marker: size " + std::to_string(size) + ", " + std::to_string(capture().reported()) +
                       " messages";
            cnt.add("ss_wrong_marker");
        }
        // (iii) other spaces
        for (auto &tp : all)
        {
            const Shape &t = *tp;
            if (&t == &s)
                continue;
            const bool same = t.sig == s.sig;
            if (!crossAll && !same && rng.below(16) != 0)
                continue;
            const std::string &exp = tab.lookup("SS", "space", "sig", false, same);
            loadInto(t, bytes, size, got);
            if (same)
            {
                if (exp != "Accept")
                    throw FrameworkFailure("table rejects an equal signature");
                if (capture().reported() || size != (std::size_t)N)
                    return "ss-same-signature: archive of " + s.id + " not accepted by " + t.id;
                for (int i = 0; i < N; ++i)
                    if (got[i] != images[i])
                        return "ss-same-signature: state image differs when loaded into " + t.id;
                cnt.add("ss_same_signature_accepted");
            }
            else
            {
                if (exp != "Reject")
                    throw FrameworkFailure("table accepts a different signature");
                if (!capture().reported() || size != 0)
                    return "ss-other-signature: archive of " + s.id + " loaded into " + t.id + ": size " +
                           std::to_string(size) + ", " + std::to_string(capture().reported()) + " messages";
                cnt.add("ss_other_signature_rejected");
            }
        }
        return "";
    }
}
