// C15 harness: binds specs/samplers/InformedLoops.tla (spec -> impl: replay of TLC-enumerated answer
// scripts; impl -> spec: recorded attempt sequences validated by InformedLoopsTrace), the counting model
// specs/samplers/MultiFocus.tla (seeded long runs, binned, judged with integer bounds) and the contract
// specs/samplers/InformedContract.tla (impl -> spec: recorded observations) to the real informed samplers.
//
//   informed replay <rows.ndjson> <trace.ndjson> <calls.ndjson>
//        every script exported by InformedLoops is served to the real RejectionInfSampler /
//        PathLengthDirectInfSampler / OrderedInfSampler through user code only: this file's state space
//        (bounds test, measure, default sampler) and start/goal geometry.  Where the answers come from the
//        sampler's private random source (PHS branch with several PHSs, lower bound) the attempt sequence
//        is recorded instead (calls.ndjson) for InformedLoopsTrace.
//   informed record <trace.ndjson> <tier> [jobs]
//        Sample / Surface / Measure / InPhs / Hist observations of the real classes, one forked child per
//        job with ompl::RNG::setSeed(mix(VERIF_SEED, job)) before anything else (reproducible alone)
//   informed one <tier> <job>
//        one job of `record` in this process, events printed
//   informed list <tier>
//
// Verdicts are TLC's (InformedContractTrace over the logged observations); FAIL / DRIFT lines only describe.
// Everything the contract is told about a sample is computed here, independently of the library: bound test,
// focal sums in long double, analytic volumes from the unit-ball recurrence, bin areas by interval quadrature.
#include "vtrace.h"

#include "ompl/base/OptimizationObjective.h"
#include "ompl/base/ProblemDefinition.h"
#include "ompl/base/ScopedState.h"
#include "ompl/base/SpaceInformation.h"
#include "ompl/base/StateSampler.h"
#include "ompl/base/goals/GoalState.h"
#include "ompl/base/goals/GoalStates.h"
#include "ompl/base/objectives/PathLengthOptimizationObjective.h"
#include "ompl/base/samplers/InformedStateSampler.h"
#include "ompl/base/samplers/informed/OrderedInfSampler.h"
#include "ompl/base/samplers/informed/PathLengthDirectInfSampler.h"
#include "ompl/base/samplers/informed/RejectionInfSampler.h"
#include "ompl/base/spaces/RealVectorStateSpace.h"
#include "ompl/base/spaces/SE2StateSpace.h"
#include "ompl/base/spaces/SE3StateSpace.h"
#include "ompl/util/Console.h"
#include "ompl/util/Exception.h"
#include "ompl/util/GeometricEquations.h"
#include "ompl/util/ProlateHyperspheroid.h"
#include "ompl/util/RandomNumbers.h"

#include <algorithm>
#include <cmath>
#include <deque>
#include <limits>
#include <set>
#include <sys/wait.h>

namespace ob = ompl::base;
using vt::json;
typedef long double LD;
typedef std::vector<double> Vec;

static const LD PIL = 3.14159265358979323846264338327950288L;
static const double INF = std::numeric_limits<double>::infinity();
static const LD MARGIN = 1e-9L;   // relative margin of every cross-check

[[noreturn]] static void framework(const std::string &what)
{
    fprintf(stderr, "FRAMEWORK: %s\n", what.c_str());
    fflush(stderr);
    _exit(4);
}
static std::string hexd(double v)
{
    char b[64];
    snprintf(b, sizeof b, "%a", v);
    return b;
}
static json hexv(const Vec &v)
{
    json a = json::array();
    for (double x : v)
        a.push_back(hexd(x));
    return a;
}
static unsigned long long mix(unsigned long long a, unsigned long long b)
{
    unsigned long long z = a * 0x9E3779B97F4A7C15ULL + b * 0xBF58476D1CE4E5B9ULL + 0x94D049BB133111EBULL;
    z ^= z >> 31;
    z *= 0xD6E8FEB86659FD93ULL;
    z ^= z >> 29;
    return z;
}

// ------------------------------------------------------------------------------ own geometry (the oracle)
static LD dist(const Vec &a, const Vec &b)
{
    LD s = 0;
    for (size_t i = 0; i < a.size(); ++i)
    {
        LD d = (LD)a[i] - (LD)b[i];
        s += d * d;
    }
    return sqrtl(s);
}
static LD focalSum(const Vec &x, const Vec &f1, const Vec &f2)
{
    return dist(x, f1) + dist(x, f2);
}
static LD unitBall(int n)   // V_n = V_{n-2} * 2 pi / n
{
    LD v = (n % 2 == 0) ? 1.0L : 2.0L;
    for (int k = (n % 2 == 0) ? 2 : 3; k <= n; k += 2)
        v *= 2.0L * PIL / k;
    return v;
}
static LD phsVolume(int n, LD d, LD c)
{
    if (!(c > d))
        return 0;
    LD b = sqrtl((c - d) * (c + d)) / 2.0L;
    LD v = unitBall(n) * c / 2.0L;
    for (int i = 1; i < n; ++i)
        v *= b;
    return v;
}
static LD wrapAngle(LD a)
{
    LD d = fabsl(a);
    while (d > 2 * PIL)
        d -= 2 * PIL;
    return d > PIL ? 2 * PIL - d : d;
}

struct Pose
{
    Vec p;
    double yaw{0};
    double q[4]{0, 0, 0, 1};   // x y z w
};

// A planning problem over R^n / SE(2) / SE(3) with several starts and goals, built from numbers only.
struct World
{
    std::string space{"Rn"};
    int n{2};
    Vec lo, hi;
    std::vector<Pose> starts, goals;
    ob::StateSpacePtr sp;
    ob::SpaceInformationPtr si;
    ob::ProblemDefinitionPtr pd;
    ob::OptimizationObjectivePtr opt;
    double goalThreshold{0};

    void write(ob::State *s, const Pose &p) const
    {
        if (space == "Rn")
            for (int i = 0; i < n; ++i)
                s->as<ob::RealVectorStateSpace::StateType>()->values[i] = p.p[i];
        else if (space == "SE2")
        {
            s->as<ob::SE2StateSpace::StateType>()->setXY(p.p[0], p.p[1]);
            s->as<ob::SE2StateSpace::StateType>()->setYaw(p.yaw);
        }
        else
        {
            auto *t = s->as<ob::SE3StateSpace::StateType>();
            t->setXYZ(p.p[0], p.p[1], p.p[2]);
            t->rotation().x = p.q[0];
            t->rotation().y = p.q[1];
            t->rotation().z = p.q[2];
            t->rotation().w = p.q[3];
        }
    }
    Pose read(const ob::State *s) const
    {
        Pose p;
        p.p.resize(n);
        if (space == "Rn")
            for (int i = 0; i < n; ++i)
                p.p[i] = s->as<ob::RealVectorStateSpace::StateType>()->values[i];
        else if (space == "SE2")
        {
            p.p[0] = s->as<ob::SE2StateSpace::StateType>()->getX();
            p.p[1] = s->as<ob::SE2StateSpace::StateType>()->getY();
            p.yaw = s->as<ob::SE2StateSpace::StateType>()->getYaw();
        }
        else
        {
            auto *t = s->as<ob::SE3StateSpace::StateType>();
            p.p[0] = t->getX();
            p.p[1] = t->getY();
            p.p[2] = t->getZ();
            p.q[0] = t->rotation().x;
            p.q[1] = t->rotation().y;
            p.q[2] = t->rotation().z;
            p.q[3] = t->rotation().w;
        }
        return p;
    }
    void build(const ob::StateSpacePtr &custom = nullptr)
    {
        ob::RealVectorBounds b(n);
        for (int i = 0; i < n; ++i)
        {
            b.setLow(i, lo[i]);
            b.setHigh(i, hi[i]);
        }
        if (custom)
        {
            sp = custom;
            sp->as<ob::RealVectorStateSpace>()->setBounds(b);
        }
        else if (space == "Rn")
        {
            auto r = std::make_shared<ob::RealVectorStateSpace>(n);
            r->setBounds(b);
            sp = r;
        }
        else if (space == "SE2")
        {
            auto r = std::make_shared<ob::SE2StateSpace>();
            r->setBounds(b);
            sp = r;
        }
        else
        {
            auto r = std::make_shared<ob::SE3StateSpace>();
            r->setBounds(b);
            sp = r;
        }
        si = std::make_shared<ob::SpaceInformation>(sp);
        si->setup();
        pd = std::make_shared<ob::ProblemDefinition>(si);
        for (auto &s : starts)
        {
            ob::State *st = sp->allocState();
            write(st, s);
            pd->addStartState(st);
            sp->freeState(st);
        }
        if (goals.size() == 1)
        {
            auto g = std::make_shared<ob::GoalState>(si);
            ob::State *st = sp->allocState();
            write(st, goals[0]);
            g->setState(st);
            sp->freeState(st);
            goalThreshold = g->getThreshold();
            pd->setGoal(g);
        }
        else
        {
            auto g = std::make_shared<ob::GoalStates>(si);
            for (auto &p : goals)
            {
                ob::State *st = sp->allocState();
                write(st, p);
                g->addState(st);
                sp->freeState(st);
            }
            goalThreshold = g->getThreshold();
            pd->setGoal(g);
        }
        opt = std::make_shared<ob::PathLengthOptimizationObjective>(si);
        pd->setOptimizationObjective(opt);
    }
    // "within the space bounds" as the spaces define it: every position coordinate in [low, high] up to the
    // machine epsilon RealVectorStateSpace allows, yaw in [-pi, pi], unit quaternion to 1e-9
    bool inBounds(const Pose &p) const
    {
        const double eps = std::numeric_limits<double>::epsilon();
        for (int i = 0; i < n; ++i)
            if (!(p.p[i] - eps <= hi[i] && p.p[i] + eps >= lo[i]))
                return false;
        if (space == "SE2" && !(p.yaw >= -(double)PIL - eps && p.yaw <= (double)PIL + eps))
            return false;
        if (space == "SE3")
        {
            LD nn = sqrtl((LD)p.q[0] * p.q[0] + (LD)p.q[1] * p.q[1] + (LD)p.q[2] * p.q[2] + (LD)p.q[3] * p.q[3]);
            if (fabsl(nn - 1) > 1e-9L)
                return false;
        }
        return true;
    }
    // heuristic solution cost of the direct sampler: best summed focal distance of the position part
    LD costFocal(const Pose &x) const
    {
        LD best = INFINITY;
        for (auto &s : starts)
            for (auto &g : goals)
                best = std::min(best, focalSum(x.p, s.p, g.p));
        return best;
    }
    LD poseDist(const Pose &a, const Pose &b) const
    {
        LD d = dist(a.p, b.p);
        if (space == "SE2")
            d += 0.5L * wrapAngle((LD)a.yaw - (LD)b.yaw);
        if (space == "SE3")
        {
            LD dq = fabsl((LD)a.q[0] * b.q[0] + (LD)a.q[1] * b.q[1] + (LD)a.q[2] * b.q[2] + (LD)a.q[3] * b.q[3]);
            d += dq > 1 - 1e-9L ? 0.0L : acosl(dq);
        }
        return d;
    }
    // heuristic solution cost of InformedSampler (rejection / ordered): distance from the best start plus the
    // goal region's cost-to-go, over the full state space distance
    LD costGeneric(const Pose &x) const
    {
        LD tog = INFINITY;
        for (auto &g : goals)
            tog = std::min(tog, poseDist(x, g));
        tog = std::max(tog - (LD)goalThreshold, (LD)0);
        LD best = INFINITY;
        for (auto &s : starts)
            best = std::min(best, poseDist(s, x) + tog);
        return best;
    }
    LD minFocal() const
    {
        LD best = INFINITY;
        for (auto &s : starts)
            for (auto &g : goals)
                best = std::min(best, dist(s.p, g.p));
        return best;
    }
    LD maxAbsCoord() const
    {
        LD m = 0;
        for (auto &s : starts)
            for (double v : s.p)
                m = std::max(m, fabsl((LD)v));
        for (auto &g : goals)
            for (double v : g.p)
                m = std::max(m, fabsl((LD)v));
        return m;
    }
    json describe() const
    {
        json j{{"space", space}, {"n", n}, {"lo", hexv(lo)}, {"hi", hexv(hi)}};
        j["starts"] = json::array();
        j["goals"] = json::array();
        for (auto &s : starts)
            j["starts"].push_back(hexv(s.p));
        for (auto &g : goals)
            j["goals"].push_back(hexv(g.p));
        return j;
    }
};

struct Made
{
    ob::InformedSamplerPtr inf;          // what sampleUniform(state, cost) is called on
    ob::InformedSamplerPtr costSource;   // whose heuristicSolnCost is "the cost the sampler reports"
    std::shared_ptr<ob::InformedStateSampler> wrapper;
    bool directCost{true};               // the reported cost is the focal sum (direct) or the generic heuristic
    double wrapperCost{INF};
};
static Made makeSampler(World &w, const std::string &kind, unsigned N, unsigned batch = 7)
{
    Made m;
    if (kind == "direct" || kind == "direct-raised")
    {
        m.inf = w.opt->allocInformedStateSampler(w.pd, N);
        if (!dynamic_cast<ob::PathLengthDirectInfSampler *>(m.inf.get()))
            framework("PathLengthOptimizationObjective did not allocate the direct sampler");
    }
    else if (kind == "directctor")
        m.inf = std::make_shared<ob::PathLengthDirectInfSampler>(w.pd, N);
    else if (kind == "rejection")
    {
        m.inf = std::make_shared<ob::RejectionInfSampler>(w.pd, N);
        m.directCost = false;
    }
    else if (kind == "ordered")
    {
        m.inf = std::make_shared<ob::OrderedInfSampler>(w.opt->allocInformedStateSampler(w.pd, N), batch);
        m.directCost = false;   // OrderedInfSampler ranks by the generic heuristic of InformedSampler
    }
    else if (kind == "orderedrej")
    {
        m.inf = std::make_shared<ob::OrderedInfSampler>(std::make_shared<ob::RejectionInfSampler>(w.pd, N), batch);
        m.directCost = false;
    }
    else
        framework("unknown sampler kind " + kind);
    if (!m.costSource)
        m.costSource = m.inf;
    if (kind == "direct-raised")
    {
        // history: one earlier call on the same sampler with a bound just above the smallest focal distance
        ob::State *st = w.sp->allocState();
        m.inf->sampleUniform(st, ob::Cost((double)(w.minFocal() * (1 + 1e-3L))));
        w.sp->freeState(st);
    }
    return m;
}

// ------------------------------------------------------------------------------ problem generators
static Vec randomDirection(vt::Rng &r, int n)
{
    Vec v(n);
    LD s = 0;
    do
    {
        s = 0;
        for (int i = 0; i < n; ++i)
        {
            v[i] = 2 * r.unit() - 1;
            s += (LD)v[i] * v[i];
        }
    } while (s < 1e-3 || s > 1);
    for (int i = 0; i < n; ++i)
        v[i] = (double)(v[i] / sqrtl(s));
    return v;
}
static void randomRotation(vt::Rng &r, Pose &p)
{
    p.yaw = (2 * r.unit() - 1) * 3.1;
    Vec q = randomDirection(r, 4);
    for (int i = 0; i < 4; ++i)
        p.q[i] = q[i];
}
// one start/goal pair with focal distance d in direction class dir (0: +e1, 1: -e1, 2: general, 3: e_n),
// centred at `off` times the direction (1,1,..)/sqrt(n)
static void makePair(vt::Rng &r, int n, double d, int dir, double off, Pose &s, Pose &g)
{
    Vec a(n, 0.0);
    if (dir == 0)
        a[0] = 1;
    else if (dir == 1)
        a[0] = -1;
    else if (dir == 3)
        a[n - 1] = 1;
    else
        a = randomDirection(r, n);
    s.p.assign(n, 0.0);
    g.p.assign(n, 0.0);
    for (int i = 0; i < n; ++i)
    {
        double c = off / std::sqrt((double)n);
        s.p[i] = c - 0.5 * d * a[i];
        g.p[i] = c + 0.5 * d * a[i];
    }
    randomRotation(r, s);
    randomRotation(r, g);
}
// bounds classes relative to the PHS of cost c around the pairs of w (c finite) - see the file header
static void setBounds(World &w, const std::string &kind, double c)
{
    int n = w.n;
    Vec mn(n, INF), mx(n, -INF), ctr(n, 0.0);
    for (auto *l : {&w.starts, &w.goals})
        for (auto &p : *l)
            for (int i = 0; i < n; ++i)
            {
                mn[i] = std::min(mn[i], p.p[i]);
                mx[i] = std::max(mx[i], p.p[i]);
            }
    LD d = w.minFocal();
    double b = std::isfinite(c) && (LD)c > d ? (double)(sqrtl(((LD)c - d) * ((LD)c + d)) / 2) : 1.0;
    if (!(b > 1e-3 * (double)d))
        b = std::max(b, 1e-3 * (double)d);   // bounds never closer to the foci than a thousandth of their distance
    w.lo.assign(n, 0.0);
    w.hi.assign(n, 0.0);
    for (int i = 0; i < n; ++i)
    {
        ctr[i] = 0.5 * (mn[i] + mx[i]);
        if (kind == "inside")   // the informed set is far inside the bounds
        {
            w.lo[i] = mn[i] - 2 * c;
            w.hi[i] = mx[i] + 2 * c;
        }
        else if (kind == "slab")   // larger than the informed set, but one face cuts it
        {
            w.lo[i] = i == n - 1 ? mn[i] - 0.2 * b : mn[i] - 2 * c;
            w.hi[i] = mx[i] + 2 * c;
        }
        else if (kind == "cut")   // tight around the foci: cuts the informed set on every side
        {
            w.lo[i] = mn[i] - 0.1 * b;
            w.hi[i] = mx[i] + 0.3 * b;
        }
        else if (kind == "strip")   // smaller than a PHS but sticking out of the informed set along the first axis
        {
            w.lo[i] = i == 0 ? mn[i] - 3 * b : ctr[i] - 0.15 * b;
            w.hi[i] = i == 0 ? mx[i] + 3 * b : ctr[i] + 0.10 * b;
        }
        else   // "fixed": a box around the foci that does not know the cost
        {
            double m = std::max((double)d, 1e-9);
            w.lo[i] = mn[i] - m;
            w.hi[i] = mx[i] + 2 * m;
        }
    }
}

// ------------------------------------------------------------------------------ Sample observations
struct SampleBatch
{
    json ret = json::array(), inb = json::array(), lt = json::array(), ge = json::array(), xlt = json::array(),
         xge = json::array(), agree = json::array(), att = json::array(), nmax = json::array();
    json firstBad;
    long n{0}, succ{0}, fails{0};
};
// one observed call: what the contract is told about it
static void observe(SampleBatch &b, const World &w, bool ret, const ob::State *st, double reported, bool directCost,
                    double minC, double maxC, bool hasMin, int forcedInb = -1, const json &ctx = json(), long attempts = -1,
                    long nMax = 0)
{
    if (attempts >= 0)
    {
        b.att.push_back(attempts);
        b.nmax.push_back(nMax);
    }
    Pose p = w.read(st);
    bool inb = forcedInb >= 0 ? forcedInb == 1 : w.inBounds(p);
    LD own = directCost ? w.costFocal(p) : w.costGeneric(p);
    bool lt = reported < maxC;                       // exactly as stated, on the sampler's own number
    bool ge = !hasMin || reported >= minC;
    bool xlt = !std::isfinite(maxC) || own < (LD)maxC * (1 + MARGIN);
    bool xge = !hasMin || own >= (LD)minC * (1 - MARGIN);
    bool agree = fabsl(own - (LD)reported) <= MARGIN * std::max((LD)1e-300, fabsl(own));
    b.ret.push_back(ret ? 1 : 0);
    b.inb.push_back(inb ? 1 : 0);
    b.lt.push_back(lt ? 1 : 0);
    b.ge.push_back(ge ? 1 : 0);
    b.xlt.push_back(xlt ? 1 : 0);
    b.xge.push_back(xge ? 1 : 0);
    b.agree.push_back(!ret || agree ? 1 : 0);
    ++b.n;
    (ret ? b.succ : b.fails)++;
    if (ret && !(inb && lt && ge && xlt && xge && agree) && b.firstBad.is_null())
    {
        b.firstBad = json{{"call", b.n - 1},        {"state", hexv(p.p)},        {"reported_cost", hexd(reported)},
                          {"own_cost", hexd((double)own)}, {"max", hexd(maxC)},  {"min", hexd(minC)},
                          {"inb", inb},             {"lt", lt},                  {"ge", ge},
                          {"xlt", xlt},             {"xge", xge},                {"agree", agree},
                          {"yaw", hexd(p.yaw)},     {"ctx", ctx}};
    }
}
static void emitBatch(vt::Trace &t, SampleBatch &b, json head)
{
    head["e"] = "Sample";
    if (!head.contains("degen"))
        head["degen"] = 0;
    head["succ"] = b.succ;
    head["fails"] = b.fails;
    if (!b.firstBad.is_null())
        head["bad"] = b.firstBad;
    // large batches are written in chunks so that no line grows beyond what TLC parses comfortably
    const size_t CH = 50000, n = b.ret.size();
    bool counted = b.att.size() == n;
    for (size_t from = 0; from < std::max(n, (size_t)1); from += CH)
    {
        size_t to = std::min(n, from + CH);
        auto cut = [&](const json &a) { return json(std::vector<json>(a.begin() + from, a.begin() + to)); };
        json ev = head;
        ev["chunk"] = from / CH;
        ev["ret"] = cut(b.ret);
        ev["inb"] = cut(b.inb);
        ev["lt"] = cut(b.lt);
        ev["ge"] = cut(b.ge);
        ev["xlt"] = cut(b.xlt);
        ev["xge"] = cut(b.xge);
        ev["agree"] = cut(b.agree);
        ev["att"] = counted ? cut(b.att) : (from == 0 ? b.att : json::array());
        ev["nmax"] = counted ? cut(b.nmax) : (from == 0 ? b.nmax : json::array());
        t.emit(ev);
    }
}

// regime class used in violation keys: "coarse" = the spacing of doubles at the foci is within 1e6 of the
// thickness of the informed set (an informed set with very few representable states across)
static std::string regime(const World &w, double c)
{
    if (!std::isfinite(c))
        return "normal";
    LD d = w.minFocal();
    LD b = sqrtl(((LD)c - d) * ((LD)c + d)) / 2;
    LD ulp = std::numeric_limits<double>::epsilon() * std::max(w.maxAbsCoord(), (LD)c);
    return ulp > 1e-6L * b ? "coarse" : "normal";
}

struct SampleCfg
{
    std::string space, kind, bounds, ov;
    int n, dir, starts, goals;
    double d, off, rel;   // focal distance, centre offset, cost = focal * (1 + rel) (inf allowed) or absolute if rel < 0
    unsigned N;
    int calls;
    bool shrink;          // ordered: the bound shrinks from call to call
    bool exact{false};    // the bound is EXACTLY the focal distance the library computes (measure-zero informed set)
};
static json cfgJson(const SampleCfg &c)
{
    return json{{"space", c.space}, {"kind", c.kind},     {"bounds", c.bounds}, {"ov", c.ov},   {"n", c.n},
                {"dir", c.dir},     {"starts", c.starts}, {"goals", c.goals},   {"d", hexd(c.d)}, {"off", hexd(c.off)},
                {"rel", hexd(c.rel)}, {"N", c.N},         {"calls", c.calls},   {"shrink", c.shrink}, {"degen", c.exact ? 1 : 0}};
}
static void buildWorld(World &w, const SampleCfg &c, vt::Rng &r, double &maxC, double &minC)
{
    w.space = c.space;
    w.n = c.n;
    w.starts.clear();
    w.goals.clear();
    Pose s, g;
    makePair(r, c.n, c.d, c.dir, c.off, s, g);
    w.starts.push_back(s);
    w.goals.push_back(g);
    // further starts / goals: displaced copies at 0.3 .. 1.5 focal distances, so that the PHSs overlap; every
    // start/goal pair stays separated by at least 0.6 d (the property's quantifier: more than the 1e-9 tolerance)
    for (int tries = 0;; ++tries)
    {
        w.starts.resize(1);
        w.goals.resize(1);
        for (int i = 1; i < c.starts; ++i)
        {
            Pose e = s;
            Vec dd = randomDirection(r, c.n);
            for (int k = 0; k < c.n; ++k)
                e.p[k] += (0.3 + 0.6 * i) * c.d * dd[k];
            randomRotation(r, e);
            w.starts.push_back(e);
        }
        for (int i = 1; i < c.goals; ++i)
        {
            Pose e = g;
            Vec dd = randomDirection(r, c.n);
            for (int k = 0; k < c.n; ++k)
                e.p[k] += (0.3 + 0.6 * i) * c.d * dd[k];
            randomRotation(r, e);
            w.goals.push_back(e);
        }
        if (w.minFocal() >= 0.6L * c.d)
            break;
        if (tries > 1000)
            framework("cannot place several starts / goals");
    }
    // the cost bound is placed relative to the LARGEST focal distance for several pairs when rel >= 0.05 (all
    // PHSs alive) and relative to the smallest otherwise (some are pruned)
    LD dmin = w.minFocal(), dmax = 0;
    for (auto &a : w.starts)
        for (auto &b : w.goals)
            dmax = std::max(dmax, dist(a.p, b.p));
    LD base = c.rel >= 0.05 ? dmax : dmin;
    maxC = std::isinf(c.rel) ? INF : (double)(base * (1 + (LD)c.rel));
    if (std::isfinite(maxC) && !((LD)maxC > dmin))
        maxC = std::nextafter((double)dmin, INF) * (1 + 1e-9);
    if (c.exact)
    {
        ompl::ProlateHyperspheroid phs(c.n, &w.starts[0].p[0], &w.goals[0].p[0]);
        maxC = phs.getMinTransverseDiameter();
    }
    minC = std::isfinite(maxC) ? (double)(dmin + 0.6L * ((LD)maxC - dmin)) : (double)(2 * dmin);
    setBounds(w, std::isfinite(maxC) ? c.bounds : "fixed", std::isfinite(maxC) ? maxC : 0);
    w.build();
}

static void jobSamples(vt::Trace &t, const SampleCfg &c, unsigned long long seed)
{
    vt::Rng r(seed);
    World w;
    double maxC, minC;
    buildWorld(w, c, r, maxC, minC);
    bool hasMin = c.ov == "minmax";
    SampleBatch b;
    json head = cfgJson(c);
    head["world"] = w.describe();
    head["max"] = hexd(maxC);
    head["min"] = hexd(minC);
    head["hasmin"] = hasMin ? 1 : 0;
    head["rg"] = regime(w, maxC);
    ob::State *st = w.sp->allocState();
    try
    {
        if (c.kind == "wrapper" || c.kind == "wrapperown")
        {
            // InformedStateSampler as planners use it: no return value, falls back to an uninformed sample when
            // the informed one fails - only used where failing is (2^-N) impossible
            double cur = maxC;
            ob::InformedSamplerPtr own = w.opt->allocInformedStateSampler(w.pd, c.N);
            std::shared_ptr<ob::InformedStateSampler> wr =
                c.kind == "wrapper" ?
                    std::make_shared<ob::InformedStateSampler>(w.pd, c.N, [&cur] { return ob::Cost(cur); }) :
                    std::make_shared<ob::InformedStateSampler>(w.pd, [&cur] { return ob::Cost(cur); }, own);
            for (int i = 0; i < c.calls; ++i)
            {
                if (c.shrink && std::isfinite(maxC))
                    cur = (double)(w.minFocal() + ((LD)maxC - w.minFocal()) * powl(0.97L, i));
                wr->sampleUniform(st);
                observe(b, w, true, st, own->heuristicSolnCost(st).value(), true, minC, cur, false, -1, json{{"cur", hexd(cur)}});
            }
        }
        else
        {
            Made m = makeSampler(w, c.kind, c.N);
            bool ordered = c.kind == "ordered" || c.kind == "orderedrej";
            for (int i = 0; i < c.calls; ++i)
            {
                double cur = maxC;
                if (c.shrink && std::isfinite(maxC))
                    cur = (double)(w.minFocal() + ((LD)maxC - w.minFocal()) * powl(0.97L, i));
                bool ret = hasMin && !ordered ? m.inf->sampleUniform(st, ob::Cost(minC), ob::Cost(cur)) :
                                                m.inf->sampleUniform(st, ob::Cost(cur));
                double rep = ret ? m.costSource->heuristicSolnCost(st).value() : 0.0;
                observe(b, w, ret, st, rep, m.directCost, minC, cur, hasMin && !ordered, -1, json{{"cur", hexd(cur)}});
            }
        }
        emitBatch(t, b, head);
    }
    catch (const std::exception &ex)
    {
        head["e"] = "Threw";
        head["what"] = ex.what();
        t.emit(head);
    }
    w.sp->freeState(st);
}

// ------------------------------------------------------------------------------ Surface / Measure / InPhs
static json capErr(LD rel)
{
    LD v = rel * 1e12L;
    if (!(v == v) || v > 2e9L)
        v = 2e9L;
    return (long long)ceill(v);
}
struct PhsCfg
{
    int n, dir;
    double d, off, rel;
    int points;
};
static json phsJson(const PhsCfg &c)
{
    return json{{"n", c.n}, {"dir", c.dir}, {"d", hexd(c.d)}, {"off", hexd(c.off)}, {"rel", hexd(c.rel)}, {"points", c.points}};
}
// the analytic volume over inputs moved by 4 ulp each way: what a backward-stable evaluation may return
static void volumeRange(int n, double d, double c, LD &vlo, LD &vhi)
{
    const LD u = 4 * std::numeric_limits<double>::epsilon();
    LD c1 = (LD)c * (1 - u), c2 = (LD)c * (1 + u), d1 = (LD)d * (1 + u), d2 = (LD)d * (1 - u);
    vlo = c1 > d1 ? phsVolume(n, d1, c1) : 0;
    vhi = phsVolume(n, d2, c2);
}
static LD outsideRel(LD v, LD lo, LD hi)   // relative distance of v to [lo, hi]
{
    if (!(v == v))
        return 1;
    if (v < lo)
        return (lo - v) / std::max(hi, (LD)1e-4000L);
    if (v > hi)
        return (v - hi) / std::max(hi, (LD)1e-4000L);
    return 0;
}
static void jobPhs(vt::Trace &t, const PhsCfg &c, unsigned long long seed)
{
    vt::Rng r(seed);
    Pose s, g;
    makePair(r, c.n, c.d, c.dir, c.off, s, g);
    json head = phsJson(c);
    head["f1"] = hexv(s.p);
    head["f2"] = hexv(g.p);
    try
    {
        auto phs = std::make_shared<ompl::ProlateHyperspheroid>(c.n, &s.p[0], &g.p[0]);
        double d = phs->getMinTransverseDiameter();
        LD down = dist(s.p, g.p);
        double cost = (double)(down * (1 + (LD)c.rel));
        if (!(cost > d))
            cost = std::nextafter(d, INF);
        phs->setTransverseDiameter(cost);
        head["c"] = hexd(cost);
        ompl::RNG rng;
        // Surface: points of the unit sphere surface map to points whose summed focal distance equals c
        LD scale = std::max((LD)cost, std::max(fabsl((LD)c.off), (LD)0));
        for (double v : s.p)
            scale = std::max(scale, fabsl((LD)v));
        json err = json::array();
        json worst;
        LD worstE = -1;
        Vec x(c.n);
        for (int i = 0; i < c.points; ++i)
        {
            rng.uniformProlateHyperspheroidSurface(phs, &x[0]);
            LD e = fabsl(focalSum(x, s.p, g.p) - (LD)cost) / scale;
            err.push_back(capErr(e));
            if (e > worstE)
            {
                worstE = e;
                worst = json{{"point", hexv(x)}, {"focal_sum", hexd((double)focalSum(x, s.p, g.p))}};
            }
        }
        json ev = head;
        ev["e"] = "Surface";
        ev["err"] = err;
        ev["worst"] = worst;
        ev["dfoci_err"] = capErr(fabsl((LD)d - down) / down);
        t.emit(ev);
        // Measure: the three ways the class reports it against the analytic volume
        LD vlo, vhi;
        volumeRange(c.n, (double)down, cost, vlo, vhi);
        json mv = head;
        mv["e"] = "Measure";
        mv["what"] = "phs";
        mv["err"] = json::array({capErr(outsideRel(phs->getPhsMeasure(), vlo, vhi)),
                                 capErr(outsideRel(phs->getPhsMeasure(cost), vlo, vhi)),
                                 capErr(outsideRel(ompl::prolateHyperspheroidMeasure(c.n, d, cost), vlo, vhi))});
        mv["reported"] = hexd(phs->getPhsMeasure());
        mv["own"] = hexd((double)phsVolume(c.n, down, cost));
        mv["has"] = 1;
        t.emit(mv);
        // InPhs: points constructed on confocal hyperspheroids just inside / outside
        json expIn = json::array(), gotIn = json::array(), gotOn = json::array();
        Vec a(c.n);
        for (int i = 0; i < c.n; ++i)
            a[i] = (double)(((LD)g.p[i] - (LD)s.p[i]) / down);
        const double deltas[] = {-0.5, -1e-3, -1e-6, 1e-6, 1e-3, 0.5};
        json firstBad;
        for (int i = 0; i < c.points; ++i)
        {
            double delta = deltas[i % 6];
            LD cc = (LD)cost * (1 + (LD)delta);
            if (!(cc > down * (1 + 1e-12L)))
                continue;   // no confocal hyperspheroid that thin
            LD aa = cc / 2, bb = sqrtl((cc - down) * (cc + down)) / 2;
            Vec u = randomDirection(r, c.n);
            LD ua = 0;
            for (int k = 0; k < c.n; ++k)
                ua += (LD)u[k] * a[k];
            Vec perp(c.n);
            LD pn = 0;
            for (int k = 0; k < c.n; ++k)
            {
                perp[k] = (double)((LD)u[k] - ua * a[k]);
                pn += (LD)perp[k] * perp[k];
            }
            pn = sqrtl(pn);
            if (pn < 1e-6L)
                continue;
            LD phi = 2 * PIL * r.unit();
            for (int k = 0; k < c.n; ++k)
                x[k] = (double)(0.5L * ((LD)s.p[k] + (LD)g.p[k]) + aa * cosl(phi) * a[k] + bb * sinl(phi) * perp[k] / pn);
            // the constructed point is only used when its own focal sum is clearly on the intended side
            LD f = focalSum(x, s.p, g.p);
            bool in = f < (LD)cost;
            if (fabsl(f - (LD)cost) <= 1e-8L * std::max((LD)cost, scale))
                continue;
            bool gi = phs->isInPhs(&x[0]), go = phs->isOnPhs(&x[0]);
            expIn.push_back(in ? 1 : 0);
            gotIn.push_back(gi ? 1 : 0);
            gotOn.push_back(go ? 1 : 0);
            if ((gi != in || go) && firstBad.is_null())
                firstBad = json{{"point", hexv(x)}, {"focal_sum", hexd((double)f)}, {"isInPhs", gi}, {"isOnPhs", go}};
        }
        json iv = head;
        iv["e"] = "InPhs";
        iv["exp"] = expIn;
        iv["in"] = gotIn;
        iv["on"] = gotOn;
        if (!firstBad.is_null())
            iv["bad"] = firstBad;
        t.emit(iv);
    }
    catch (const std::exception &ex)
    {
        head["e"] = "Threw";
        head["what"] = ex.what();
        t.emit(head);
    }
}

// getInformedMeasure of the samplers: the analytic volume (times the measure of the rotation part), or the
// measure of the whole space when that is smaller / the cost is infinite / no closed form exists (rejection)
static void jobSamplerMeasure(vt::Trace &t, const SampleCfg &c, unsigned long long seed)
{
    vt::Rng r(seed);
    World w;
    double maxC, minC;
    buildWorld(w, c, r, maxC, minC);
    json head = cfgJson(c);
    head["world"] = w.describe();
    head["max"] = hexd(maxC);
    try
    {
        Made m = makeSampler(w, c.kind, c.N);
        double rep = m.inf->getInformedMeasure(ob::Cost(maxC));
        LD spaceM = w.sp->getMeasure();
        LD rot = w.space == "SE2" ? 2 * PIL : w.space == "SE3" ? PIL * PIL : 1;
        LD vlo = 0, vhi = 0;
        bool direct = c.kind == "direct" || c.kind == "directctor" || c.kind == "ordered";
        int alive = 0;
        if (direct && std::isfinite(maxC))
            for (auto &a : w.starts)
                for (auto &b : w.goals)
                {
                    LD lo1, hi1;
                    double d = (double)dist(a.p, b.p);
                    if (maxC > d)
                    {
                        volumeRange(c.n, d, maxC, lo1, hi1);
                        vlo += lo1;
                        vhi += hi1;
                        ++alive;
                    }
                }
        LD lo = direct && std::isfinite(maxC) ? std::min(spaceM, vlo * rot) : spaceM;
        LD hi = direct && std::isfinite(maxC) ? std::min(spaceM, vhi * rot) : spaceM;
        json mv = head;
        mv["e"] = "Measure";
        mv["what"] = "sampler";
        mv["err"] = json::array({capErr(outsideRel(rep, lo, hi))});
        mv["reported"] = hexd(rep);
        mv["own"] = hexd((double)hi);
        mv["space_measure"] = hexd((double)spaceM);
        mv["capped"] = (direct && std::isfinite(maxC) && vhi * rot > spaceM) ? 1 : 0;
        mv["pairs"] = alive;
        mv["has"] = m.inf->hasInformedMeasure() == direct ? 1 : 0;
        // observation, not a verdict: the rotation part enters the informed measure unweighted while the
        // space's own measure applies the subspace weights (SE(2): 0.5)
        if (w.space != "Rn" && std::isfinite(maxC))
        {
            LD frac = (vhi / ([&] {
                           LD v = 1;
                           for (int i = 0; i < w.n; ++i)
                               v *= (LD)w.hi[i] - (LD)w.lo[i];
                           return v;
                       })());
            mv["ratio_over_fraction_permille"] = frac > 0 && vhi * rot < spaceM ? (long long)llroundl(1000 * ((LD)rep / spaceM) / frac) : 0;
        }
        t.emit(mv);
    }
    catch (const std::exception &ex)
    {
        head["e"] = "Threw";
        head["what"] = ex.what();
        t.emit(head);
    }
}

// ------------------------------------------------------------------------------ Hist: uniformity
// Integer facts only: counts per bin, and for every bin an interval [elo, ehi] that contains N times the
// exact probability of the bin under the uniform distribution over the region.
struct HistCfg
{
    std::string name, space, kind, binning;   // binning: "grid" (R^2 / R^3 position grid over the bounds) | "shell"
    int n, starts, goals, dir;
    double d, rel;
    std::string bounds;
    long samples;
    unsigned N;
    int G, sub;   // grid: G bins per axis, sub x sub(x sub) quadrature cells per bin; shell: G shells
};
static json histJson(const HistCfg &c)
{
    return json{{"name", c.name}, {"space", c.space}, {"kind", c.kind}, {"binning", c.binning}, {"n", c.n},
                {"starts", c.starts}, {"goals", c.goals}, {"dir", c.dir}, {"d", hexd(c.d)}, {"rel", hexd(c.rel)},
                {"bounds", c.bounds}, {"samples", c.samples}, {"N", c.N}, {"G", c.G}, {"sub", c.sub}};
}
static void jobHist(vt::Trace &t, const HistCfg &c, unsigned long long seed)
{
    vt::Rng r(seed);
    World w;
    SampleCfg sc{c.space, c.kind, c.bounds, "max", c.n, c.dir, c.starts, c.goals, c.d, 0.0, c.rel, c.N, 0, false};
    double maxC, minC;
    buildWorld(w, sc, r, maxC, minC);
    json head = histJson(c);
    head["world"] = w.describe();
    head["max"] = hexd(maxC);
    const int n = c.n;
    long nb = 0;
    std::vector<long> cnt;
    std::vector<long long> elo, ehi;
    std::vector<char> overlapBin;
    // --- bins and their exact probabilities
    Vec a1(n), ctr(n), gl = w.lo, gh = w.hi;   // gl, gh: the box the grid covers
    std::vector<Vec> H;   // orthonormal frame whose first vector is the focal axis (Householder reflection)
    LD aa = 0, bb = 0;
    if (c.binning == "grid")
    {
        // the grid covers the bounds clipped to the bounding box of the PHSs (own formula, slightly enlarged)
        {
            Vec bl(n, INF), bh(n, -INF);
            for (auto &s : w.starts)
                for (auto &g : w.goals)
                {
                    LD d = dist(s.p, g.p);
                    if (!((LD)maxC > d))
                        continue;
                    LD A = (LD)maxC / 2, Bq = ((LD)maxC - d) * ((LD)maxC + d) / 4;
                    for (int i = 0; i < n; ++i)
                    {
                        LD ax = ((LD)g.p[i] - (LD)s.p[i]) / d, cc = 0.5L * ((LD)g.p[i] + (LD)s.p[i]);
                        LD ext = sqrtl(A * A * ax * ax + Bq * (1 - ax * ax)) * (1 + 1e-6L);
                        bl[i] = std::min(bl[i], (double)(cc - ext));
                        bh[i] = std::max(bh[i], (double)(cc + ext));
                    }
                }
            for (int i = 0; i < n; ++i)
            {
                gl[i] = std::max(w.lo[i], bl[i]);
                gh[i] = std::min(w.hi[i], bh[i]);
                if (!(gh[i] > gl[i]))
                    framework("empty grid box in " + c.name);
            }
        }
        nb = 1;
        for (int i = 0; i < n; ++i)
            nb *= c.G;
        cnt.assign(nb, 0);
        overlapBin.assign(nb, 0);
        std::vector<long long> in(nb, 0), mixed(nb, 0);
        // interval quadrature: the focal sum is 2-Lipschitz, so a cell whose centre value is more than the cell
        // diagonal away from the bound is entirely inside / outside
        long per = 1;
        for (int i = 0; i < n; ++i)
            per *= c.sub;
        Vec h(n);
        LD diag = 0;
        for (int i = 0; i < n; ++i)
        {
            h[i] = (gh[i] - gl[i]) / (c.G * c.sub);
            diag += (LD)h[i] * h[i];
        }
        diag = sqrtl(diag);   // = 2 * half diagonal
        long long totIn = 0, totMixed = 0;
        Vec x(n);
        std::vector<int> idx(n);
        for (long bin = 0; bin < nb; ++bin)
        {
            long rem = bin;
            std::vector<int> bi(n);
            for (int i = 0; i < n; ++i)
            {
                bi[i] = rem % c.G;
                rem /= c.G;
            }
            for (long cell = 0; cell < per; ++cell)
            {
                long rc = cell;
                for (int i = 0; i < n; ++i)
                {
                    int k = rc % c.sub;
                    rc /= c.sub;
                    x[i] = gl[i] + (bi[i] * c.sub + k + 0.5) * h[i];
                }
                int inside = 0, maybe = 0;
                for (auto &s : w.starts)
                    for (auto &g : w.goals)
                    {
                        LD f = focalSum(x, s.p, g.p);
                        if (f + diag < (LD)maxC)
                            ++inside;
                        else if (f - diag < (LD)maxC)
                            ++maybe;
                    }
                if (inside > 0)
                    ++in[bin];
                else if (maybe > 0)
                    ++mixed[bin];
                if (inside + maybe > 1)
                    overlapBin[bin] = 1;
            }
            totIn += in[bin];
            totMixed += mixed[bin];
        }
        if (totIn == 0)
            framework("quadrature found no cell inside the region: " + c.name);
        elo.resize(nb);
        ehi.resize(nb);
        for (long bin = 0; bin < nb; ++bin)
        {
            // p in [in / (totIn + totMixed), (in + mixed) / totIn]... tightened: the other bins keep at least their `in`
            LD plo = (LD)in[bin] / (LD)(totIn + totMixed);
            LD phi = (LD)(in[bin] + mixed[bin]) / (LD)(totIn + mixed[bin]);
            elo[bin] = (long long)floorl(plo * c.samples);
            ehi[bin] = (long long)ceill(phi * c.samples);
        }
        head["quad_in"] = totIn;
        head["quad_mixed"] = totMixed;
    }
    else
    {
        // shells of equal volume in PHS coordinates x sign orthants in the PHS frame (x rotation bins)
        if (w.starts.size() != 1 || w.goals.size() != 1)
            framework("shell binning needs one start and one goal");
        LD d = dist(w.starts[0].p, w.goals[0].p);
        for (int i = 0; i < n; ++i)
        {
            a1[i] = (double)(((LD)w.goals[0].p[i] - (LD)w.starts[0].p[i]) / d);
            ctr[i] = 0.5 * (w.starts[0].p[i] + w.goals[0].p[i]);
        }
        aa = (LD)maxC / 2;
        bb = sqrtl(((LD)maxC - d) * ((LD)maxC + d)) / 2;
        Vec v(n);
        LD vv = 0;
        for (int i = 0; i < n; ++i)
        {
            v[i] = (i == 0 ? 1.0 : 0.0) - a1[i];
            vv += (LD)v[i] * v[i];
        }
        H.assign(n, Vec(n, 0.0));
        for (int j = 0; j < n; ++j)
            for (int i = 0; i < n; ++i)
                H[j][i] = (double)((i == j ? 1.0L : 0.0L) - (vv > 1e-20L ? 2 * (LD)v[i] * v[j] / vv : 0.0L));
        long rotBins = w.space == "SE2" ? 8 : w.space == "SE3" ? 16 : 1;
        nb = (long)c.G * (1L << n) * rotBins;
        cnt.assign(nb, 0);
        overlapBin.assign(nb, 0);
        elo.assign(nb, (long long)floorl((LD)c.samples / nb) - 1);
        ehi.assign(nb, (long long)ceill((LD)c.samples / nb) + 1);
    }
    // which branch of the direct sampler this is (own volumes against the box)
    {
        LD box = 1, sum = 0;
        for (int i = 0; i < n; ++i)
            box *= (LD)w.hi[i] - (LD)w.lo[i];
        for (auto &s : w.starts)
            for (auto &g : w.goals)
                sum += phsVolume(n, dist(s.p, g.p), (LD)maxC);
        head["branch"] = box < sum / (LD)(w.starts.size() * w.goals.size()) ? "whole-space" : "phs";
    }
    // --- the long run
    long out = 0, overlapSamples = 0, fails = 0, calls = 0;
    json firstOut;
    ob::State *st = w.sp->allocState();
    try
    {
        Made m = makeSampler(w, c.kind, c.N, 16);
        long got = 0;
        while (got < c.samples)
        {
            if (++calls > 200 * c.samples + 1000)
                framework("sampler keeps failing in histogram " + c.name);
            if (!m.inf->sampleUniform(st, ob::Cost(maxC)))
            {
                ++fails;
                continue;
            }
            ++got;
            Pose p = w.read(st);
            LD own = w.costFocal(p);
            bool outside = !(own < (LD)maxC * (1 + MARGIN)) || !w.inBounds(p);
            if (outside)
            {
                if (out++ == 0)
                    firstOut = json{{"state", hexv(p.p)}, {"own_cost", hexd((double)own)}, {"call", calls}};
                continue;
            }
            long bin = 0;
            bool offGrid = false;
            if (c.binning == "grid")
            {
                long mul = 1;
                for (int i = 0; i < n; ++i)
                {
                    int k = (int)std::floor((p.p[i] - gl[i]) / (gh[i] - gl[i]) * c.G);
                    if (k < 0 || k >= c.G)
                        offGrid = true;
                    k = std::max(0, std::min(c.G - 1, k));
                    bin += mul * k;
                    mul *= c.G;
                }
                int k = 0;
                for (auto &s : w.starts)
                    for (auto &g : w.goals)
                        if (focalSum(p.p, s.p, g.p) < (LD)maxC)
                            ++k;
                if (k > 1)
                    ++overlapSamples;
                if (offGrid)   // inside the region by the focal sums but outside its bounding box: cannot happen
                {
                    if (out++ == 0)
                        firstOut = json{{"state", hexv(p.p)}, {"own_cost", hexd((double)own)}, {"call", calls}, {"off_grid", true}};
                    continue;
                }
            }
            else
            {
                LD u1 = 0, yy = 0;
                Vec y(n);
                for (int i = 0; i < n; ++i)
                {
                    y[i] = p.p[i] - ctr[i];
                    u1 += (LD)y[i] * a1[i];
                    yy += (LD)y[i] * y[i];
                }
                LD r2 = (u1 / aa) * (u1 / aa) + std::max((LD)0, yy - u1 * u1) / (bb * bb);
                LD vol = powl(std::min(r2, (LD)1), 0.5L * n);   // fraction of the volume inside this radius
                long shell = std::min((long)c.G - 1, (long)floorl(vol * c.G));
                long orth = 0;
                for (int j = 0; j < n; ++j)
                {
                    LD pj = 0;
                    for (int i = 0; i < n; ++i)
                        pj += (LD)H[j][i] * y[i];
                    if (pj >= 0)
                        orth |= 1L << j;
                }
                long rot = 0;
                if (w.space == "SE2")
                    rot = std::max(0L, std::min(7L, (long)std::floor((p.yaw + (double)PIL) / (2 * (double)PIL) * 8)));
                if (w.space == "SE3")
                    rot = (p.q[0] >= 0 ? 1 : 0) | (p.q[1] >= 0 ? 2 : 0) | (p.q[2] >= 0 ? 4 : 0) | (p.q[3] >= 0 ? 8 : 0);
                bin = (rot * (1L << n) + orth) * c.G + shell;
            }
            ++cnt[bin];
        }
        json ev = head;
        ev["e"] = "Hist";
        ev["total"] = c.samples;
        ev["n_"] = json(cnt);
        ev["elo"] = json(elo);
        ev["ehi"] = json(ehi);
        ev["out"] = out;
        ev["fails"] = fails;
        ev["overlap_samples"] = overlapSamples;
        long df = 0;
        for (long i = 0; i < nb; ++i)
            if (ehi[i] >= 50 && elo[i] >= 1)
                ++df;
        ev["df"] = df;
        long sq = (long)ceill(sqrtl(40.0L * df));
        while (sq * sq < 40 * df)
            ++sq;
        while (sq > 0 && (sq - 1) * (sq - 1) >= 40 * df)
            --sq;
        ev["sq"] = sq;
        if (!firstOut.is_null())
            ev["bad"] = firstOut;
        t.emit(ev);
    }
    catch (const std::exception &ex)
    {
        head["e"] = "Threw";
        head["what"] = ex.what();
        t.emit(head);
    }
    w.sp->freeState(st);
}

// ------------------------------------------------------------------------------ the job list
struct Job
{
    std::string name;
    std::function<void(vt::Trace &, unsigned long long)> run;
};
static std::vector<Job> makeJobs(const std::string &tier, unsigned long long seed)
{
    bool thorough = tier == "thorough";
    std::vector<Job> jobs;
    vt::Rng pick(mix(seed, 77));
    // ---- Sample sweeps
    std::vector<SampleCfg> all;
    const double ds[] = {2e-9, 1e-3, 1.0, 1e3};
    const double rels[] = {1e-9, 1e-6, 1e-3, 0.2, 2.0, -1.0 /* absolute 1e6 */, INF};
    const char *boundsKinds[] = {"inside", "slab", "cut", "fixed"};
    const char *kinds[] = {"direct", "directctor", "rejection", "ordered", "orderedrej", "wrapper", "wrapperown"};
    for (const char *space : {"Rn", "SE2", "SE3"})
        for (int n : {2, 3, 4, 5, 8})
        {
            if ((std::string(space) == "SE2" && n != 2) || (std::string(space) == "SE3" && n != 3))
                continue;
            for (int dir : {0, 1, 2, 3})
                for (double d : ds)
                    for (double rel : rels)
                        for (const char *bk : boundsKinds)
                            for (const char *kind : kinds)
                                for (const char *ov : {"max", "minmax"})
                                    for (int multi : {0, 1})
                                    {
                                        std::string k = kind, b = bk;
                                        double rr = rel < 0 ? 1e6 / d - 1 : rel;
                                        if (rr <= 0)
                                            continue;
                                        bool wrapper = k == "wrapper" || k == "wrapperown";
                                        // the wrapper has no return value: only where an informed sample is certain
                                        if (wrapper && (b != "inside" || std::string(ov) == "minmax" || std::isinf(rr)))
                                            continue;
                                        if ((k == "ordered" || k == "orderedrej") && std::string(ov) == "minmax")
                                            continue;   // documented: throws "Not implemented"
                                        if (multi && (rr < 1e-3 || n > 4))
                                            continue;
                                        SampleCfg c{space, k, b, ov, n, dir, multi ? 2 : 1, multi ? 2 : 1, d, 0.0, rr,
                                                    100u, thorough ? 400 : 120, false};
                                        all.push_back(c);
                                    }
        }
    // seeded selection; offsets, attempt limits and shrinking bounds are drawn per selected configuration
    size_t want = thorough ? 9000 : 1400;
    std::vector<SampleCfg> sel;
    for (size_t i = 0; i < want && !all.empty(); ++i)
    {
        SampleCfg c = all[pick.next() % all.size()];
        int oc = pick.below(4);
        c.off = oc == 0 ? 0.0 : oc == 1 ? 10 * c.d : oc == 2 ? -300 * c.d : 0.37 * c.d;
        int nc = pick.below(4);
        bool wrapper = c.kind == "wrapper" || c.kind == "wrapperown";
        c.N = wrapper ? 1000u : nc == 0 ? 1u : nc == 1 ? 3u : nc == 2 ? 17u : 100u;
        c.shrink = pick.below(3) == 0 && c.rel >= 1e-3;
        sel.push_back(c);
    }
    // the regime in which the spacing of doubles is comparable with the informed set: one fixed configuration
    // per dimension class (key suffix "coarse")
    for (int n : {2, 3})
        for (const char *kind : {"direct", "rejection"})
            sel.push_back(SampleCfg{"Rn", kind, "inside", "max", n, 0, 1, 1, 2e-9, 1.0 * std::sqrt((double)n), 1e-9, 100u,
                                    50000, false});
    // the measure-zero informed set planners end up with (bound == focal distance, exactly): every call must
    // return; nothing is demanded about success
    for (const char *space : {"Rn", "SE2", "SE3"})
        for (const char *kind : {"direct", "directctor", "rejection", "ordered"})
            for (const char *bk : {"inside", "slab"})
                for (unsigned N : {1u, 17u, 100u})
                {
                    int n = std::string(space) == "SE3" ? 3 : std::string(space) == "SE2" ? 2 : 2 + (int)(N % 3) * 2;
                    SampleCfg c{space, kind, bk, "max", n, 2, 1, 1, ds[pick.below(4)], 0.0, 1e-3, N, thorough ? 300 : 60, false};
                    c.exact = true;
                    sel.push_back(c);
                }
    // history with a bound that is raised again on the same sampler object
    // (known finding D-C15-2: pruning of hyperspheroids is permanent).  Strictly separate from every other job:
    // everywhere else a job has its own fresh sampler and only non-increasing bounds, as planners use it.
    sel.push_back(SampleCfg{"Rn", "direct-raised", "inside", "max", 2, 2, 2, 2, 1.0, 0.0, 0.35, 100u, 2000, false});
    for (size_t i = 0; i < sel.size(); ++i)
    {
        SampleCfg c = sel[i];
        jobs.push_back({"sample", [c](vt::Trace &t, unsigned long long s) { jobSamples(t, c, s); }});
    }
    // ---- sampler measures
    for (const char *space : {"Rn", "SE2", "SE3"})
        for (int n : {2, 3, 4, 6, 8, 10})
        {
            if ((std::string(space) == "SE2" && n != 2) || (std::string(space) == "SE3" && n != 3))
                continue;
            for (double rel : {1e-9, 1e-3, 0.5, 3.0, INF})
                for (const char *bk : {"inside", "cut"})
                    for (const char *kind : {"direct", "rejection", "ordered"})
                        for (int multi : {0, 1})
                        {
                            if (multi && rel < 0.5)
                                continue;
                            SampleCfg c{space, kind, bk, "max", n, 2, multi ? 2 : 1, multi ? 2 : 1,
                                        ds[pick.below(4)], 0.0, rel, 10u, 0, false};
                            jobs.push_back({"smeasure", [c](vt::Trace &t, unsigned long long s) { jobSamplerMeasure(t, c, s); }});
                        }
        }
    // ---- ProlateHyperspheroid: surface, measure, membership
    for (int n = 2; n <= 10; ++n)
        for (int dir : {0, 1, 2, 3})
            for (double d : ds)
                for (double rel : {1e-9, 1e-6, 1e-3, 0.2, 2.0, 1e3, 1e9})
                {
                    if (!thorough && pick.below(3) != 0)
                        continue;
                    int oc = pick.below(3);
                    PhsCfg c{n, dir, d, oc == 0 ? 0.0 : oc == 1 ? 10 * d : -300 * d, rel, thorough ? 300 : 120};
                    jobs.push_back({"phs", [c](vt::Trace &t, unsigned long long s) { jobPhs(t, c, s); }});
                }
    // ---- uniformity
    long S = thorough ? 1000000 : 200000;
    std::vector<HistCfg> hs;
    // several overlapping PHSs (2 starts x 2 goals) in R^2: both branches of the direct sampler, and rejection
    hs.push_back({"multi-phsbranch", "Rn", "direct", "grid", 2, 2, 2, 2, 1.0, 0.35, "slab", S, 100u, 16, thorough ? 256 : 128});
    hs.push_back({"multi-wholespace", "Rn", "direct", "grid", 2, 2, 2, 2, 1.0, 0.35, "strip", S, 100u, 16, thorough ? 256 : 128});
    hs.push_back({"multi-rejection", "Rn", "rejection", "grid", 2, 2, 2, 2, 1.0, 0.35, "strip", S, 100u, 16, thorough ? 256 : 128});
    hs.push_back({"multi-ordered", "Rn", "ordered", "grid", 2, 2, 2, 2, 1.0, 0.35, "slab", S, 100u, 16, thorough ? 256 : 128});
    hs.push_back({"multi-bound-raised", "Rn", "direct-raised", "grid", 2, 2, 2, 2, 1.0, 0.35, "slab", S, 100u, 16, thorough ? 256 : 128});
    hs.push_back({"multi-3x2", "Rn", "direct", "grid", 2, 3, 2, 2, 1.0, 0.25, "slab", S, 100u, 16, thorough ? 256 : 128});
    hs.push_back({"single-cut-2d", "Rn", "direct", "grid", 2, 1, 1, 2, 1.0, 0.3, "slab", S, 100u, 16, thorough ? 256 : 128});
    hs.push_back({"single-cut-3d", "Rn", "direct", "grid", 3, 1, 1, 2, 1.0, 0.3, "slab", S, 100u, 6, thorough ? 24 : 16});
    hs.push_back({"rejection-cut-3d", "Rn", "rejection", "grid", 3, 1, 1, 2, 1.0, 0.3, "cut", S, 100u, 6, thorough ? 24 : 16});
    // one PHS far inside the bounds, dimensions 2..6 (and 8 in the thorough tier): shells x orthants
    const int shells[] = {0, 0, 32, 16, 8, 8, 4, 2, 2};
    for (int n = 2; n <= (thorough ? 8 : 6); ++n)
        for (double rel : {0.02, 0.5})
        {
            if (!thorough && n > 3 && rel < 0.1)
                continue;
            hs.push_back({"shell-" + std::to_string(n) + (rel < 0.1 ? "-thin" : ""), "Rn", "direct", "shell", n, 1, 1, 2,
                          1.0, rel, "inside", S, 100u, shells[n], 0});
        }
    hs.push_back({"shell-2-axis", "Rn", "direct", "shell", 2, 1, 1, 1, 1e-3, 0.5, "inside", S, 100u, 32, 0});
    hs.push_back({"shell-3-tiny", "Rn", "directctor", "shell", 3, 1, 1, 2, 2e-9, 0.5, "inside", S, 100u, 16, 0});
    hs.push_back({"shell-se2", "SE2", "direct", "shell", 2, 1, 1, 2, 1.0, 0.5, "inside", S, 100u, 4, 0});
    hs.push_back({"shell-se3", "SE3", "direct", "shell", 3, 1, 1, 2, 1.0, 0.5, "inside", S, 100u, 4, 0});
    hs.push_back({"shell-rejection-2", "Rn", "rejection", "shell", 2, 1, 1, 2, 1.0, 0.5, "fixed", S, 100u, 32, 0});
    hs.push_back({"shell-rejection-3", "Rn", "rejection", "shell", 3, 1, 1, 2, 1.0, 0.5, "fixed", S, 100u, 16, 0});
    hs.push_back({"shell-ordered-3", "Rn", "ordered", "shell", 3, 1, 1, 2, 1.0, 0.5, "inside", S, 100u, 16, 0});
    for (auto &h : hs)
    {
        HistCfg c = h;
        jobs.push_back({"hist", [c](vt::Trace &t, unsigned long long s) { jobHist(t, c, s); }});
    }
    return jobs;
}

#include <sys/resource.h>
static void runJobInChild(const Job &j, size_t k, unsigned long long seed, const std::string &part, int cpuLimit = 0)
{
    if (cpuLimit > 0)
    {
        struct rlimit rl{(rlim_t)cpuLimit, (rlim_t)cpuLimit + 5};
        setrlimit(RLIMIT_CPU, &rl);   // a call that never returns becomes a Hang event
    }
    unsigned long long s = mix(seed, k + 1);
    ompl::RNG::setSeed((std::uint_fast32_t)(s % 2000000000ULL + 1));
    ompl::msg::setLogLevel(ompl::msg::LOG_NONE);
    vt::Trace t(part);
    vt::installCrashHandlers();
    j.run(t, s);
    t.close();
}

static int modeRecord(const std::string &out, const std::string &tier, int par)
{
    unsigned long long seed = vt::envSeed();
    std::vector<Job> jobs = makeJobs(tier, seed);
    std::map<pid_t, size_t> running;
    std::vector<int> status(jobs.size(), -1);
    size_t next = 0;
    auto part = [&](size_t k) { return out + ".part" + std::to_string(k); };
    while (next < jobs.size() || !running.empty())
    {
        while (next < jobs.size() && (int)running.size() < par)
        {
            fflush(nullptr);
            pid_t p = fork();
            if (p < 0)
                framework("fork failed");
            if (p == 0)
            {
                runJobInChild(jobs[next], next, seed, part(next), tier == "thorough" ? 1500 : 400);
                fflush(nullptr);
                _exit(0);
            }
            running[p] = next++;
        }
        int st = 0;
        pid_t p = wait(&st);
        if (p > 0 && running.count(p))
        {
            status[running[p]] = st;
            running.erase(p);
        }
    }
    FILE *f = fopen(out.c_str(), "w");
    if (!f)
        framework("cannot write " + out);
    std::map<std::string, long> events;
    long crashed = 0;
    for (size_t k = 0; k < jobs.size(); ++k)
    {
        std::ifstream in(part(k));
        std::string line;
        bool sawCrash = false;
        while (std::getline(in, line))
        {
            if (line.empty())
                continue;
            json e = json::parse(line);
            e["job"] = k;
            if (e["e"] == "Crash")
                sawCrash = true;
            events[e["e"].get<std::string>()]++;
            fputs(e.dump().c_str(), f);
            fputc('\n', f);
        }
        bool bad = !(WIFEXITED(status[k]) && WEXITSTATUS(status[k]) == 0);
        if (bad && WIFEXITED(status[k]) && WEXITSTATUS(status[k]) == 4)
            framework("job " + std::to_string(k) + " (" + jobs[k].name + ") reported a framework error");
        if (bad && !sawCrash)
        {
            bool hang = WIFSIGNALED(status[k]) && (WTERMSIG(status[k]) == SIGXCPU || WTERMSIG(status[k]) == SIGKILL);
            json e{{"e", hang ? "Hang" : "Crash"}, {"job", k}, {"what", "child ended with status " + std::to_string(status[k])}, {"name", jobs[k].name}};
            fputs(e.dump().c_str(), f);
            fputc('\n', f);
            events[e["e"].get<std::string>()]++;
        }
        if (bad)
            ++crashed;
        unlink(part(k).c_str());
    }
    fclose(f);
    json ev(events);
    std::cout << "SUMMARY " << json{{"jobs", jobs.size()}, {"events", ev}, {"crashed", crashed}, {"seed", seed}}.dump() << std::endl;
    return 0;
}

#include "c15_replay.h"

int main(int argc, char **argv)
{
    std::string mode = argc > 1 ? argv[1] : "";
    if (mode == "record" && argc >= 4)
        return modeRecord(argv[2], argv[3], argc > 4 ? atoi(argv[4]) : 4);
    if (mode == "list" && argc >= 3)
    {
        auto jobs = makeJobs(argv[2], vt::envSeed());
        std::map<std::string, long> c;
        for (auto &j : jobs)
            c[j.name]++;
        std::cout << json(c).dump() << std::endl;
        return 0;
    }
    if (mode == "one" && argc >= 4)
    {
        unsigned long long seed = vt::envSeed();
        auto jobs = makeJobs(argv[2], seed);
        size_t k = strtoul(argv[3], nullptr, 10);
        if (k >= jobs.size())
            framework("no such job");
        std::string part = "/dev/stdout";
        runJobInChild(jobs[k], k, seed, part);
        return 0;
    }
    if (mode == "replay" && argc >= 5)
        return modeReplay(argv[2], argv[3], argv[4], argc > 5 ? atoi(argv[5]) : 1);
    fprintf(stderr, "usage: informed record <trace> <tier> [jobs] | one <tier> <job> | list <tier> | replay <rows> <trace> <calls> [reps]\n");
    return 3;
}
