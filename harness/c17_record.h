// C17 part 2: recording of PathSimplifier / PathHybridization reports.
//
// A "chain" is one input path run through a few routine calls (or one hybridization session).
// Chain k is a pure function of (VERIF_SEED, k): it runs in its own forked child, which calls
// ompl::RNG::setSeed before the library creates any random generator, so any chain can be
// re-run alone with `paths one <k> <resources>`.
#pragma once
#include "c17_world.h"
#include "ompl/base/ProblemDefinition.h"
#include "ompl/base/goals/GoalStates.h"
#include "ompl/base/PlannerTerminationCondition.h"
#include "ompl/geometric/PathSimplifier.h"
#include "ompl/geometric/PathHybridization.h"
#include "ompl/geometric/planners/rrt/RRT.h"
#include "ompl/geometric/planners/rrt/RRTConnect.h"
#include "ompl/geometric/planners/prm/PRM.h"
#include "ompl/util/RandomNumbers.h"
#include <sys/wait.h>
#include <set>

namespace c17
{
    // PRM::solve() is driven by wall-clock slices and a second thread; this subclass runs the
    // same roadmap construction and the same query code single-threaded under a counting
    // termination condition, so that the planner output is a function of the seed.
    class DetPRM : public og::PRM
    {
    public:
        explicit DetPRM(const ob::SpaceInformationPtr &si) : og::PRM(si)
        {
        }
        ob::PathPtr query(unsigned int milestones)
        {
            checkValidity();
            while (const ob::State *st = pis_.nextStart())
                startM_.push_back(addMilestone(si_->cloneState(st)));
            auto *goal = dynamic_cast<ob::GoalSampleableRegion *>(pdef_->getGoal().get());
            for (unsigned int i = 0; goal && i < goal->maxSampleCount(); ++i)
                if (const ob::State *st = pis_.nextGoal())
                    goalM_.push_back(addMilestone(si_->cloneState(st)));
            if (startM_.empty() || goalM_.empty())
                return nullptr;
            unsigned int n = 0;
            growRoadmap(ob::PlannerTerminationCondition([&n, milestones] { return ++n > milestones; }));
            ob::PathPtr sol;
            maybeConstructSolution(startM_, goalM_, sol);
            return sol;
        }
    };

    struct Worlds
    {
        std::vector<std::unique_ptr<World>> w;
        std::vector<Pts> stored;        // circle_paths_to_simplify.txt
        std::vector<std::pair<P2, P2>> circleQueries;  // circle_queries.txt
        explicit Worlds(const std::string &res)
        {
            w.emplace_back(new CircleWorld(res + "/circle_obstacles.txt"));
            w.emplace_back(new GridWorld(res + "/env1.txt", "env1", 0, 0, 0.004));
            w.emplace_back(new GridWorld(res + "/env2.txt", "env2crop", 36, 52, 0.002));
            w.emplace_back(new OpenWorld());
            {
                std::ifstream in(res + "/circle_paths_to_simplify.txt");
                std::string line;
                std::getline(in, line);
                std::getline(in, line);
                Pts cur;
                while (std::getline(in, line))
                {
                    std::istringstream ss(line);
                    P2 p;
                    if (ss >> p.x >> p.y)
                        cur.push_back(p);
                    else if (!cur.empty())
                    {
                        stored.push_back(cur);
                        cur.clear();
                    }
                }
                if (!cur.empty())
                    stored.push_back(cur);
            }
            {
                std::ifstream in(res + "/circle_queries.txt");
                std::string a, b;
                P2 s, g;
                while (in >> a >> b >> s.x >> s.y >> a >> b >> g.x >> g.y)
                    circleQueries.emplace_back(s, g);
            }
            if (stored.size() < 2 || circleQueries.size() < 10)
            {
                fprintf(stderr, "FRAMEWORK: test resources incomplete (%zu stored paths, %zu queries)\n", stored.size(),
                        circleQueries.size());
                exit(3);
            }
        }
    };

    // ------------------------------------------------------------------ one chain
    struct Chain
    {
        const Worlds &W;
        long k;
        vt::Trace &tr;
        vt::Rng rng;
        const World *world{nullptr};
        ob::SpaceInformationPtr si;
        bool metric{true};
        std::string objName;
        ob::OptimizationObjectivePtr obj;
        std::vector<P2> goalPts;  // states of the goal region given to the simplifier (empty: none)
        std::shared_ptr<ob::GoalStates> goal;

        Chain(const Worlds &W_, long k_, vt::Trace &tr_, unsigned long long seed) : W(W_), k(k_), tr(tr_), rng(seed)
        {
        }

        void emit(const json &j)
        {
            tr.emit(j);
            tr.flush();
        }
        template <class T>
        const T &pick(const std::vector<T> &v)
        {
            return v[rng.below((int)v.size())];
        }
        double cost(const Pts &p) const
        {
            return objName == "len" ? oracleLength(p) : oracleFieldCost(*world, p);
        }
        P2 randomPoint()
        {
            return P2{world->lo[0] + rng.unit() * (world->hi[0] - world->lo[0]),
                      world->lo[1] + rng.unit() * (world->hi[1] - world->lo[1])};
        }
        bool randomValid(P2 &out, const P2 *near = nullptr, double radius = 0)
        {
            for (int t = 0; t < 2000; ++t)
            {
                P2 p = randomPoint();
                if (near)
                {
                    double a = rng.unit() * 6.283185307179586, d = radius * std::sqrt(rng.unit());
                    p = P2{near->x + d * std::cos(a), near->y + d * std::sin(a)};
                }
                // a little more than the margin, so that start / goal states are comfortably valid
                if (world->clearance(p.x, p.y) >= 1.05 * world->margin())
                {
                    out = p;
                    return true;
                }
            }
            return false;
        }
        og::PathGeometric toPath(const Pts &pts)
        {
            og::PathGeometric p(si);
            ob::State *s = si->allocState();
            for (auto &q : pts)
            {
                setXY(s, q);
                p.append(s);
            }
            si->freeState(s);
            return p;
        }
        void makeObjective()
        {
            if (objName == "len")
                obj = std::make_shared<ob::PathLengthOptimizationObjective>(si);
            else
                obj = std::make_shared<FieldObjective>(si, world);
        }

        // ---- planners
        bool plan(const std::string &which, const P2 &start, const std::vector<P2> &goals, Pts &out)
        {
            auto pdef = std::make_shared<ob::ProblemDefinition>(si);
            ob::State *s = si->allocState();
            setXY(s, start);
            pdef->addStartState(s);
            auto gs = std::make_shared<ob::GoalStates>(si);
            for (auto &g : goals)
            {
                setXY(s, g);
                gs->addState(s);
            }
            si->freeState(s);
            pdef->setGoal(gs);
            ob::PathPtr sol;
            if (which == "prm")
            {
                DetPRM prm(si);
                prm.setProblemDefinition(pdef);
                prm.setup();
                sol = prm.query(300 + (unsigned)rng.below(500));
            }
            else
            {
                ob::PlannerPtr pl;
                if (which == "rrt")
                    pl = std::make_shared<og::RRT>(si);
                else
                    pl = std::make_shared<og::RRTConnect>(si);
                pl->setProblemDefinition(pdef);
                pl->setup();
                long n = 0;
                const long budget = which == "rrt" ? 60000 : 30000;
                ob::PlannerStatus st = pl->solve(ob::PlannerTerminationCondition([&n, budget] { return ++n > budget; }));
                if (st == ob::PlannerStatus::EXACT_SOLUTION)
                    sol = pdef->getSolutionPath();
            }
            if (!sol)
                return false;
            out = points(*sol->as<og::PathGeometric>());
            return out.size() >= 1;
        }
        bool query(P2 &start, std::vector<P2> &goals)
        {
            if (world->name == "circles" && rng.below(2) == 0)
            {
                for (int t = 0; t < 50; ++t)
                {
                    auto &q = pick(W.circleQueries);
                    if (world->clearance(q.first.x, q.first.y) >= 1.05 * world->margin() &&
                        world->clearance(q.second.x, q.second.y) >= 1.05 * world->margin())
                    {
                        start = q.first;
                        goals = {q.second};
                        return true;
                    }
                }
            }
            P2 g;
            for (int t = 0; t < 200; ++t)
                if (randomValid(start) && randomValid(g) && dist(start, g) > 0.25 * world->extent())
                {
                    goals = {g};
                    return true;
                }
            return false;
        }
        // a few more goal states around the first one
        void moreGoals(std::vector<P2> &goals)
        {
            int extra = rng.below(4);
            for (int i = 0; i < extra; ++i)
            {
                P2 g;
                if (randomValid(g, &goals[0], 0.15 * world->extent()))
                    goals.push_back(g);
            }
        }

        // ---- synthetic inputs
        bool segmentOK(const P2 &a, const P2 &b)
        {
            return oracleStrictValid(*world, Pts{a, b});
        }
        bool zigzag(Pts &out)
        {
            P2 cur;
            if (!randomValid(cur))
                return false;
            out = {cur};
            int nseg = 2 + rng.below(14);
            double reach = (0.05 + 0.3 * rng.unit()) * world->extent();
            for (int i = 0; i < nseg; ++i)
            {
                bool ok = false;
                for (int t = 0; t < 60 && !ok; ++t)
                {
                    P2 nx;
                    if (randomValid(nx, &cur, reach) && segmentOK(cur, nx))
                    {
                        out.push_back(nx);
                        cur = nx;
                        ok = true;
                    }
                }
            }
            return out.size() >= 2;
        }
        // repeated states, zero-length segments, there-and-back-again detours
        void decorate(Pts &p)
        {
            int edits = rng.below(4);
            for (int e = 0; e < edits && !p.empty(); ++e)
            {
                int i = rng.below((int)p.size());
                int kind = rng.below(3);
                if (kind == 0)  // repeat a state (possibly the first or the last) one to three times
                {
                    int times = 1 + rng.below(3);
                    p.insert(p.begin() + i, times, p[i]);
                }
                else if (kind == 1 && i + 1 < (int)p.size())  // A B -> A B A B
                {
                    P2 a = p[i], b = p[i + 1];
                    p.insert(p.begin() + i + 2, {a, b});
                }
                else if (i + 1 < (int)p.size())  // a state in the middle of a segment, twice
                {
                    P2 m{p[i].x + (p[i + 1].x - p[i].x) * 0.5, p[i].y + (p[i + 1].y - p[i].y) * 0.5};
                    p.insert(p.begin() + i + 1, {m, m});
                }
            }
        }
        bool degenerate(Pts &out, std::string &src)
        {
            P2 a, b;
            if (!randomValid(a))
                return false;
            int kind = rng.below(5);
            if (kind == 0)
            {
                out = {a};
                src = "single-state";
            }
            else if (kind == 1)
            {
                out.assign(2 + rng.below(5), a);
                src = "all-same";
            }
            else
            {
                bool ok = false;
                for (int t = 0; t < 200 && !ok; ++t)
                    ok = randomValid(b, &a, 0.3 * world->extent()) && segmentOK(a, b);
                if (!ok)
                    return false;
                if (kind == 2)
                {
                    out = {a, b};
                    src = "two-states";
                }
                else if (kind == 3)
                {
                    out = {a, a, b};
                    src = "zero-first-segment";
                }
                else
                {
                    out = {a, b, b};
                    src = "zero-last-segment";
                }
            }
            return true;
        }

        // ---- facts about a path (the oracle)
        struct Facts
        {
            Pts pts;
            bool finite{true};
            long long len{0}, cost{0};
            bool dense{false};
            bool check{false};
        };
        Facts measure(const og::PathGeometric &p)
        {
            Facts f;
            f.pts = points(p);
            for (auto &q : f.pts)
                if (!(std::isfinite(q.x) && std::isfinite(q.y)))
                    f.finite = false;
            if (f.finite)
            {
                f.len = micro(oracleLength(f.pts));
                f.cost = micro(cost(f.pts));
                f.dense = oracleDenseValid(*world, f.pts);
                f.check = p.check();
            }
            return f;
        }

        bool isGoalPoint(const P2 &p) const
        {
            for (auto &g : goalPts)
                if (same(g, p))
                    return true;
            return false;
        }

        // ---- the routine calls
        struct Call
        {
            std::string name;
            json params;
            std::function<bool(og::PathSimplifier &, og::PathGeometric &)> run;
        };
        Call chooseCall(std::size_t n, double len)
        {
            const double L = std::max(len, 1e-3);
            for (;;)
            {
                int r = rng.below(100);
                if (r < 16)
                {
                    unsigned ms = pick<unsigned>({0, 1, 3, 20, 100}), me = pick<unsigned>({0, 1, 5, 50});
                    double rr = pick<double>({0.0, 0.05, 0.33, 0.5, 1.0});
                    return Call{"reduceVertices", json{{"maxSteps", ms}, {"maxEmptySteps", me}, {"rangeRatioPm", (int)(rr * 1000)}},
                                [=](og::PathSimplifier &ps, og::PathGeometric &p) { return ps.reduceVertices(p, ms, me, rr); }};
                }
                if (r < 28)
                {
                    if (n > 400)
                        continue;  // the routine keeps a quadratic table of distances
                    unsigned ms = pick<unsigned>({0, 1, 5, 50}), me = pick<unsigned>({0, 1, 5});
                    return Call{"collapseCloseVertices", json{{"maxSteps", ms}, {"maxEmptySteps", me}},
                                [=](og::PathSimplifier &ps, og::PathGeometric &p) { return ps.collapseCloseVertices(p, ms, me); }};
                }
                if (r < 48)
                {
                    unsigned ms = pick<unsigned>({0, 1, 10, 100, 300}), me = pick<unsigned>({0, 1, 10, 100});
                    double rr = pick<double>({0.05, 0.33, 0.75, 1.0}), sn = pick<double>({0.0, 0.005, 0.05, 0.3});
                    return Call{"partialShortcutPath",
                                json{{"maxSteps", ms}, {"maxEmptySteps", me}, {"rangeRatioPm", (int)(rr * 1000)}, {"snapPm", (int)(sn * 1000)}},
                                [=](og::PathSimplifier &ps, og::PathGeometric &p) { return ps.partialShortcutPath(p, ms, me, rr, sn); }};
                }
                if (r < 58)
                {
                    double delta = pick<double>({L / 5, L / 20, L / 60, 1.0}), eq = pick<double>({0.1, 0.01, 1.0});
                    if (n > 300 || L / delta > 150)
                        continue;  // cubic in the number of states after densification
                    return Call{"ropeShortcutPath", json{{"deltaMicro", micro(delta)}, {"eqTolPm", (int)(eq * 1000)}},
                                [=](og::PathSimplifier &ps, og::PathGeometric &p) { return ps.ropeShortcutPath(p, delta, eq); }};
                }
                if (r < 68)
                {
                    unsigned ms = n > 200 ? 1 : pick<unsigned>({1, 3, 5});
                    double mc = pick<double>({std::numeric_limits<double>::epsilon(), L / 100, L / 10});
                    return Call{"smoothBSpline", json{{"maxSteps", ms}, {"minChangeMicro", micro(mc)}},
                                [=](og::PathSimplifier &ps, og::PathGeometric &p) {
                                    ps.smoothBSpline(p, ms, mc);
                                    return true;
                                }};
                }
                if (r < 80)
                {
                    // (under path length a perturbation can never pay off - triangle inequality - so
                    // the field objective gets the long steps and step counts that make it succeed)
                    const bool field = objName == "field";
                    double step = field ? pick<double>({L / 5, L / 2, L}) : pick<double>({L / 50, L / 20, L / 5, L});
                    unsigned ms = field ? pick<unsigned>({100, 400}) : pick<unsigned>({0, 10, 100, 400});
                    unsigned me = field ? pick<unsigned>({100, 400}) : pick<unsigned>({0, 10, 100, 400});
                    double sn = pick<double>({0.0, 0.005, 0.05});
                    return Call{"perturbPath",
                                json{{"stepMicro", micro(step)}, {"maxSteps", ms}, {"maxEmptySteps", me}, {"snapPm", (int)(sn * 1000)}},
                                [=](og::PathSimplifier &ps, og::PathGeometric &p) { return ps.perturbPath(p, step, ms, me, sn); }};
                }
                if (r < 88)
                {
                    unsigned sa = pick<unsigned>({1, 10, 30});
                    double rr = pick<double>({0.1, 0.33, 1.0}), sn = pick<double>({0.0, 0.005, 0.1});
                    long fire = pick<long>({1000000, 1000000, 25});
                    return Call{"findBetterGoal",
                                json{{"samplingAttempts", sa}, {"rangeRatioPm", (int)(rr * 1000)}, {"snapPm", (int)(sn * 1000)}, {"ptcAfter", fire}},
                                [=](og::PathSimplifier &ps, og::PathGeometric &p) {
                                    long cnt = 0;
                                    ob::PlannerTerminationCondition ptc([&cnt, fire] { return ++cnt > fire; });
                                    return ps.findBetterGoal(p, ptc, sa, rr, sn);
                                }};
                }
                if (r < 96)
                {
                    // termination condition that becomes true at its (fire+1)-th evaluation:
                    // never, at once, or somewhere inside the combined routine
                    long fire = pick<long>({1000000000, 1000000000, 0, 2, 5, 9, 14, 25, 60});
                    bool once = rng.below(3) != 0;
                    return Call{"simplify", json{{"ptcAfter", fire}, {"atLeastOnce", once}},
                                [=](og::PathSimplifier &ps, og::PathGeometric &p) {
                                    long cnt = 0;
                                    ob::PlannerTerminationCondition ptc([&cnt, fire] { return ++cnt > fire; });
                                    return ps.simplify(p, ptc, once);
                                }};
                }
                return Call{"simplifyMax", json::object(),
                            [=](og::PathSimplifier &ps, og::PathGeometric &p) { return ps.simplifyMax(p); }};
            }
        }

        void runSimplifierChain()
        {
            // ---- configuration
            int wsel = rng.below(10);
            world = W.w[wsel < 4 ? 0 : wsel < 6 ? 1 : wsel < 8 ? 2 : 3].get();
            metric = rng.below(6) != 0;
            si = makeSI(*world, metric);
            objName = rng.below(5) < 3 ? "len" : "field";
            makeObjective();
            const bool withGoal = rng.below(2) == 0;

            // ---- the input path
            Pts in;
            std::string src;
            std::vector<P2> goals;
            for (int attempt = 0; attempt < 6 && in.empty(); ++attempt)
            {
                int s = rng.below(100);
                P2 start;
                if (s < 30)
                    src = "rrtconnect";
                else if (s < 45)
                    src = "rrt";
                else if (s < 60)
                    src = "prm";
                else if (s < 72)
                    src = "stored";
                else if (s < 88)
                    src = "zigzag";
                else
                    src = "degenerate";
                if (src == "stored")
                {
                    if (world->name != "circles")
                        continue;
                    in = W.stored[rng.below((int)W.stored.size())];
                }
                else if (src == "zigzag")
                {
                    if (!zigzag(in))
                        in.clear();
                    else
                        decorate(in);
                }
                else if (src == "degenerate")
                {
                    if (!degenerate(in, src))
                        in.clear();
                }
                else
                {
                    if (!query(start, goals))
                        continue;
                    if (withGoal)
                        moreGoals(goals);
                    setContext(k, -1, "planner " + src, json::object(), 0);
                    if (!plan(src, start, goals, in))
                        in.clear();
                    else if (rng.below(4) == 0)
                    {
                        decorate(in);
                        src += "+repeats";
                    }
                }
            }
            if (in.empty())
            {
                emit(json{{"e", "Skip"}, {"chain", k}});
                return;
            }
            // ---- goal region for the simplifier
            if (withGoal)
            {
                goalPts = goals;
                if (goalPts.empty() || !isGoalPoint(in.back()))
                    goalPts.insert(goalPts.begin(), in.back());
                // goal states near the later part of the path, so that a better goal exists sometimes
                int extra = 1 + rng.below(3);
                for (int i = 0; i < extra; ++i)
                {
                    const P2 &anchor = in[in.size() / 2 + rng.below((int)(in.size() - in.size() / 2))];
                    P2 g;
                    if (randomValid(g, &anchor, 0.08 * world->extent()))
                        goalPts.push_back(g);
                }
                goal = std::make_shared<ob::GoalStates>(si);
                ob::State *s = si->allocState();
                for (auto &g : goalPts)
                {
                    setXY(s, g);
                    goal->addState(s);
                }
                si->freeState(s);
            }
            og::PathGeometric path = toPath(in);
            og::PathSimplifier ps(si, goal, obj);

            Facts cur = measure(path);
            bool ok = cur.finite && oracleStrictValid(*world, cur.pts);  // valid input, re-implemented
            emit(json{{"e", "NewPath"}, {"chain", k}, {"world", world->name}, {"src", src}, {"n", cur.pts.size()},
                      {"len", cur.len}, {"cost", cur.cost}, {"valid", ok}, {"check", cur.check}, {"finite", cur.finite},
                      {"metric", metric}, {"goal", withGoal}, {"obj", objName}, {"dense", cur.dense},
                      {"minClearMicro", micro(std::max(-1000.0, std::min(1000.0, oracleMinClearance(*world, cur.pts))))},
                      {"stepMicro", micro(world->step())}});
            {
                json xs = json::array(), ys = json::array();
                for (auto &q : cur.pts)
                {
                    xs.push_back(hexd(q.x));
                    ys.push_back(hexd(q.y));
                }
                // exact coordinates of the input (hex floats), kept beside the trace for reproduction
                emit(json{{"e", "Input"}, {"chain", k}, {"xs", xs}, {"ys", ys}});
            }
            if (!cur.finite)
                return;

            int nsteps = 1 + rng.below(4);
            for (int step = 0; step < nsteps; ++step)
            {
                Call c = chooseCall(cur.pts.size(), oracleLength(cur.pts));
                if (!runCall(c, step, ps, path, cur, ok, withGoal))
                    return;
            }
        }

        // one routine call and its report; false when the chain cannot go on
        bool runCall(const Call &c, int step, og::PathSimplifier &ps, og::PathGeometric &path, Facts &cur, bool &ok, bool withGoal)
        {
            setContext(k, step, c.name, c.params, cur.pts.size());
            bool ret = c.run(ps, path);
            Facts aft = measure(path);
            json r{{"e", c.name},
                   {"chain", k},
                   {"step", step},
                   {"p", c.params},
                   {"ret", ret},
                   {"metric", metric},
                   {"goal", withGoal},
                   {"obj", objName},
                   {"nBefore", cur.pts.size()},
                   {"nAfter", aft.pts.size()},
                   {"lenBefore", cur.len},
                   {"lenAfter", aft.len},
                   {"costBefore", cur.cost},
                   {"costAfter", aft.cost},
                   {"validBefore", ok},
                   {"validAfter", aft.finite && aft.dense},
                   {"checkBefore", cur.check},
                   {"checkAfter", aft.check},
                   {"finite", aft.finite},
                   {"firstKept", !aft.pts.empty() && same(aft.pts.front(), cur.pts.front())},
                   {"lastKept", !aft.pts.empty() && same(aft.pts.back(), cur.pts.back())},
                   {"lastIsGoal", !aft.pts.empty() && isGoalPoint(aft.pts.back())},
                   {"changed", !samePts(aft.pts, cur.pts)}};
            emit(r);
            if (!aft.finite || aft.pts.empty())
                return false;
            ok = ok && aft.dense;
            cur = aft;
            return true;
        }

        // ---- probe: the combined routine interrupted by its termination condition.  A planner
        // path pulled tight against the obstacles by shortcutting (usually still accepted by check())
        // is handed to simplify with a condition that fires a few evaluations into the first pass.
        void runInterruptProbe()
        {
            world = W.w[pick<int>({0, 0, 1, 2, 2})].get();
            metric = true;
            si = makeSI(*world, true);
            objName = rng.below(3) ? "len" : "field";
            makeObjective();
            const bool withGoal = rng.below(2) == 0;
            P2 start;
            std::vector<P2> goals;
            Pts in;
            std::string src = pick<std::string>({"rrtconnect", "rrt", "prm"});
            setContext(k, -1, "planner " + src, json::object(), 0);
            if (!query(start, goals) || !plan(src, start, goals, in))
                return;
            if (withGoal)
            {
                goalPts = goals;
                goal = std::make_shared<ob::GoalStates>(si);
                ob::State *s = si->allocState();
                for (auto &g : goalPts)
                {
                    setXY(s, g);
                    goal->addState(s);
                }
                si->freeState(s);
            }
            og::PathGeometric path = toPath(in);
            og::PathSimplifier ps(si, goal, obj);
            Facts cur = measure(path);
            bool ok = cur.finite && oracleStrictValid(*world, cur.pts);
            emit(json{{"e", "NewPath"}, {"chain", k}, {"world", world->name}, {"src", "probe-interrupt-" + src}, {"n", cur.pts.size()},
                      {"len", cur.len}, {"cost", cur.cost}, {"valid", ok}, {"check", cur.check}, {"finite", cur.finite},
                      {"metric", metric}, {"goal", withGoal}, {"obj", objName}, {"dense", cur.dense}});
            {
                json xs = json::array(), ys = json::array();
                for (auto &q : cur.pts)
                {
                    xs.push_back(hexd(q.x));
                    ys.push_back(hexd(q.y));
                }
                emit(json{{"e", "Input"}, {"chain", k}, {"xs", xs}, {"ys", ys}});
            }
            int step = 0;
            if (rng.below(4) != 0)
            {
                // shortcutting leaves segments tangent to the (inflated) obstacles: splitting such a
                // segment again is what makes check() re-discretise it unfavourably
                Call tighten{"partialShortcutPath", json{{"maxSteps", 300}, {"maxEmptySteps", 300}, {"rangeRatioPm", 1000}, {"snapPm", 5}},
                             [](og::PathSimplifier &s, og::PathGeometric &p) { return s.partialShortcutPath(p, 300, 300, 1.0, 0.005); }};
                if (!runCall(tighten, step++, ps, path, cur, ok, withGoal))
                    return;
            }
            long fire = pick<long>({2, 3, 4, 5, 6, 7, 9, 11, 14});
            Call c{"simplify", json{{"ptcAfter", fire}, {"atLeastOnce", false}}, [fire](og::PathSimplifier &s, og::PathGeometric &p) {
                       long cnt = 0;
                       ob::PlannerTerminationCondition ptc([&cnt, fire] { return ++cnt > fire; });
                       return s.simplify(p, ptc, false);
                   }};
            runCall(c, step++, ps, path, cur, ok, withGoal);
        }

        // ---- probes: two classes of the quantifier that used to end in an out-of-bounds read
        // (perturbPath on a single-state path; perturbPath with snap threshold 0 and a step as
        // long as the path, which clamps the sampled position to the end of the path on most
        // iterations).  Ordinary chains draw both classes too; the probes make sure that every
        // run holds some.  One perturbPath call per probe chain.
        void runProbe()
        {
            world = W.w[3].get();
            metric = true;
            si = makeSI(*world, true);
            objName = "len";
            makeObjective();
            Pts in;
            const bool single = rng.below(2) == 0;
            P2 a;
            if (!randomValid(a))
                return;
            if (single)
                in = {a};
            else if (!zigzag(in))
                return;
            og::PathGeometric path = toPath(in);
            og::PathSimplifier ps(si, ob::GoalPtr(), obj);
            Facts cur = measure(path);
            bool ok = oracleStrictValid(*world, cur.pts);
            emit(json{{"e", "NewPath"}, {"chain", k}, {"world", world->name}, {"src", single ? "probe-single-state" : "probe-snap0"},
                      {"n", cur.pts.size()}, {"len", cur.len}, {"cost", cur.cost}, {"valid", ok}, {"check", cur.check},
                      {"finite", cur.finite}, {"metric", metric}, {"goal", false}, {"obj", objName}, {"dense", cur.dense}});
            const double L = std::max(oracleLength(cur.pts), 1.0);
            const double step = single ? 1.0 : L;
            const double sn = single ? 0.005 : 0.0;
            json params{{"stepMicro", micro(step)}, {"maxSteps", 400}, {"maxEmptySteps", 400}, {"snapPm", (int)(sn * 1000)}};
            setContext(k, 0, "perturbPath", params, cur.pts.size());
            bool ret = ps.perturbPath(path, step, 400, 400, sn);
            Facts aft = measure(path);
            emit(json{{"e", "perturbPath"}, {"chain", k}, {"step", 0}, {"p", params}, {"ret", ret}, {"metric", metric}, {"goal", false},
                      {"obj", objName}, {"nBefore", cur.pts.size()}, {"nAfter", aft.pts.size()}, {"lenBefore", cur.len},
                      {"lenAfter", aft.len}, {"costBefore", cur.cost}, {"costAfter", aft.cost}, {"validBefore", ok},
                      {"validAfter", aft.finite && aft.dense}, {"checkBefore", cur.check}, {"checkAfter", aft.check},
                      {"finite", aft.finite}, {"firstKept", !aft.pts.empty() && same(aft.pts.front(), cur.pts.front())},
                      {"lastKept", !aft.pts.empty() && same(aft.pts.back(), cur.pts.back())}, {"lastIsGoal", false},
                      {"changed", !samePts(aft.pts, cur.pts)}});
        }

        // ---- probe: single perturbation steps whose window swallows whole segments.  A path of a few long
        // segments in the open world under the linear field (perturbations pay off there), a step at least as long
        // as a segment and a positive snap threshold: the window start falls inside a segment, the window end snaps
        // onto a vertex one or two positions further on - the insert / erase bookkeeping of every (inside, vertex)
        // combination is exercised, and with maxSteps = 1 nothing can repair the path afterwards.  Every call
        // starts from the same fresh path (a NewPath line before each).
        void runPerturbStepProbe()
        {
            world = W.w[3].get();
            metric = true;
            si = makeSI(*world, true);
            objName = "field";
            makeObjective();
            Pts in;
            P2 cur0;
            if (!randomValid(cur0))
                return;
            in = {cur0};
            const int nseg = 2 + rng.below(4);
            const double reach = (0.12 + 0.25 * rng.unit()) * world->extent();
            for (int i = 0; i < nseg; ++i)
                for (int t = 0; t < 60; ++t)
                {
                    P2 nx;
                    if (randomValid(nx, &in.back(), reach) && segmentOK(in.back(), nx) &&
                        std::hypot(nx.x - in.back().x, nx.y - in.back().y) > 0.5 * reach)
                    {
                        in.push_back(nx);
                        break;
                    }
                }
            if (in.size() < 3)
                return;
            og::PathSimplifier ps(si, ob::GoalPtr(), obj);
            const double L = std::max(oracleLength(in), 1e-6);
            double longest = 0;
            for (std::size_t i = 0; i + 1 < in.size(); ++i)
                longest = std::max(longest, std::hypot(in[i + 1].x - in[i].x, in[i + 1].y - in[i].y));
            for (int call = 0; call < 40; ++call)
            {
                og::PathGeometric path = toPath(in);
                Facts cur = measure(path);
                bool ok = oracleStrictValid(*world, cur.pts);
                emit(json{{"e", "NewPath"}, {"chain", k}, {"world", world->name}, {"src", "probe-perturb-step"},
                          {"n", cur.pts.size()}, {"len", cur.len}, {"cost", cur.cost}, {"valid", ok}, {"check", cur.check},
                          {"finite", cur.finite}, {"metric", metric}, {"goal", false}, {"obj", objName}, {"dense", cur.dense}});
                const double step = longest * pick<double>({0.6, 1.0, 1.0, 1.3, 2.0});
                const double sn = pick<double>({0.005, 0.02, 0.05, 0.1});
                const unsigned ms = pick<unsigned>({1, 1, 1, 2});
                json params{{"stepMicro", micro(step)}, {"maxSteps", ms}, {"maxEmptySteps", ms}, {"snapPm", (int)(sn * 1000)}};
                setContext(k, call, "perturbPath", params, cur.pts.size());
                bool ret = ps.perturbPath(path, step, ms, ms, sn);
                Facts aft = measure(path);
                emit(json{{"e", "perturbPath"}, {"chain", k}, {"step", call}, {"p", params}, {"ret", ret}, {"metric", metric},
                          {"goal", false}, {"obj", objName}, {"nBefore", cur.pts.size()}, {"nAfter", aft.pts.size()},
                          {"lenBefore", cur.len}, {"lenAfter", aft.len}, {"costBefore", cur.cost}, {"costAfter", aft.cost},
                          {"validBefore", ok}, {"validAfter", aft.finite && aft.dense}, {"checkBefore", cur.check},
                          {"checkAfter", aft.check}, {"finite", aft.finite},
                          {"firstKept", !aft.pts.empty() && same(aft.pts.front(), cur.pts.front())},
                          {"lastKept", !aft.pts.empty() && same(aft.pts.back(), cur.pts.back())}, {"lastIsGoal", false},
                          {"changed", !samePts(aft.pts, cur.pts)}});
            }
            (void)L;
        }

        // ---- hybridization session
        void runHybridSession()
        {
            int wsel = rng.below(10);
            world = W.w[wsel < 5 ? 0 : wsel < 7 ? 1 : wsel < 9 ? 2 : 3].get();
            metric = true;
            si = makeSI(*world, true);
            objName = rng.below(2) ? "len" : "field";
            makeObjective();
            const bool defaultCtor = objName == "len" && rng.below(2) == 0;
            P2 start;
            std::vector<P2> goals;
            if (!query(start, goals))
            {
                emit(json{{"e", "Skip"}, {"chain", k}});
                return;
            }
            if (rng.below(2))
                moreGoals(goals);
            std::unique_ptr<og::PathHybridization> hp(defaultCtor ? new og::PathHybridization(si) : new og::PathHybridization(si, obj));
            emit(json{{"e", "HybridStart"}, {"chain", k}, {"world", world->name}, {"obj", objName}, {"defaultCtor", defaultCtor}});
            std::vector<og::PathGeometricPtr> recorded;
            std::vector<P2> lasts;
            const bool gaps = rng.below(2) == 0;
            auto recordOne = [&](const og::PathGeometricPtr &p, bool dup, const std::string &src) {
                Pts pts = points(*p);
                setContext(k, -1, "recordPath", json{{"src", src}}, pts.size());
                unsigned att = hp->recordPath(p, gaps);
                if (!dup)
                {
                    recorded.push_back(p);
                    lasts.push_back(pts.back());
                }
                emit(json{{"e", "recordPath"}, {"chain", k}, {"src", src}, {"n", pts.size()}, {"cost", micro(cost(pts))},
                          {"len", micro(oracleLength(pts))}, {"valid", oracleStrictValid(*world, pts)}, {"dup", dup},
                          {"attempts", att}, {"pathCount", hp->pathCount()}, {"gaps", gaps}});
            };
            auto compute = [&]() {
                setContext(k, -1, "computeHybridPath", json::object(), recorded.size());
                hp->computeHybridPath();
                const og::PathGeometricPtr &h = hp->getHybridPath();
                if (!h)
                {
                    emit(json{{"e", "computeHybridPath"}, {"chain", k}, {"has", false}});
                    return;
                }
                Facts f = measure(*h);
                bool lastOK = false;
                for (auto &q : lasts)
                    lastOK = lastOK || (!f.pts.empty() && same(q, f.pts.back()));
                emit(json{{"e", "computeHybridPath"}, {"chain", k}, {"has", true}, {"n", f.pts.size()}, {"len", f.len},
                          {"cost", f.cost}, {"valid", f.finite && f.dense}, {"check", f.check}, {"finite", f.finite},
                          {"firstKept", !f.pts.empty() && same(f.pts.front(), start)}, {"lastOK", lastOK}});
            };
            int want = 2 + rng.below(4);
            for (int i = 0, tries = 0; i < want && tries < 3 * want; ++tries)
            {
                std::string which = pick<std::string>({"rrtconnect", "rrtconnect", "rrt", "prm"});
                Pts pts;
                setContext(k, -1, "planner " + which, json::object(), 0);
                if (!plan(which, start, goals, pts))
                    continue;
                if (!same(pts.front(), start))
                {
                    fprintf(stderr, "FRAMEWORK: planner path does not begin at the start state\n");
                    _exit(4);
                }
                auto p = std::make_shared<og::PathGeometric>(toPath(pts));
                if (rng.below(3) == 0)
                {
                    og::PathSimplifier ps(si, ob::GoalPtr(), obj);
                    ps.partialShortcutPath(*p, 30, 30);
                    which += "+shortcut";
                }
                recordOne(p, false, which);
                ++i;
                if (rng.below(5) == 0)
                    recordOne(p, true, which + " again");
                if (i >= 2 && rng.below(3) == 0)
                    compute();
            }
            if (recorded.empty())
                return;
            compute();
        }
    };

    inline unsigned long long mix(unsigned long long a, unsigned long long b)
    {
        unsigned long long x = a * 0x9E3779B97F4A7C15ULL + b * 0xC2B2AE3D27D4EB4FULL + 0x165667B19E3779F9ULL;
        x ^= x >> 31;
        x *= 0xD6E8FEB86659FD93ULL;
        x ^= x >> 29;
        return x;
    }

    // runs chain k in this process, writing its reports to `part`
    inline void runChain(const Worlds &W, long k, const std::string &part)
    {
        unsigned long long seed = mix(vt::envSeed(), (unsigned long long)k);
        ompl::RNG::setSeed(1 + (std::uint_fast32_t)(seed % 999999937ULL));
        vt::Trace tr(part);
        Chain c(W, k, tr, seed);
        if (k % 500 == 499)
            c.runProbe();
        else if (k % 25 == 12)
            c.runPerturbStepProbe();
        else if (k % 10 == 3)
            c.runInterruptProbe();
        else if (k % 7 == 6)
            c.runHybridSession();
        else
            c.runSimplifierChain();
        tr.close();
    }

    inline int runOne(long k, const std::string &res)
    {
        Worlds W(res);
        std::string part = "/dev/stdout";
        runChain(W, k, part);
        return 0;
    }

    inline int record(const std::string &out, long first, long count, const std::string &res, int jobs)
    {
        Worlds W(res);
        std::map<pid_t, long> running;
        std::map<long, std::string> crashed;
        long next = first;
        const long end = first + count;
        int framework = 0;
        auto partName = [&](long k) { return out + "." + std::to_string(k) + ".part"; };
        fflush(stdout);
        while (next < end || !running.empty())
        {
            while (next < end && (int)running.size() < jobs)
            {
                fflush(stdout);
                pid_t pid = fork();
                if (pid < 0)
                {
                    perror("fork");
                    return 4;
                }
                if (pid == 0)
                {
                    alarm(900);  // a chain takes well under a second; this only ends a hang
                    runChain(W, next, partName(next));
                    fflush(stdout);
                    _exit(0);
                }
                running[pid] = next++;
            }
            int status = 0;
            pid_t pid = wait(&status);
            if (pid < 0)
                break;
            auto it = running.find(pid);
            if (it == running.end())
                continue;
            long k = it->second;
            running.erase(it);
            if (WIFEXITED(status) && WEXITSTATUS(status) == 0)
                continue;
            if (WIFEXITED(status) && WEXITSTATUS(status) == 70)
                crashed[k] = "";  // the crash handler wrote the Crash event itself
            else if (WIFSIGNALED(status) && WTERMSIG(status) == SIGALRM)
            {
                fprintf(stderr, "FRAMEWORK: chain %ld did not finish within its time limit\n", k);
                framework = 5;
            }
            else if (WIFSIGNALED(status))
                crashed[k] = std::string("signal ") + std::to_string(WTERMSIG(status));
            else
            {
                fprintf(stderr, "FRAMEWORK: chain %ld exited with status %d\n", k, WEXITSTATUS(status));
                framework = 4;
            }
        }
        // concatenate the parts in chain order
        FILE *f = fopen(out.c_str(), "w");
        FILE *fin = fopen((out + ".inputs").c_str(), "w");
        if (!f || !fin)
            return 3;
        long events = 0;
        for (long k = first; k < end; ++k)
        {
            std::ifstream in(partName(k));
            std::string line;
            while (std::getline(in, line))
                if (line.empty())
                    continue;
                else if (line.find("\"e\":\"Input\"") != std::string::npos)
                {
                    fputs(line.c_str(), fin);
                    fputc('\n', fin);
                }
                else if (line.find("\"e\":\"Skip\"") == std::string::npos)
                {
                    fputs(line.c_str(), f);
                    fputc('\n', f);
                    ++events;
                }
            auto it = crashed.find(k);
            if (it != crashed.end() && !it->second.empty())
            {
                fputs(json{{"e", "Crash"}, {"chain", k}, {"what", it->second}}.dump().c_str(), f);
                fputc('\n', f);
                ++events;
            }
            unlink(partName(k).c_str());
        }
        fclose(f);
        fclose(fin);
        std::cout << "RECORDED " << json{{"events", events}, {"chains", count}, {"crashed", crashed.size()}}.dump() << std::endl;
        return framework;
    }
}  // namespace c17
